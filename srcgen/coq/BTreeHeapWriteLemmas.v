(* Lemmas for the WRITE PATHS of the B-tree in tree pointer mode (no obligations): explicit heap updates ([hset], [halloc],
   [setpar] = what the generated setParent computes), what the slice operations of GoBTreeHeap.v compute on the shapes
   the B-tree code uses (split in two halves, shift-and-insert, shift-and-delete), ZIPPER contexts over address-carrying
   trees ([pframe], [crep]: the nodes above a focus and their other children as they lie in the heap) and the state
   predicate [zrep] of the bottom-up passes (split / rebalance): a focus subtree, the context above it, all addresses
   distinct, the header pointing to the top. *)
From Coq Require Import ZArith List Lia Bool Arith Permutation.
From Gods Require Import Common.Cmp Model.BTree Proofs.BTreeInd.
From GodsGenProofs Require Import GoCmp GoTreeHeap GoBTreeHeap BTreeHeapRep.
From GodsGenProofs Require BTreeHeapInsertModel.
From GodsGen Require BTreeHeapGen.
Import ListNotations.
Local Open Scope Z_scope.

(* ---------- explicit heap updates ---------- *)
Definition hset (h : heap G.Node) (a : nat) (n : G.Node) : heap G.Node := mkheap ((a, n) :: hcells h) (hnext h).
Definition halloc (h : heap G.Node) (n : G.Node) : heap G.Node := mkheap ((hnext h, n) :: hcells h) (S (hnext h)).

Lemma hread_hset : forall h a n x, hread (hset h a n) x = if Nat.eqb x a then Some n else hread h x.
Proof. reflexivity. Qed.
Lemma store_hset : forall h a c f, hread h a = Some c -> store h (Some a) f = Some (hset h a (f c)).
Proof. intros h a c f H. unfold store. now rewrite H. Qed.
Lemma hnext_hset : forall h a n, hnext (hset h a n) = hnext h.
Proof. reflexivity. Qed.
Lemma alloc_halloc : forall h c, alloc h c = (halloc h c, Some (hnext h)).
Proof. reflexivity. Qed.
Lemma hread_halloc : forall h c x, hread (halloc h c) x = if Nat.eqb x (hnext h) then Some c else hread h x.
Proof. reflexivity. Qed.
Lemma hnext_halloc : forall h c, hnext (halloc h c) = S (hnext h).
Proof. reflexivity. Qed.

Lemma heap_ok_hset : forall h a n, heap_ok h -> hread h a <> None -> heap_ok (hset h a n).
Proof.
  intros h a n Hok Ha x Hx. rewrite hnext_hset. rewrite hread_hset in Hx. destruct (Nat.eqb x a) eqn:E.
  - apply Nat.eqb_eq in E. subst. now apply Hok.
  - now apply Hok.
Qed.
Lemma heap_ok_halloc : forall h c, heap_ok h -> heap_ok (halloc h c).
Proof. intros h c H. exact (heap_ok_alloc h c H). Qed.

(* setParent(nodes, parent): every node of the list gets the Parent field *)
Fixpoint setpar (h : heap G.Node) (ps : list nat) (p : ptr) : heap G.Node :=
  match ps with
  | [] => h
  | q :: ps' => match hread h q with
                | Some c => setpar (hset h q (G.Node_with_Parent p c)) ps' p
                | None => h
                end
  end.

(* isLeaf as a read of the node record, whichever way the Go source writes the comparison with 0 *)
Lemma isLeaf_unfold : forall h (tr : G.Tree) p,
  G.isLeaf h tr p = match deref h p with Some c => Some (sl_len (G.Node_Children c) =? 0) | None => None end.
Proof. intros h tr p. unfold G.isLeaf. destruct (deref h p); [|reflexivity]. first [reflexivity|apply f_equal; apply Z.eqb_sym]. Qed.

Lemma setParent_setpar : forall ps h p, (forall q, In q ps -> hread h q <> None) ->
  G.setParent h (map (@Some nat) ps) p = Some (setpar h ps p).
Proof.
  unfold G.setParent. induction ps as [|q ps IH]; intros h p Hall; [reflexivity|].
  cbn [map setpar]. destruct (hread h q) as [c|] eqn:Eq; [|elim (Hall q (or_introl eq_refl) Eq)].
  rewrite (store_hset _ _ _ _ Eq).
  specialize (IH (hset h q (G.Node_with_Parent p c)) p).
  destruct ((fix setParent_range1 (l : list (option nat)) (h0 : heap G.Node) {struct l} : option (heap G.Node) :=
      match l with
      | [] => Some h0
      | v_node :: l' => match store h0 v_node (G.Node_with_Parent p) with Some h1 => setParent_range1 l' h1 | None => None end
      end) (map (@Some nat) ps) (hset h q (G.Node_with_Parent p c))) as [h'|] eqn:E.
  - rewrite <- IH; [reflexivity|]. intros x Hx. rewrite hread_hset. destruct (Nat.eqb x q); [discriminate|]. apply Hall. now right.
  - exfalso. assert (Hn : @None (heap G.Node) = Some (setpar (hset h q (G.Node_with_Parent p c)) ps p)); [|discriminate].
    apply IH. intros x Hx. rewrite hread_hset. destruct (Nat.eqb x q); [discriminate|]. apply Hall. now right.
Qed.

Lemma with_Parent_idem : forall p c, G.Node_with_Parent p (G.Node_with_Parent p c) = G.Node_with_Parent p c.
Proof. reflexivity. Qed.

Lemma with_Parent_idem' : forall p q c, G.Node_with_Parent p (G.Node_with_Parent q c) = G.Node_with_Parent p c.
Proof. reflexivity. Qed.

Lemma hread_setpar : forall ps h p x, (forall q, In q ps -> hread h q <> None) ->
  hread (setpar h ps p) x = if existsb (Nat.eqb x) ps then option_map (G.Node_with_Parent p) (hread h x) else hread h x.
Proof.
  induction ps as [|q ps IH]; intros h p x Hall; [reflexivity|].
  cbn [setpar existsb]. destruct (hread h q) as [c|] eqn:Eq; [|elim (Hall q (or_introl eq_refl) Eq)].
  rewrite IH.
  - rewrite hread_hset. destruct (Nat.eqb x q) eqn:E; cbn [orb].
    + apply Nat.eqb_eq in E. subst x. rewrite Eq. cbn [option_map]. destruct (existsb (Nat.eqb q) ps); reflexivity.
    + reflexivity.
  - intros y Hy. rewrite hread_hset. destruct (Nat.eqb y q); [discriminate|]. apply Hall. now right.
Qed.

Lemma hnext_setpar : forall ps h p, hnext (setpar h ps p) = hnext h.
Proof.
  induction ps as [|q ps IH]; intros h p; [reflexivity|]. cbn [setpar]. destruct (hread h q); [|reflexivity]. now rewrite IH.
Qed.

Lemma heap_ok_setpar : forall ps h p, heap_ok h -> heap_ok (setpar h ps p).
Proof.
  induction ps as [|q ps IH]; intros h p Hok; [exact Hok|]. cbn [setpar]. destruct (hread h q) eqn:E; [|exact Hok].
  apply IH. apply heap_ok_hset; [exact Hok|congruence].
Qed.

Lemma existsb_eqb_In : forall x l, existsb (Nat.eqb x) l = true <-> In x l.
Proof.
  intros x l. rewrite existsb_exists. split.
  - intros (y & Hy & E). apply Nat.eqb_eq in E. now subst.
  - intros H. exists x. split; [exact H|apply Nat.eqb_refl].
Qed.
Lemma existsb_eqb_notIn : forall x l, ~ In x l -> existsb (Nat.eqb x) l = false.
Proof. intros x l H. destruct (existsb (Nat.eqb x) l) eqn:E; [|reflexivity]. apply existsb_eqb_In in E. contradiction. Qed.

(* ---------- slices ---------- *)
Section Slices.
Context {A : Type}.
Implicit Types l s : list A.

Lemma sl_len_app : forall l1 l2, sl_len (l1 ++ l2) = sl_len l1 + sl_len l2.
Proof. intros. unfold sl_len. rewrite app_length. lia. Qed.

Lemma sl_slice_nat : forall l lo hi, (lo <= hi)%nat -> (hi <= length l)%nat ->
  sl_slice l (Z.of_nat lo) (Z.of_nat hi) = Some (firstn (hi - lo) (skipn lo l)).
Proof.
  intros l lo hi H1 H2. unfold sl_slice, sl_len.
  replace ((0 <=? Z.of_nat lo) && (Z.of_nat lo <=? Z.of_nat hi) && (Z.of_nat hi <=? Z.of_nat (length l))) with true
    by (symmetry; rewrite !andb_true_iff, !Z.leb_le; lia).
  rewrite Nat2Z.id. replace (Z.to_nat (Z.of_nat hi - Z.of_nat lo)) with (hi - lo)%nat by lia. reflexivity.
Qed.

Lemma sl_slice_to : forall l k, (k <= length l)%nat -> sl_slice l 0 (Z.of_nat k) = Some (firstn k l).
Proof. intros l k H. change 0 with (Z.of_nat 0). rewrite sl_slice_nat by lia. now rewrite Nat.sub_0_r. Qed.

Lemma sl_slice_from : forall l k, (k <= length l)%nat -> sl_slice l (Z.of_nat k) (sl_len l) = Some (skipn k l).
Proof.
  intros l k H. unfold sl_len at 1. rewrite sl_slice_nat by lia. f_equal. apply firstn_all2. rewrite skipn_length. lia.
Qed.

Lemma sl_set_nat : forall l p x, (p < length l)%nat -> sl_set l (Z.of_nat p) x = Some (replace_at p x l).
Proof.
  intros l p x H. unfold sl_set, sl_len, replace_at.
  replace ((Z.of_nat p <? 0) || (Z.of_nat (length l) <=? Z.of_nat p)) with false
    by (symmetry; rewrite orb_false_iff, Z.ltb_ge, Z.leb_gt; lia).
  now rewrite Nat2Z.id.
Qed.

(* node.Entries = append(node.Entries, nil); copy(node.Entries[p+1:], node.Entries[p:]); node.Entries[p] = x *)
Lemma shift_slice : forall l p d, (p <= length l)%nat ->
  sl_slice (l ++ [d]) (Z.of_nat p) (sl_len (l ++ [d])) = Some (skipn p l ++ [d]).
Proof.
  intros l p d H. rewrite sl_slice_from by (rewrite app_length; cbn [length]; lia).
  rewrite skipn_app. replace (p - length l)%nat with O by lia. reflexivity.
Qed.

Lemma shift_copy : forall l p d, (p <= length l)%nat ->
  sl_copy (l ++ [d]) (Z.of_nat p + 1) (sl_len (l ++ [d])) (skipn p l ++ [d]) =
  Some (firstn (S p) (l ++ [d]) ++ skipn p l).
Proof.
  intros l p d H. unfold sl_copy, sl_len. rewrite app_length. cbn [length].
  replace ((0 <=? Z.of_nat p + 1) && (Z.of_nat p + 1 <=? Z.of_nat (length l + 1)) && (Z.of_nat (length l + 1) <=? Z.of_nat (length l + 1)))
    with true by (symmetry; rewrite !andb_true_iff, !Z.leb_le; lia).
  replace (Z.to_nat (Z.of_nat p + 1)) with (S p) by lia.
  replace (Z.to_nat (Z.of_nat (length l + 1) - (Z.of_nat p + 1))) with (length l - p)%nat by lia.
  rewrite app_length, skipn_length. cbn [length].
  replace (Nat.min (length l - p) (length l - p + 1)) with (length l - p)%nat by lia.
  f_equal. f_equal. rewrite firstn_app, skipn_length, Nat.sub_diag. cbn [firstn]. rewrite app_nil_r.
  rewrite firstn_all2 by (rewrite skipn_length; lia).
  rewrite (skipn_all2 (l ++ [d])); [now rewrite app_nil_r|]. rewrite app_length. cbn [length]. lia.
Qed.

Lemma shift_set : forall l p d x, (p <= length l)%nat ->
  sl_set (firstn (S p) (l ++ [d]) ++ skipn p l) (Z.of_nat p) x = Some (insert_at p x l).
Proof.
  intros l p d x H.
  assert (Hlen : length (firstn (S p) (l ++ [d])) = S p) by (rewrite firstn_length, app_length; cbn [length]; lia).
  rewrite sl_set_nat by (rewrite app_length, Hlen; lia). f_equal. unfold replace_at, insert_at.
  rewrite firstn_app, Hlen. replace (p - S p)%nat with O by lia. rewrite firstn_O, app_nil_r.
  rewrite firstn_firstn. replace (Nat.min p (S p)) with p by lia.
  rewrite firstn_app. replace (p - length l)%nat with O by lia. rewrite firstn_O, app_nil_r. f_equal. f_equal.
  rewrite skipn_app, Hlen, Nat.sub_diag. rewrite (skipn_all2 (firstn (S p) (l ++ [d]))) by lia. reflexivity.
Qed.
End Slices.

Lemma firstn_eptrs : forall k es, firstn k (eptrs es) = eptrs (firstn k es).
Proof. intros. unfold eptrs. apply firstn_map. Qed.
Lemma skipn_eptrs : forall k es, skipn k (eptrs es) = eptrs (skipn k es).
Proof. intros. unfold eptrs. apply skipn_map. Qed.
Lemma firstn_cptrs : forall k cs, firstn k (cptrs cs) = cptrs (firstn k cs).
Proof. intros. unfold cptrs. apply firstn_map. Qed.
Lemma skipn_cptrs : forall k cs, skipn k (cptrs cs) = cptrs (skipn k cs).
Proof. intros. unfold cptrs. apply skipn_map. Qed.
Lemma cptrs_app : forall a b, cptrs (a ++ b) = cptrs a ++ cptrs b.
Proof. intros. unfold cptrs. apply map_app. Qed.
Lemma eptrs_app : forall a b, eptrs (a ++ b) = eptrs a ++ eptrs b.
Proof. intros. unfold eptrs. apply map_app. Qed.
Lemma cptrs_roots : forall cs, cptrs cs = map (@Some nat) (map paddr cs).
Proof. intros. unfold cptrs. now rewrite map_map. Qed.
Lemma eptrs_insert_at : forall p x es, insert_at p (Some x) (eptrs es) = eptrs (insert_at p x es).
Proof. intros. unfold insert_at. now rewrite firstn_eptrs, skipn_eptrs, eptrs_app. Qed.
Lemma eptrs_replace_at : forall p x es, replace_at p (Some x) (eptrs es) = eptrs (replace_at p x es).
Proof. intros. unfold replace_at. now rewrite firstn_eptrs, skipn_eptrs, eptrs_app. Qed.

(* ---------- addresses of represented trees are allocated ---------- *)
Lemma rep_alloc : forall h pt pp x, rep h pp pt -> In x (addrs pt) -> hread h x <> None.
Proof.
  intros h pt. induction pt as [a es cs IH] using pnode_ind2. intros pp x Hrep Hx.
  apply rep_unfold in Hrep. destruct Hrep as [Ha Hc]. cbn [addrs] in Hx. destruct Hx as [<-|Hx]; [congruence|].
  apply in_flat_map in Hx. destruct Hx as (c & Hc1 & Hc2). rewrite Forall_forall in *. eapply IH; eauto.
Qed.

Definition roots (cs : list pnode) : list nat := map paddr cs.

Lemma roots_in : forall cs x, In x (roots cs) -> In x (flat_map addrs cs).
Proof.
  intros cs x H. apply in_map_iff in H. destruct H as (c & <- & Hc). apply in_flat_map. exists c. split; [exact Hc|apply paddr_in].
Qed.

(* inside the subtree of a child, only its root is a root of the (distinct) children *)
Lemma root_of_child : forall cs c x, NoDup (flat_map addrs cs) -> In c cs -> In x (addrs c) -> In x (roots cs) -> x = paddr c.
Proof.
  intros cs c x Hnd Hc Hx Hr. apply in_map_iff in Hr. destruct Hr as (c' & <- & Hc').
  destruct (In_nth_error _ _ Hc) as (i & Hi). destruct (In_nth_error _ _ Hc') as (j & Hj).
  destruct (Nat.eq_dec i j) as [->|Hne]; [congruence|].
  exfalso. eapply (NoDup_flat_disj cs i j c c' (paddr c') Hnd Hi Hj Hne Hx). apply paddr_in.
Qed.

(* re-parenting a represented subtree whose other nodes are untouched *)
Lemma rep_reparent : forall h h' pp pp' c, NoDup (addrs c) ->
  rep h pp c -> hread h' (paddr c) = option_map (G.Node_with_Parent pp') (hread h (paddr c)) ->
  (forall x, In x (addrs c) -> x <> paddr c -> hread h' x = hread h x) -> rep h' pp' c.
Proof.
  intros h h' pp pp' [a es cs] Hnd Hrep Hroot Hfr. apply rep_unfold in Hrep. destruct Hrep as [Ha Hc]. apply rep_unfold.
  cbn [paddr] in *. rewrite Ha in Hroot. split; [exact Hroot|].
  cbn [addrs] in Hnd. inversion Hnd as [|? ? Hna _]; subst.
  rewrite Forall_forall in *. intros c Hin. eapply rep_frame; [|apply Hc; exact Hin].
  intros x Hx. assert (Hxf : In x (flat_map addrs cs)) by (apply in_flat_map; eauto). apply Hfr.
  - cbn [addrs]. now right.
  - intro E. subst x. contradiction.
Qed.

(* ---------- allocated addresses stay allocated ---------- *)
Definition alloced (h : heap G.Node) (x : nat) : Prop := hread h x <> None.
Lemma alloced_hset : forall h a n x, alloced h x -> alloced (hset h a n) x.
Proof. unfold alloced. intros h a n x H. rewrite hread_hset. destruct (Nat.eqb x a); [discriminate|exact H]. Qed.
Lemma alloced_halloc : forall h c x, alloced h x -> alloced (halloc h c) x.
Proof. unfold alloced. intros h c x H. rewrite hread_halloc. destruct (Nat.eqb x (hnext h)); [discriminate|exact H]. Qed.
Lemma alloced_setpar : forall ps h p x, alloced h x -> alloced (setpar h ps p) x.
Proof.
  induction ps as [|q ps IH]; intros h p x H; [exact H|]. cbn [setpar]. destruct (hread h q); [|exact H].
  apply IH. now apply alloced_hset.
Qed.
Lemma alloced_new : forall h c, alloced (halloc h c) (hnext h).
Proof. unfold alloced. intros. rewrite hread_halloc, Nat.eqb_refl. discriminate. Qed.
Lemma alloced_lt : forall h x, heap_ok h -> alloced h x -> (x < hnext h)%nat.
Proof. intros h x Hok H. exact (Hok x H). Qed.

(* ---------- zipper contexts ---------- *)
Inductive pframe := PF (b : nat) (es : list BT.entry) (ls rs : list pnode).
Definition pctx := list pframe.

Definition cparent (ctx : pctx) : ptr := match ctx with [] => None | PF b _ _ _ :: _ => Some b end.
Fixpoint caddrs (ctx : pctx) : list nat :=
  match ctx with
  | [] => []
  | PF b _ ls rs :: c => b :: flat_map addrs ls ++ flat_map addrs rs ++ caddrs c
  end.
Fixpoint croot (ctx : pctx) (a : nat) : nat :=
  match ctx with [] => a | PF b _ _ _ :: c => croot c b end.
(* the context as it lies in the heap, around a hole whose root has the address a *)
Fixpoint crep (h : heap G.Node) (ctx : pctx) (a : nat) : Prop :=
  match ctx with
  | [] => True
  | PF b es ls rs :: c =>
    hread h b = Some (G.mkNode (cparent c) (eptrs es) (cptrs ls ++ Some a :: cptrs rs)) /\
    Forall (rep h (Some b)) ls /\ Forall (rep h (Some b)) rs /\ crep h c b
  end.
Definition eframe (f : pframe) : list BT.entry * list BT.node * list BT.node :=
  match f with PF _ es ls rs => (es, map erase ls, map erase rs) end.
(* every node of the context has one child more than entries *)
Definition cwf (ctx : pctx) : Prop := Forall (fun f => match f with PF _ es ls rs => (length ls + length rs = length es)%nat end) ctx.
Fixpoint cwid (ctx : pctx) : nat :=
  match ctx with [] => O | PF _ es _ _ :: c => Nat.max (length es) (cwid c) end.

Definition zrep (h : heap G.Node) (tr : G.Tree) (ctx : pctx) (s : pnode) : Prop :=
  rep h (cparent ctx) s /\ crep h ctx (paddr s) /\ NoDup (addrs s ++ caddrs ctx) /\ heap_ok h /\
  G.Tree_Root tr = Some (croot ctx (paddr s)).

Lemma Forall_rep_frame : forall h h' pp cs, (forall x, In x (flat_map addrs cs) -> hread h' x = hread h x) ->
  Forall (rep h pp) cs -> Forall (rep h' pp) cs.
Proof.
  intros h h' pp cs Hf H. rewrite Forall_forall in *. intros c Hc. eapply rep_frame; [|apply H; exact Hc].
  intros x Hx. apply Hf. apply in_flat_map. eauto.
Qed.

Lemma crep_frame : forall h h' ctx a, (forall x, In x (caddrs ctx) -> hread h' x = hread h x) -> crep h ctx a -> crep h' ctx a.
Proof.
  intros h h'. induction ctx as [|[b es ls rs] c IH]; intros a Hf H; [exact I|]. cbn [crep caddrs] in *.
  destruct H as (Hb & Hl & Hr & Hc). split; [|split; [|split]].
  - rewrite Hf; [exact Hb|now left].
  - eapply Forall_rep_frame; [|exact Hl]. intros x Hx. apply Hf. right. apply in_or_app. now left.
  - eapply Forall_rep_frame; [|exact Hr]. intros x Hx. apply Hf. right. apply in_or_app. right. apply in_or_app. now left.
  - apply IH; [|exact Hc]. intros x Hx. apply Hf. right. apply in_or_app. right. apply in_or_app. now right.
Qed.

Lemma Forall_rep_alloc : forall h pp cs x, Forall (rep h pp) cs -> In x (flat_map addrs cs) -> alloced h x.
Proof.
  intros h pp cs x H Hx. apply in_flat_map in Hx. destruct Hx as (c & Hc & Hxc). rewrite Forall_forall in H.
  eapply rep_alloc; eauto.
Qed.

Lemma crep_alloc : forall h ctx a x, crep h ctx a -> In x (caddrs ctx) -> alloced h x.
Proof.
  intros h. induction ctx as [|[b es ls rs] c IH]; intros a x H Hx; [contradiction|]. cbn [crep caddrs] in *.
  destruct H as (Hb & Hl & Hr & Hc). destruct Hx as [<-|Hx]; [unfold alloced; congruence|].
  apply in_app_or in Hx. destruct Hx as [Hx|Hx]; [exact (Forall_rep_alloc _ _ _ _ Hl Hx)|].
  apply in_app_or in Hx. destruct Hx as [Hx|Hx]; [exact (Forall_rep_alloc _ _ _ _ Hr Hx)|exact (IH _ _ Hc Hx)].
Qed.

Lemma addrs_PN_app : forall b es ls s rs,
  addrs (PN b es (ls ++ s :: rs)) = b :: flat_map addrs ls ++ addrs s ++ flat_map addrs rs.
Proof. intros. cbn [addrs]. now rewrite flat_map_app. Qed.

(* one level up: the frame and the focus form the new focus *)
Lemma zrep_up : forall h tr b es ls rs c s,
  zrep h tr (PF b es ls rs :: c) s -> zrep h tr c (PN b es (ls ++ s :: rs)).
Proof.
  intros h tr b es ls rs c s (Hs & Hc & Hnd & Hok & Hroot). cbn [crep cparent croot caddrs] in *.
  destruct Hc as (Hb & Hl & Hr & Hc). unfold zrep. cbn [paddr]. split; [|split; [|split; [|split]]].
  - apply rep_unfold. split.
    + unfold node_of. now rewrite cptrs_app.
    + apply Forall_app. split; [exact Hl|]. constructor; [exact Hs|exact Hr].
  - exact Hc.
  - rewrite addrs_PN_app. eapply Permutation_NoDup; [|exact Hnd].
    cbn [app]. rewrite <- !app_assoc.
    eapply Permutation_trans; [apply Permutation_sym, Permutation_middle|]. apply perm_skip.
    apply Permutation_app_swap_app.
  - exact Hok.
  - exact Hroot.
Qed.

Lemma zrep_close : forall h tr ctx s, zrep h tr ctx s ->
  exists pt, erase pt = BTreeHeapInsertModel.eplug (map eframe ctx) (erase s) /\ G.Tree_Root tr = Some (paddr pt) /\
             rep h None pt /\ NoDup (addrs pt) /\ heap_ok h.
Proof.
  intros h tr. induction ctx as [|[b es ls rs] c IH]; intros s H.
  - destruct H as (Hs & _ & Hnd & Hok & Hroot). exists s. cbn [caddrs] in Hnd. rewrite app_nil_r in Hnd.
    split; [reflexivity|]. split; [exact Hroot|]. split; [exact Hs|]. split; assumption.
  - destruct (IH _ (zrep_up _ _ _ _ _ _ _ _ H)) as (pt & He & R). exists pt. split; [|exact R].
    rewrite He. cbn [map eframe BTreeHeapInsertModel.eplug erase]. now rewrite map_app.
Qed.

(* ---------- distinct addresses (generic facts on lists of nat) ---------- *)
Definition disj (l1 l2 : list nat) : Prop := forall x, In x l1 -> In x l2 -> False.

Lemma NoDup_app_iff : forall l1 l2 : list nat, NoDup (l1 ++ l2) <-> NoDup l1 /\ NoDup l2 /\ disj l1 l2.
Proof.
  intros l1 l2. split.
  - intro H. split; [eapply NoDup_app_l; eauto|]. split; [eapply NoDup_app_r; eauto|]. intros x H1 H2. eapply NoDup_app_disj; eauto.
  - intros (H1 & H2 & H3). induction l1 as [|y l1 IH]; [exact H2|]. inversion H1; subst. cbn [app]. constructor.
    + intro Hy. apply in_app_or in Hy. destruct Hy as [Hy|Hy]; [contradiction|]. apply (H3 y); [now left|exact Hy].
    + apply IH; [assumption|]. intros x Hx1 Hx2. apply (H3 x); [now right|exact Hx2].
Qed.

Lemma NoDup_flat_nth' : forall (cs : list pnode) c, NoDup (flat_map addrs cs) -> In c cs -> NoDup (addrs c).
Proof. intros cs c H Hc. destruct (In_nth_error _ _ Hc) as (i & Hi). eapply NoDup_flat_nth; eauto. Qed.

Lemma flat_firstn_skipn : forall k (cs : list pnode), flat_map addrs (firstn k cs) ++ flat_map addrs (skipn k cs) = flat_map addrs cs.
Proof. intros. rewrite <- flat_map_app. now rewrite firstn_skipn. Qed.
Lemma in_flat_firstn : forall k (cs : list pnode) x, In x (flat_map addrs (firstn k cs)) -> In x (flat_map addrs cs).
Proof. intros k cs x H. rewrite <- (flat_firstn_skipn k). apply in_or_app. now left. Qed.
Lemma in_flat_skipn : forall k (cs : list pnode) x, In x (flat_map addrs (skipn k cs)) -> In x (flat_map addrs cs).
Proof. intros k cs x H. rewrite <- (flat_firstn_skipn k). apply in_or_app. now right. Qed.
Lemma roots_app : forall a b, roots (a ++ b) = roots a ++ roots b.
Proof. intros. unfold roots. apply map_app. Qed.

(* ---------- the two halves of a split node ---------- *)
(* hX is h plus two new nodes a1 = hnext h, a2 = S (hnext h) that carry the entry lists e1 / e2 and adopt the (old,
   represented) children c1 / c2 *)
Definition is_halves (h hX : heap G.Node) (pp : ptr) (e1 e2 : list BT.entry) (c1 c2 : list pnode) : Prop :=
  hnext hX = S (S (hnext h)) /\ heap_ok hX /\
  hread hX (hnext h) = Some (G.mkNode pp (eptrs e1) (cptrs c1)) /\
  hread hX (S (hnext h)) = Some (G.mkNode pp (eptrs e2) (cptrs c2)) /\
  forall x, (x < hnext h)%nat ->
    hread hX x = if existsb (Nat.eqb x) (roots c2) then option_map (G.Node_with_Parent (Some (S (hnext h)))) (hread h x)
                 else if existsb (Nat.eqb x) (roots c1) then option_map (G.Node_with_Parent (Some (hnext h))) (hread h x)
                 else hread h x.

Lemma is_halves_old : forall h hX pp e1 e2 c1 c2 x, is_halves h hX pp e1 e2 c1 c2 -> (x < hnext h)%nat ->
  ~ In x (roots c1) -> ~ In x (roots c2) -> hread hX x = hread h x.
Proof.
  intros h hX pp e1 e2 c1 c2 x (_ & _ & _ & _ & H) Hx H1 H2. rewrite (H x Hx).
  now rewrite (existsb_eqb_notIn _ _ H2), (existsb_eqb_notIn _ _ H1).
Qed.

Lemma is_halves_children : forall h hX pp e1 e2 c1 c2 a, is_halves h hX pp e1 e2 c1 c2 ->
  Forall (rep h (Some a)) (c1 ++ c2) -> NoDup (flat_map addrs (c1 ++ c2)) ->
  (forall x, In x (flat_map addrs (c1 ++ c2)) -> (x < hnext h)%nat) ->
  Forall (rep hX (Some (hnext h))) c1 /\ Forall (rep hX (Some (S (hnext h)))) c2.
Proof.
  intros h hX pp e1 e2 c1 c2 a Hh Hrep Hnd Hlt. pose proof Hh as (_ & _ & _ & _ & Hold).
  assert (Hroots : forall c x, In c (c1 ++ c2) -> In x (addrs c) -> In x (roots (c1 ++ c2)) -> x = paddr c).
  { intros c x Hc Hx Hr. eapply root_of_child; eauto. }
  assert (Hd12 : forall c, In c c1 -> ~ In (paddr c) (roots c2)).
  { intros c Hc Hin. apply in_map_iff in Hin. destruct Hin as (c' & E & Hc').
    rewrite flat_map_app in Hnd. apply NoDup_app_iff in Hnd. destruct Hnd as (_ & _ & Hd).
    apply (Hd (paddr c)); [apply in_flat_map; exists c; split; [exact Hc|apply paddr_in]|].
    apply in_flat_map. exists c'. split; [exact Hc'|]. rewrite <- E. apply paddr_in. }
  rewrite Forall_forall in Hrep. split; rewrite Forall_forall; intros c Hc.
  - assert (Hcc : In c (c1 ++ c2)) by (apply in_or_app; now left).
    assert (Hlc : (paddr c < hnext h)%nat) by (apply Hlt; apply in_flat_map; exists c; split; [exact Hcc|apply paddr_in]).
    apply (rep_reparent h hX (Some a)); [eapply NoDup_flat_nth'; eauto|apply Hrep; exact Hcc| |].
    + rewrite (Hold _ Hlc). rewrite (existsb_eqb_notIn _ _ (Hd12 c Hc)).
      rewrite (proj2 (existsb_eqb_In _ _)); [reflexivity|]. unfold roots. now apply in_map.
    + intros x Hx Hne. assert (Hlx : (x < hnext h)%nat) by (apply Hlt; apply in_flat_map; eauto).
      apply (is_halves_old _ _ _ _ _ _ _ _ Hh Hlx); intro Hr; apply Hne; apply (Hroots c x Hcc Hx); rewrite roots_app; apply in_or_app; [now left|now right].
  - assert (Hcc : In c (c1 ++ c2)) by (apply in_or_app; now right).
    assert (Hlc : (paddr c < hnext h)%nat) by (apply Hlt; apply in_flat_map; exists c; split; [exact Hcc|apply paddr_in]).
    apply (rep_reparent h hX (Some a)); [eapply NoDup_flat_nth'; eauto|apply Hrep; exact Hcc| |].
    + rewrite (Hold _ Hlc). rewrite (proj2 (existsb_eqb_In _ _)); [reflexivity|]. unfold roots. now apply in_map.
    + intros x Hx Hne. assert (Hlx : (x < hnext h)%nat) by (apply Hlt; apply in_flat_map; eauto).
      apply (is_halves_old _ _ _ _ _ _ _ _ Hh Hlx); intro Hr; apply Hne; apply (Hroots c x Hcc Hx); rewrite roots_app; apply in_or_app; [now left|now right].
Qed.

Lemma halves_leaf : forall h pp e1 e2, heap_ok h ->
  is_halves h (halloc (halloc h (G.mkNode pp (eptrs e1) [])) (G.mkNode pp (eptrs e2) [])) pp e1 e2 [] [].
Proof.
  intros h pp e1 e2 Hok. unfold is_halves. split; [reflexivity|]. split; [now apply heap_ok_halloc, heap_ok_halloc|].
  split; [|split].
  - rewrite !hread_halloc, hnext_halloc. rewrite (proj2 (Nat.eqb_neq _ _)) by lia. now rewrite Nat.eqb_refl.
  - rewrite hread_halloc, hnext_halloc. now rewrite Nat.eqb_refl.
  - intros x Hx. cbn [roots map existsb]. rewrite !hread_halloc, hnext_halloc.
    rewrite !(proj2 (Nat.eqb_neq _ _)) by lia. reflexivity.
Qed.

Lemma halves_internal : forall h pp e1 e2 c1 c2, heap_ok h ->
  (forall q, In q (roots c1 ++ roots c2) -> alloced h q) ->
  is_halves h
    (setpar (setpar (hset (hset (halloc (halloc h (G.mkNode pp (eptrs e1) [])) (G.mkNode pp (eptrs e2) []))
                                (hnext h) (G.mkNode pp (eptrs e1) (cptrs c1)))
                          (S (hnext h)) (G.mkNode pp (eptrs e2) (cptrs c2)))
                    (roots c1) (Some (hnext h)))
            (roots c2) (Some (S (hnext h))))
    pp e1 e2 c1 c2.
Proof.
  intros h pp e1 e2 c1 c2 Hok Hal.
  set (h2 := halloc (halloc h (G.mkNode pp (eptrs e1) [])) (G.mkNode pp (eptrs e2) [])).
  set (h4 := hset (hset h2 (hnext h) (G.mkNode pp (eptrs e1) (cptrs c1))) (S (hnext h)) (G.mkNode pp (eptrs e2) (cptrs c2))).
  assert (Hlt : forall q, In q (roots c1 ++ roots c2) -> (q < hnext h)%nat) by (intros q Hq; apply Hok; apply Hal; exact Hq).
  assert (Hal4 : forall q, In q (roots c1 ++ roots c2) -> alloced h4 q).
  { intros q Hq. unfold h4, h2. now apply alloced_hset, alloced_hset, alloced_halloc, alloced_halloc, Hal. }
  assert (Hal1 : forall q, In q (roots c1) -> hread h4 q <> None) by (intros q Hq; apply Hal4; apply in_or_app; now left).
  assert (Hal2 : forall q, In q (roots c2) -> hread (setpar h4 (roots c1) (Some (hnext h))) q <> None).
  { intros q Hq. apply alloced_setpar. apply Hal4. apply in_or_app; now right. }
  assert (Hn1 : forall y, (hnext h <= y)%nat -> existsb (Nat.eqb y) (roots c1) = false).
  { intros y Hy. apply existsb_eqb_notIn. intro Hin. specialize (Hlt y (in_or_app _ _ _ (or_introl Hin))). lia. }
  assert (Hn2 : forall y, (hnext h <= y)%nat -> existsb (Nat.eqb y) (roots c2) = false).
  { intros y Hy. apply existsb_eqb_notIn. intro Hin. specialize (Hlt y (in_or_app _ _ _ (or_intror Hin))). lia. }
  unfold is_halves. split; [now rewrite !hnext_setpar|]. split.
  { apply heap_ok_setpar, heap_ok_setpar. unfold h4, h2.
    apply heap_ok_hset; [apply heap_ok_hset; [now apply heap_ok_halloc, heap_ok_halloc|]|].
    - rewrite !hread_halloc, hnext_halloc. rewrite (proj2 (Nat.eqb_neq _ _)) by lia. rewrite Nat.eqb_refl. discriminate.
    - rewrite hread_hset, hread_halloc, hnext_halloc. rewrite (proj2 (Nat.eqb_neq _ _)) by lia. rewrite Nat.eqb_refl. discriminate. }
  split; [|split].
  - rewrite (hread_setpar _ _ _ _ Hal2), (Hn2 _ (le_n _)). rewrite (hread_setpar _ _ _ _ Hal1), (Hn1 _ (le_n _)).
    unfold h4. rewrite !hread_hset. rewrite (proj2 (Nat.eqb_neq _ _)) by lia. now rewrite Nat.eqb_refl.
  - rewrite (hread_setpar _ _ _ _ Hal2), (Hn2 _ (le_S _ _ (le_n _))). rewrite (hread_setpar _ _ _ _ Hal1), (Hn1 _ (le_S _ _ (le_n _))).
    unfold h4. rewrite !hread_hset. now rewrite Nat.eqb_refl.
  - intros x Hx. rewrite (hread_setpar _ _ _ _ Hal2). rewrite (hread_setpar _ _ _ _ Hal1).
    assert (E : hread h4 x = hread h x).
    { unfold h4, h2. rewrite !hread_hset, !hread_halloc, hnext_halloc. now rewrite !(proj2 (Nat.eqb_neq _ _)) by lia. }
    rewrite E. destruct (existsb (Nat.eqb x) (roots c1)) eqn:E1; destruct (existsb (Nat.eqb x) (roots c2)) eqn:E2; try reflexivity.
    destruct (hread h x); [|reflexivity]. cbn [option_map]. now rewrite with_Parent_idem'.
Qed.

Lemma NoDup_insert_mid : forall P Y Q : list nat, NoDup (P ++ Q) -> NoDup Y -> disj Y (P ++ Q) -> NoDup (P ++ Y ++ Q).
Proof.
  intros P Y Q H1 H2 H3. eapply Permutation_NoDup; [apply Permutation_app_swap_app|].
  apply NoDup_app_iff. auto.
Qed.

Lemma croot_in : forall c b, In (croot c b) (b :: caddrs c).
Proof.
  induction c as [|[b' es ls rs] c IH]; intros b; [now left|]. cbn [croot caddrs]. right.
  destruct (IH b') as [E|H]; [left; exact E|]. right. apply in_or_app. right. apply in_or_app. now right.
Qed.

(* one level down: the child number |ls| becomes the focus *)
Lemma zrep_down : forall h tr a es ls c rs ctx,
  zrep h tr ctx (PN a es (ls ++ c :: rs)) -> zrep h tr (PF a es ls rs :: ctx) c.
Proof.
  intros h tr a es ls c rs ctx (Hs & Hc & Hnd & Hok & Hroot). apply rep_unfold in Hs. destruct Hs as [Ha Hch].
  apply Forall_app in Hch. destruct Hch as [Hl Hcr]. inversion Hcr as [|? ? Hcc Hr]; subst.
  unfold zrep. cbn [cparent crep caddrs croot paddr] in *. split; [exact Hcc|]. split; [|split; [|split; [exact Hok|exact Hroot]]].
  - split; [|split; [exact Hl|split; [exact Hr|exact Hc]]]. unfold node_of in Ha. now rewrite cptrs_app in Ha.
  - rewrite addrs_PN_app in Hnd. eapply Permutation_NoDup; [|exact Hnd].
    cbn [app]. rewrite <- !app_assoc. apply Permutation_sym.
    eapply Permutation_trans; [apply Permutation_sym, Permutation_middle|]. apply perm_skip.
    apply Permutation_app_swap_app.
Qed.

(* the root node of the focus gets new entries (same children, same parent): everything else is untouched *)
Lemma zrep_set_entries : forall h h' tr ctx a es es' cs,
  zrep h tr ctx (PN a es cs) ->
  hread h' a = Some (G.mkNode (cparent ctx) (eptrs es') (cptrs cs)) ->
  (forall x, x <> a -> hread h' x = hread h x) -> heap_ok h' ->
  zrep h' tr ctx (PN a es' cs).
Proof.
  intros h h' tr ctx a es es' cs (Hs & Hc & Hnd & Hok & Hroot) Ha Hfr Hok'.
  cbn [addrs app] in Hnd. apply NoDup_cons_iff in Hnd. destruct Hnd as [Hna Hnd].
  unfold zrep. cbn [paddr] in *. split; [|split; [|split; [|split; [exact Hok'|exact Hroot]]]].
  - apply rep_unfold. split; [exact Ha|]. eapply Forall_rep_frame; [|exact (rep_children _ _ _ _ _ Hs)].
    intros x Hx. apply Hfr. intro E. subst x. apply Hna. apply in_or_app. now left.
  - eapply crep_frame; [|exact Hc]. intros x Hx. apply Hfr. intro E. subst x. apply Hna. apply in_or_app. now right.
  - cbn [addrs app]. constructor; assumption.
Qed.
