(* DELETION path of trees/btree/btree.go, bottom-up pass, case BORROW FROM THE RIGHT SIBLING of the GENERATED rebalance
   (see BTreeHeapRebalanceProofs.v): no obligations. *)
From Coq Require Import ZArith List Lia Bool Arith Permutation ZifyBool ZifyNat.
From Gods Require Import Common.Cmp Model.BTree Model.BTreeCost Proofs.BTreeInd Proofs.BTreeMap.
From Gods Require Proofs.BTreeInv.
From GodsGenProofs Require Import GoCmp GoTreeHeap GoBTreeHeap BTreeHeapRep BTreeHeapReadProofs BTreeHeapInsertModel BTreeHeapRemoveModel
  BTreeHeapWriteLemmas BTreeHeapRemoveLemmas BTreeHeapRebCommon.
From GodsGen Require BTreeHeapGen.
Import ListNotations.
Local Open Scope Z_scope.

Section Step.
Variable mag : Z -> Z -> positive.
Variable m : nat.
Hypothesis H3 : (3 <= m)%nat.
Variables (h : heap G.Node) (tr : G.Tree) (a : nat) (es : list BT.entry) (cs : list pnode)
          (b : nat) (pes : list BT.entry) (ls rs : list pnode) (c : pctx) (key : Z) (f n : nat).
Hypothesis Hz : zrep h tr (PF b pes ls rs :: c) (PN a es cs).
Hypothesis Hm : G.Tree_m tr = Z.of_nat m.
Hypothesis Hwf : (length ls + length rs = length pes)%nat.
Hypothesis Hpos : fst (BT.search (G.Tree_Comparator tr) key pes) = length ls.
Hypothesis Hu : (length es < BT.minEntries m)%nat.
Hypothesis Hfuel : (search_c (G.Tree_Comparator tr) key pes <= S f)%nat.

Let sc := search_c (G.Tree_Comparator tr) key pes.
Let rb := G.mkNode (cparent c) (eptrs pes) (cptrs ls ++ Some a :: cptrs rs).

Lemma step_a : hread h a = Some (node_of (Some b) es cs).
Proof. destruct Hz as (Hrep & _). exact (rep_deref _ _ _ _ _ Hrep). Qed.
Lemma step_b : hread h b = Some rb.
Proof. destruct Hz as (_ & Hcr & _). cbn [crep paddr] in Hcr. exact (proj1 Hcr). Qed.
Lemma step_ok : heap_ok h.
Proof. destruct Hz as (_ & _ & _ & Hok & _). exact Hok. Qed.
Lemma step_nd : NoDup ((a :: flat_map addrs cs) ++ b :: flat_map addrs ls ++ flat_map addrs rs ++ caddrs c).
Proof. destruct Hz as (_ & _ & Hnd & _). exact Hnd. Qed.
Lemma step_ab : a <> b.
Proof. pose proof step_nd as H. cbn [app] in H. apply NoDup_cons_iff in H. destruct H as [H _]. intro E. apply H. apply in_or_app. right. subst. now left. Qed.

Lemma step_under : (Z.of_nat (BT.minEntries m) <=? sl_len (eptrs es)) = false.
Proof. rewrite sl_len_eptrs. lia. Qed.

(* ---------- borrow from the right sibling ---------- *)
Lemma borrow_right_step : forall ar res rcs rs' sep re res',
  pno_bl m ls -> rs = PN ar res rcs :: rs' -> (BT.minEntries m < length res)%nat ->
  nth_error pes (length ls) = Some sep -> res = re :: res' ->
  exists h',
    G.rebalance mag (S f) n h tr (Some a) key = Some ((n + sc + sc)%nat, h', tr) /\
    zrep h' tr c (PN b (replace_at (length ls) re pes)
                     (ls ++ PN a (es ++ [sep]) (snd (pbr_pair rcs cs)) :: PN ar res' (fst (pbr_pair rcs cs)) :: rs')).
Proof.
  intros ar res rcs rs' sep re res' Hnl Ers Hspare Hsep Eres.
  pose proof step_a as Ha. pose proof step_b as Hb. pose proof step_ok as Hok. pose proof step_nd as Hnd. pose proof step_ab as Hab.
  pose proof Hz as (Hrep & Hcr & _ & _ & Hroot). cbn [crep paddr cparent croot] in Hcr, Hroot. destruct Hcr as (_ & Hl & Hr & Hc).
  pose proof (rep_children _ _ _ _ _ Hrep) as Hch.
  assert (HR : rep h (Some b) (PN ar res rcs)).
  { rewrite Forall_forall in Hr. apply Hr. rewrite Ers. now left. }
  pose proof (rep_deref _ _ _ _ _ HR) as Har. unfold deref in Har. pose proof (rep_children _ _ _ _ _ HR) as Hrch.
  assert (Hnd2 := Hnd). cbn [app] in Hnd2. apply NoDup_cons_iff in Hnd2. destruct Hnd2 as [Hna Hnd2].
  apply NoDup_app_iff in Hnd2. destruct Hnd2 as (Hndc & Hndb & Hdisj).
  apply NoDup_cons_iff in Hndb. destruct Hndb as [Hnb Hndb].
  assert (Hinar : In ar (flat_map addrs rs)) by (rewrite Ers; cbn [flat_map addrs]; now left).
  assert (Haar : a <> ar) by (intro E; apply Hna; apply in_or_app; right; right; apply in_or_app; right; apply in_or_app; left; subst; exact Hinar).
  assert (Hbar : b <> ar) by (intro E; apply Hnb; apply in_or_app; right; apply in_or_app; left; subst; exact Hinar).
  assert (Hlslt : (length ls < length pes)%nat) by (pose proof Hwf as Hwf'; rewrite Ers in Hwf'; cbn [length] in Hwf'; lia).
  (* execution: the prefix *)
  cbn [G.rebalance]. fold (G.rebalance mag). cbn [is_nil]. unfold deref. rewrite Ha. cbn [node_of G.Node_Entries].
  rewrite (minEntries_Z h tr m Hm ltac:(lia)), step_under. cbv iota.
  rewrite (leftSibling_spec mag h tr a _ b rb pes key (S f) n Ha eq_refl Hb eq_refl Hfuel). fold sc. rewrite Hpos.
  match goal with |- context [if negb (is_nil ?LS) then ?T else Some false] =>
    assert (Hr8 : (if negb (is_nil LS) then T else Some false) = Some false) end.
  { destruct Hnl as [El|(ls' & al & les & lcs & El & Hle)]; rewrite El.
    - reflexivity.
    - rewrite app_length. cbn [length]. replace (length ls' + 1)%nat with (S (length ls')) by lia.
      assert (Enl : nth_error (G.Node_Children rb) (length ls') = Some (Some al)).
      { unfold rb. cbn [G.Node_Children]. rewrite El, cptrs_app. cbn [cptrs map]. rewrite <- app_assoc. cbn [app].
        rewrite <- (len_cptrs ls'). apply nth_error_app_mid. }
      rewrite Enl. cbn [is_nil negb paddr].
      assert (HL : rep h (Some b) (PN al les lcs)).
      { rewrite Forall_forall in Hl. apply Hl. rewrite El. apply in_or_app. right. now left. }
      pose proof (rep_deref _ _ _ _ _ HL) as Hal. unfold deref in Hal. rewrite Hal. cbn [node_of G.Node_Entries]. rewrite sl_len_eptrs.
      assert (Hsp : (Z.of_nat (BT.minEntries m) <? Z.of_nat (length les)) = false) by lia. now rewrite Hsp. }
  rewrite Hr8. cbv iota.
  rewrite (rightSibling_spec mag h tr a _ b rb pes key (S f) (n + sc)%nat Ha eq_refl Hb eq_refl Hfuel). fold sc. rewrite Hpos.
  assert (Enr : nth_error (G.Node_Children rb) (S (length ls)) = Some (Some ar)).
  { unfold rb. cbn [G.Node_Children]. rewrite Ers. cbn [cptrs map paddr]. rewrite <- (len_cptrs ls). apply nth_S_mid. }
  rewrite Enr. cbv iota beta. cbn [is_nil negb].
  rewrite Har. cbn [node_of G.Node_Entries]. rewrite sl_len_eptrs.
  assert (Hsp : (Z.of_nat (BT.minEntries m) <? Z.of_nat (length res)) = true) by lia. rewrite Hsp. cbv iota.
  replace (Z.of_nat (S (length ls)) - 1) with (Z.of_nat (length ls)) by lia.
  Ltac rd Ha Hb Har rb := repeat (progress (try hh; rewrite ?Ha, ?Hb, ?Har; try unfold rb;
    cbn [node_of G.Node_with_Entries G.Node_with_Children G.Node_with_Parent G.Node_Entries G.Node_Children G.Node_Parent])).
  rd Ha Hb Har rb.
  rewrite sl_get_nat, nth_eptrs, Hsep. cbn [option_map].
  erewrite store_hset by exact Ha. rd Ha Hb Har rb.
  rewrite sl_get_0. rewrite Eres. cbn [eptrs map hd_error].
  rewrite sl_set_nat by (rewrite len_eptrs; lia). rewrite eptrs_replace_at.
  erewrite store_hset by (hsimp; exact Hb). rd Ha Hb Har rb.
  match goal with |- context [G.deleteEntry ?H _ _ _] => set (h2 := H) end.
  assert (Har2 : hread h2 ar = Some (node_of (Some b) res rcs)) by (unfold h2; hsimp; exact Har).
  assert (H2a : hread h2 a = Some (G.mkNode (Some b) (eptrs es ++ [Some sep]) (cptrs cs))) by (unfold h2; hsimp; reflexivity).
  assert (H2b : hread h2 b = Some (G.mkNode (cparent c) (eptrs (replace_at (length ls) re pes)) (cptrs ls ++ Some a :: cptrs rs)))
    by (unfold h2; hsimp; reflexivity).
  assert (H2o : forall x, x <> a -> x <> b -> hread h2 x = hread h x) by (intros x Hxa Hxb; unfold h2; hsimp; reflexivity).
  assert (Hok2 : heap_ok h2).
  { unfold h2. apply heap_ok_hset; [apply heap_ok_hset; [exact Hok|congruence]|]. hsimp. congruence. }
  clearbody h2.
  change 0 with (Z.of_nat 0).
  destruct (deleteEntry_spec h2 tr ar _ 0%nat Har2) as (h3 & -> & Hu3); [cbn [node_of G.Node_Entries]; rewrite len_eptrs, Eres; cbn [length]; lia|].
  cbn [node_of G.Node_Parent G.Node_Entries G.Node_Children] in Hu3.
  assert (Hres' : remove_at 0 (eptrs res) = eptrs res') by (rewrite Eres; reflexivity). rewrite Hres' in Hu3.
  rewrite isLeaf_unfold. unfold deref. hh. rewrite sl_len_cptrs.
  assert (Hok3 : heap_ok h3) by (eapply hupd_ok; [exact Hu3|exact Hok2|unfold alloced; congruence]).
  (* the final heap *)
  match goal with |- exists h', match ?B with _ => _ end = _ /\ _ =>
    assert (HF : exists hF, B = Some hF /\
      hread hF a = Some (G.mkNode (Some b) (eptrs (es ++ [sep])) (cptrs (snd (pbr_pair rcs cs)))) /\
      hread hF b = Some (G.mkNode (cparent c) (eptrs (replace_at (length ls) re pes)) (cptrs ls ++ Some a :: cptrs rs)) /\
      hread hF ar = Some (G.mkNode (Some b) (eptrs res') (cptrs (fst (pbr_pair rcs cs)))) /\
      (forall mc, hd_error rcs = Some mc -> hread hF (paddr mc) = option_map (G.Node_with_Parent (Some a)) (hread h (paddr mc))) /\
      (forall x, x <> a -> x <> b -> x <> ar -> (forall mc, hd_error rcs = Some mc -> x <> paddr mc) -> hread hF x = hread h x) /\
      heap_ok hF)
  end.
  { destruct rcs as [|rc rcs0].
    - cbn [length Z.of_nat Z.eqb negb pbr_pair fst snd]. eexists. split; [reflexivity|]. repeat split.
      + hup. rewrite H2a. now rewrite eptrs_app.
      + hup. exact H2b.
      + hup. reflexivity.
      + intros mc Hmc. discriminate.
      + intros x Hxa Hxb Hxl _. hup. now apply H2o.
      + exact Hok3.
    - cbn [length]. assert (Hz0 : (Z.of_nat (S (length rcs0)) =? 0) = false) by lia. rewrite Hz0. cbn [negb].
      cbn [cptrs map]. rewrite sl_get_0. cbn [hd_error].
      assert (Hrc : rep h (Some ar) rc) by (inversion Hrch; assumption).
      destruct rc as [q qes qcs]. cbn [paddr] in *.
      assert (HN := Hnd). rewrite Ers in HN. nd_facts HN.
      assert (Hqa : q <> a) by nd_auto. assert (Hqb : q <> b) by nd_auto. assert (Hqar : q <> ar) by nd_auto.
      pose proof (rep_deref _ _ _ _ _ Hrc) as Hdq. unfold deref in Hdq.
      assert (T1 : hread h3 q = Some (node_of (Some ar) qes qcs)) by (hup; rewrite H2o by neq; exact Hdq).
      rewrite (store_hset h3 q _ _ T1). hh. rewrite H2a. nsimp.
      match goal with |- context [store ?H (Some a) ?F] =>
        assert (T2 : hread H a = Some (G.mkNode (Some b) (eptrs es ++ [Some sep]) (cptrs cs))) by (hsimp; hup; exact H2a);
        rewrite (store_hset H a _ F T2)
      end. hh.
      match goal with |- context [G.deleteChild ?H _ _ _] => set (h5 := H) end.
      assert (Har5 : hread h5 ar = Some (G.mkNode (Some b) (eptrs res') (Some q :: cptrs rcs0))).
      { unfold h5. hsimp. hup. reflexivity. }
      destruct (deleteChild_spec h5 tr ar _ 0%nat Har5) as (h6 & -> & Hu6); [nsimp; cbn [length]; lia|].
      nsimp. cbn [G.Node_Parent G.Node_Entries G.Node_Children] in Hu6.
      change (remove_at 0 (Some q :: cptrs rcs0)) with (cptrs rcs0) in Hu6.
      rewrite pbr_pair_cons. cbn [fst snd].
      assert (Hok5 : heap_ok h5).
      { unfold h5. apply heap_ok_hset; [apply heap_ok_hset; [exact Hok3|rewrite T1; discriminate]|rewrite T2; discriminate]. }
      eexists. split; [reflexivity|]. repeat split.
      * hup. unfold h5. hsimp. rewrite eptrs_app, cptrs_app. reflexivity.
      * hup. unfold h5. hsimp. hup. exact H2b.
      * hup. reflexivity.
      * intros mc Hmc. injection Hmc as <-. cbn [paddr]. hup. unfold h5. hsimp. now rewrite Hdq.
      * intros x Hxa Hxb Hxl Hxq. specialize (Hxq _ eq_refl). cbn [paddr] in Hxq. hup. unfold h5. hsimp. hup. now apply H2o.
      * eapply hupd_ok; [exact Hu6|exact Hok5|unfold alloced; congruence]. }
  destruct HF as (hF & -> & F1 & F2 & F3 & F4 & F5 & F6). exists hF. split; [reflexivity|].
  assert (F2' : hread hF b = Some (G.mkNode (cparent c) (eptrs (replace_at (length ls) re pes))
                  (cptrs (ls ++ PN a (es ++ [sep]) (snd (pbr_pair rcs cs)) :: PN ar res' (fst (pbr_pair rcs cs)) :: rs')))).
  { rewrite F2, Ers. rewrite !cptrs_app. cbn [cptrs map paddr]. reflexivity. }
  assert (HN := Hnd). rewrite Ers in HN.
  destruct rcs as [|mc rcs0].
  - cbn [pbr_pair fst snd] in *. nd_facts HN.
    assert (Hfr : forall x, x <> a -> x <> b -> x <> ar -> hread hF x = hread h x) by (intros; apply F5; try assumption; intros; discriminate).
    eapply (zrep_rebuild h hF tr b pes ls rs c (PN a es cs)); [exact Hz|exact F6| |exact F2'| | |].
    + intros x Hx. apply Hfr; intro; subst x; contradiction.
    + assert (Hr' : Forall (rep h (Some b)) rs') by (rewrite Ers in Hr; inversion Hr; assumption).
      apply Forall_app. split; [|constructor; [|constructor]].
      * eapply Forall_rep_frame; [|exact Hl]. intros x Hx. apply Hfr; intro; subst x; contradiction.
      * apply rep_unfold. split; [exact F1|]. eapply Forall_rep_frame; [|exact Hch]. intros x Hx. apply Hfr; intro; subst x; contradiction.
      * apply rep_unfold. split; [exact F3|constructor].
      * eapply Forall_rep_frame; [|exact Hr']. intros x Hx. apply Hfr; intro; subst x; contradiction.
    + nd_goal; try nd_auto; try exact I.
    + intros x Hx. rewrite Ers. autorewrite with ndb in Hx |- *. cbn [In] in Hx |- *. rewrite !in_app_iff in *. cbn [In] in *. rewrite ?in_app_iff in *. cbn [In] in *. first [exact Hx | clear - Hx; tauto].
  - rewrite pbr_pair_cons in *. cbn [fst snd] in *.
    specialize (F4 mc eq_refl).
    assert (F5' : forall x, x <> a -> x <> b -> x <> ar -> x <> paddr mc -> hread hF x = hread h x).
    { intros x H1 H2 H3' H4. apply F5; try assumption. intros mc0 Hmc0. injection Hmc0 as <-. exact H4. }
    destruct mc as [q qes qcs]. cbn [paddr] in *. nd_facts HN.
    assert (Hmc : rep h (Some ar) (PN q qes qcs)) by (inversion Hrch; assumption).
    assert (Hrch0 : Forall (rep h (Some ar)) rcs0) by (inversion Hrch; assumption).
    eapply (zrep_rebuild h hF tr b pes ls rs c (PN a es cs)); [exact Hz|exact F6| |exact F2'| | |].
    + intros x Hx. apply F5'; intro; subst x; contradiction.
    + assert (Hr' : Forall (rep h (Some b)) rs') by (rewrite Ers in Hr; inversion Hr; assumption).
      apply Forall_app. split; [|constructor; [|constructor]].
      * eapply Forall_rep_frame; [|exact Hl]. intros x Hx. apply F5'; intro; subst x; contradiction.
      * apply rep_unfold. split; [exact F1|]. apply Forall_app. split.
        -- eapply Forall_rep_frame; [|exact Hch]. intros x Hx. apply F5'; intro; subst x; contradiction.
        -- constructor; [|constructor]. apply (rep_reparent h hF (Some ar)); [nd_goal; nd_auto|exact Hmc|exact F4|].
           cbn [paddr addrs]. intros x [<-|Hx] Hne; [congruence|]. apply F5'; intro; subst x; contradiction.
      * apply rep_unfold. split; [exact F3|]. eapply Forall_rep_frame; [|exact Hrch0]. intros x Hx. apply F5'; intro; subst x; contradiction.
      * eapply Forall_rep_frame; [|exact Hr']. intros x Hx. apply F5'; intro; subst x; contradiction.
    + nd_goal; try nd_auto; try exact I.
    + intros x Hx. rewrite Ers. autorewrite with ndb in Hx |- *. cbn [In] in Hx |- *. rewrite !in_app_iff in *. cbn [In] in *. rewrite ?in_app_iff in *. cbn [In] in *. first [exact Hx | clear - Hx; tauto].
Qed.
End Step.
