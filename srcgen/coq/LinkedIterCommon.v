(* Shared by SinglyLinkedListIterGenProofs.v / DoublyLinkedListIterGenProofs.v: what the representation predicate of
   Proofs/LinkedCellsProofs.v (repr_al: the cells at the addresses al carry the values l, linked forwards -- and
   backwards when dbl) says about single cells, in terms of positions; the relation between a generated iterator
   (index, ADDRESS of the current cell) and the model's linked iterator state of Model/Iter.v (index, POSITION of the
   current cell); facts about the model's ll_next / ll_prev. *)
From Coq Require Import ZArith List Lia Bool Arith.
From Gods Require Import Common.Cmp Common.ListAux Spec.SeqSpec Model.Ops Model.Lists Model.LinkedCells Model.Iter.
From Gods Require Import Proofs.LinkedCellsProofs Proofs.IterLinear.
Import ListNotations.
Local Open Scope Z_scope.

Lemma hd_or_nth : forall al, hd_or al None = nth_error al 0.
Proof. intros [|a al]; reflexivity. Qed.

Lemma last_or_nth : forall al d, last_or al d = match length al with O => d | S k => nth_error al k end.
Proof.
  induction al as [|a al IH]; intros d; [reflexivity|]. cbn [last_or length]. rewrite IH.
  destruct (length al) eqn:E; [destruct al; [reflexivity|discriminate E]|reflexivity].
Qed.

(* the cell at position j *)
Lemma cell_at : forall dbl d al l j a, repr_al dbl d al l -> nth_error al j = Some a ->
  exists c, hread (lheap d) a = Some c /\ nth_error l j = Some (cval c) /\ cnext c = nth_error al (S j) /\
    (dbl = true -> cprev c = match j with O => None | S k => nth_error al k end).
Proof.
  intros dbl d al l j a (Hnd & Hlt & Hch & Hf & Hl & Hs) Ha.
  pose proof (chain_length _ _ _ _ _ _ _ _ Hch) as Hlen.
  destruct (nth_error_split_len _ al _ l j a Hlen Ha) as (a1 & a2 & l1 & v & l2 & -> & -> & H1 & H2).
  destruct (chain_mid_cell _ _ _ _ _ _ _ _ _ _ Hch) as (c & Hc & Hv & Hn & Hp); [lia|].
  exists c. split; [exact Hc|]. split; [rewrite nth_error_app2 by lia; replace (j - length l1)%nat with 0%nat by lia; cbn; now rewrite Hv|].
  split.
  - rewrite Hn, hd_or_nth. rewrite nth_error_app2 by lia. replace (S j - length a1)%nat with 1%nat by lia. reflexivity.
  - intros Hd. rewrite (Hp Hd), last_or_nth. subst j. destruct (length a1) as [|k] eqn:E; [reflexivity|].
    rewrite nth_error_app1 by lia. reflexivity.
Qed.

Lemma repr_al_header : forall dbl d al l, repr_al dbl d al l ->
  lsize d = zlen l /\ length al = length l /\ lfirst d = nth_error al 0 /\
  llast d = match length al with O => None | S k => nth_error al k end.
Proof.
  intros dbl d al l (Hnd & Hlt & Hch & Hf & Hl & Hs).
  split; [exact Hs|]. split; [exact (chain_length _ _ _ _ _ _ _ _ Hch)|]. split; [now rewrite Hf, hd_or_nth|now rewrite Hl, last_or_nth].
Qed.

(* ---------- the generated iterator state against the model's ---------- *)
Definition addr_of (al : list nat) (c : Iter.cell) : option nat := match c with None => None | Some j => nth_error al j end.
Definition cell_valid (al : list nat) (c : Iter.cell) : Prop := match c with None => True | Some j => (j < length al)%nat end.
(* index i and element pointer e of a generated iterator; s = (index, position of the current cell) *)
Definition irel (al : list nat) (l : list Z) (i : Z) (e : option nat) (s : Z * Iter.cell) : Prop :=
  i = fst s /\ -1 <= i <= zlen l /\ cell_valid al (snd s) /\ e = addr_of al (snd s).

(* ---------- the model's steps ---------- *)
Lemma ll_next_true : forall l s s', ll_next l s = Some (s', true) -> fst s' = fst s + 1 /\ 0 <= fst s' < zlen l.
Proof.
  intros l [i e] [i' e'] H. unfold ll_next in H. cbn [fst].
  set (j := if i <? ln l then i + 1 else i) in *.
  destruct (within j l) eqn:W; cbn [negb] in H; [|discriminate H].
  assert (Hj : 0 <= j < zlen l) by (unfold within in W; lia).
  assert (j = i + 1) by (unfold j, ln in *; destruct (i <? zlen l) eqn:E; lia).
  destruct (j =? 0); [injection H as <- _; lia|]. destruct e; [injection H as <- _; lia|discriminate H].
Qed.

Lemma ll_prev_true : forall l s s', ll_prev l s = Some (s', true) -> fst s' = fst s - 1 /\ 0 <= fst s' < zlen l.
Proof.
  intros l [i e] [i' e'] H. unfold ll_prev in H. cbn [fst].
  set (j := if 0 <=? i then i - 1 else i) in *.
  destruct (within j l) eqn:W; cbn [negb] in H; [|discriminate H].
  assert (Hj : 0 <= j < zlen l) by (unfold within in W; lia).
  assert (j = i - 1) by (unfold j in *; destruct (0 <=? i) eqn:E; lia).
  destruct (j =? ln l - 1); [injection H as <- _; lia|]. destruct e; [injection H as <- _; lia|discriminate H].
Qed.
