(* The fix-up of Remove in TREE POINTER MODE: the GENERATED deleteCase1..6 of trees/redblacktree/redblacktree.go (mutual recursion
   on fuel; sibling / nodeColor through the Parent pointers; recolouring; the rotations) on a represented tree are the path
   function [dfix] of RedBlackTreeHeapRemoveModel.v: every step an in-place update (same addresses, nothing outside the tree
   written, no allocation).  See [deleteCase1_dfix]. *)
From Coq Require Import ZArith List Lia Bool Arith Permutation.
From Gods Require Import Common.Cmp Model.RBTree Proofs.RBInv.
From GodsGenProofs Require Import GoCmp GoTreeHeap RBTreeHeapRep RedBlackTreeHeapInsertModel RedBlackTreeHeapRotProofs
  RedBlackTreeHeapInsertProofs RedBlackTreeHeapRemoveModel.
From GodsGen Require RedBlackTreeHeapGen.
Import ListNotations.
Local Open Scope Z_scope.

(* one unfolding of the mutually recursive generated functions (text of the generated file; cbn leaves the inner calls as
   anonymous fixpoints) *)
Lemma deleteCase1_S : forall (fuel' : nat) (h : heap G.Node) (v_tree : G.Tree) (v_node : option nat), G.deleteCase1 (S fuel') h v_tree v_node =
(do c1 <- deref h v_node;
if (is_nil (G.Node_Parent c1))
then (Some (h, v_tree))
else (do (h, v_tree) <- G.deleteCase2 fuel' h v_tree v_node;
Some (h, v_tree))).
Proof. reflexivity. Qed.

Lemma deleteCase2_S : forall (fuel' : nat) (h : heap G.Node) (v_tree : G.Tree) (v_node : option nat), G.deleteCase2 (S fuel') h v_tree v_node =
(do r1 <- G.sibling h v_node;
let v_sibling := r1 in
do r2 <- G.nodeColor h v_sibling;
do (h, v_tree) <- (if (Bool.eqb r2 G.red)
  then (do c3 <- deref h v_node;
do h <- store h (G.Node_Parent c3) (G.Node_with_color G.red);
do h <- store h v_sibling (G.Node_with_color G.black);
do c4 <- deref h v_node;
do c5 <- deref h (G.Node_Parent c4);
do (h, v_tree) <- (if (ptr_eqb v_node (G.Node_Left c5))
  then (do c6 <- deref h v_node;
do (h, v_tree) <- G.rotateLeft h v_tree (G.Node_Parent c6);
Some (h, v_tree))
  else (do c7 <- deref h v_node;
do (h, v_tree) <- G.rotateRight h v_tree (G.Node_Parent c7);
Some (h, v_tree)));
Some (h, v_tree))
  else (Some (h, v_tree)));
do (h, v_tree) <- G.deleteCase3 fuel' h v_tree v_node;
Some (h, v_tree)).
Proof. reflexivity. Qed.

Lemma deleteCase3_S : forall (fuel' : nat) (h : heap G.Node) (v_tree : G.Tree) (v_node : option nat), G.deleteCase3 (S fuel') h v_tree v_node =
(do r1 <- G.sibling h v_node;
let v_sibling := r1 in
do c2 <- deref h v_node;
do r3 <- G.nodeColor h (G.Node_Parent c2);
do r5 <- (if (Bool.eqb r3 G.black) then (do r4 <- G.nodeColor h v_sibling;
Some (Bool.eqb r4 G.black)) else Some false);
do r8 <- (if r5 then (do c6 <- deref h v_sibling;
do r7 <- G.nodeColor h (G.Node_Left c6);
Some (Bool.eqb r7 G.black)) else Some false);
do r11 <- (if r8 then (do c9 <- deref h v_sibling;
do r10 <- G.nodeColor h (G.Node_Right c9);
Some (Bool.eqb r10 G.black)) else Some false);
do (h, v_tree) <- (if r11
  then (do h <- store h v_sibling (G.Node_with_color G.red);
do c12 <- deref h v_node;
do (h, v_tree) <- G.deleteCase1 fuel' h v_tree (G.Node_Parent c12);
Some (h, v_tree))
  else (do (h, v_tree) <- G.deleteCase4 h v_tree v_node;
Some (h, v_tree)));
Some (h, v_tree)).
Proof. reflexivity. Qed.

(* ---------- reading around the deficient node ---------- *)
Lemma ptr_eqb_some_neq : forall a b : nat, a <> b -> ptr_eqb (Some a) (Some b) = false.
Proof. intros a b H. apply ptr_eqb_neq. congruence. Qed.

Ltac dsim := repeat first
  [ progress cbv beta iota
  | match goal with |- context [deref ?h (Some ?a)] => change (deref h (Some a)) with (hread h a) end
  | match goal with H : hread ?h ?a = Some _ |- context [hread ?h ?a] => rewrite H end
  | match goal with H : ptr_eqb ?p ?q = _ |- context [ptr_eqb ?p ?q] => rewrite H end
  | match goal with H : G.nodeColor ?h ?p = _ |- context [G.nodeColor ?h ?p] => rewrite H end
  | match goal with H : G.sibling ?h ?p = _ |- context [G.sibling ?h ?p] => rewrite H end
  | match goal with H : ?a <> ?b |- context [ptr_eqb (Some ?a) (Some ?b)] => rewrite (ptr_eqb_some_neq a b H) end
  | match goal with H : ?b <> ?a |- context [ptr_eqb (Some ?a) (Some ?b)] => rewrite (ptr_eqb_some_neq a b (not_eq_sym H)) end
  | rewrite ptr_eqb_refl
  | progress cbn [node_of root_ptr G.Node_Parent G.Node_Left G.Node_Right G.Node_Key G.Node_Value G.Node_color is_nil negb andb orb] ].

Lemma eqb_colb_black : forall c, Bool.eqb (colb c) G.black = match c with RB.Black => true | RB.Red => false end.
Proof. destruct c; reflexivity. Qed.
Lemma eqb_colb_red : forall c, Bool.eqb (colb c) G.red = match c with RB.Black => false | RB.Red => true end.
Proof. destruct c; reflexivity. Qed.
Lemma pis_red_col : forall t, pis_red t = match pcol t with RB.Red => true | RB.Black => false end.
Proof. reflexivity. Qed.

(* the sibling of the child on side d *)
Lemma sibling_of : forall h PP p pc pl pk pv pr d n nc nl nk nv nr,
  rep h PP (PT p pc pl pk pv pr) -> NoDup (addrs (PT p pc pl pk pv pr)) -> pchild d pl pr = PT n nc nl nk nv nr ->
  G.sibling h (Some n) = Some (root_ptr (pchild (opp d) pl pr)) /\
  hread h p = Some (node_of PP pc pl pk pv pr) /\ hread h n = Some (node_of (Some p) nc nl nk nv nr) /\ n <> p.
Proof.
  intros h PP p pc pl pk pv pr d n nc nl nk nv nr Hrep Hnd Hn.
  pose proof Hrep as Hr. simpl in Hr. destruct Hr as (Hp & Hl & Hr).
  assert (Hnp : n <> p).
  { destruct (ptr_neq_root _ _ _ _ _ _ n Hnd) as (A & B). destruct d; cbn [pchild] in Hn; subst; [apply A|apply B]; reflexivity. }
  assert (Hn' : hread h n = Some (node_of (Some p) nc nl nk nv nr)).
  { destruct d; cbn [pchild] in Hn; subst; [simpl in Hl|simpl in Hr]; tauto. }
  fold (node_of PP pc pl pk pv pr) in Hp.
  split; [|split; [exact Hp|split; [exact Hn'|exact Hnp]]].
  unfold G.sibling. destruct d; cbn [pchild opp] in *; subst.
  - dsim. reflexivity.
  - assert (E : ptr_eqb (Some n) (root_ptr pl) = false) by (eapply sib_r; [exact Hnd|reflexivity]). dsim. reflexivity.
Qed.

Ltac facts H := simpl in H; decompose [and] H; clear H.

(* ---------- deleteCase6 ---------- *)
Lemma deleteCase6_L : forall h tr T Q p pc n nc nl nk nv nr pk pv s sc sl sk sv sr P',
  tree_inv h tr (pupd T Q (PT p pc (PT n nc nl nk nv nr) pk pv (PT s sc sl sk sv sr))) -> pvalid T Q ->
  (if pis_red sr then Some (PT s pc (PT p RB.Black (PT n nc nl nk nv nr) pk pv sl) sk sv (psetcol RB.Black sr))
   else if pis_red sl then None
   else Some (PT p RB.Black (PT n nc nl nk nv nr) pk pv (PT s pc sl sk sv sr))) = Some P' ->
  exists h' tr', G.deleteCase6 h tr (Some n) = Some (h', tr') /\
    upd_ok h tr (pupd T Q (PT p pc (PT n nc nl nk nv nr) pk pv (PT s sc sl sk sv sr))) h' tr' (pupd T Q P').
Proof.
  intros h tr T Q p pc n nc nl nk nv nr pk pv s sc sl sk sv sr P' Hinv Hv HP.
  destruct (inv_sub _ _ _ _ _ Hinv Hv ltac:(discriminate)) as (Hrep & Hnd).
  destruct (sibling_of _ _ _ _ _ _ _ _ RB.L _ _ _ _ _ _ Hrep Hnd eq_refl) as (Hsib & Hp & Hn & Hnp). cbn [opp pchild root_ptr] in Hsib.
  pose proof (nodeColor_rep _ _ _ Hrep) as Hcp. cbn [root_ptr pcol] in Hcp.
  unfold G.deleteCase6. dsim.
  (* sibling.color = nodeColor(parent) *)
  destruct (recolor_at h tr _ (Q ++ [RB.R]) s sc sl sk sv sr pc Hinv ltac:(rewrite pget_sub by exact Hv; reflexivity)) as (h1 & Hs1 & U1).
  rewrite Hs1. rewrite pupd_sub in U1 by exact Hv. cbn [pupd] in U1.
  destruct (inv_sub _ _ _ _ _ (proj1 U1) Hv ltac:(discriminate)) as (Hrep1 & _). facts Hrep1. dsim.
  (* parent.color = black *)
  destruct (recolor_at h1 tr _ Q p pc _ pk pv _ RB.Black (proj1 U1) ltac:(rewrite pget_pupd_valid by exact Hv; reflexivity)) as (h2 & Hs2 & U2).
  change (colb RB.Black) with G.black in Hs2. rewrite Hs2. rewrite pupd_pupd in U2.
  destruct (inv_sub _ _ _ _ _ (proj1 U2) Hv ltac:(discriminate)) as (Hrep2 & Hnd2).
  pose proof Hrep2 as Hrep2'. facts Hrep2'. dsim.
  match goal with H : rep h2 (Some s) sr |- _ => rewrite (nodeColor_rep _ _ _ H) end.
  rewrite eqb_colb_red. rewrite pis_red_col in HP.
  destruct (pcol sr) eqn:Esr.
  - (* sibling.Right is red: it becomes black, rotateLeft(parent) *)
    injection HP as <-. destruct sr as [|y yc yl yk yv yr]; [discriminate|]. cbn [pcol] in Esr. subst yc. dsim.
    destruct (recolor_at h2 tr _ (Q ++ [RB.R; RB.R]) y RB.Red yl yk yv yr RB.Black (proj1 U2) ltac:(rewrite pget_sub by exact Hv; reflexivity)) as (h3 & Hs3 & U3).
    change (colb RB.Black) with G.black in Hs3. rewrite Hs3. rewrite pupd_sub in U3 by exact Hv. cbn [pupd] in U3.
    destruct (inv_sub _ _ _ _ _ (proj1 U3) Hv ltac:(discriminate)) as (Hrep3 & _). facts Hrep3. dsim.
    destruct (rotateLeft_at h3 tr _ Q p RB.Black _ pk pv s pc sl sk sv _ (proj1 U3) ltac:(rewrite pget_pupd_valid by exact Hv; reflexivity)) as (h4 & tr4 & Hrun & U4).
    rewrite Hrun. rewrite pupd_pupd in U4. exists h4, tr4. split; [reflexivity|].
    eapply upd_ok_trans; [exact U1|]. eapply upd_ok_trans; [exact U2|]. eapply upd_ok_trans; [exact U3|exact U4].
  - (* sibling.Right is black *)
    match goal with H : rep h2 (Some s) sl |- _ => rewrite (nodeColor_rep _ _ _ H) end.
    rewrite eqb_colb_red. rewrite pis_red_col in HP. destruct (pcol sl); [discriminate|]. injection HP as <-.
    exists h2, tr. split; [reflexivity|]. eapply upd_ok_trans; [exact U1|exact U2].
Qed.

Lemma deleteCase6_R : forall h tr T Q p pc n nc nl nk nv nr pk pv s sc sl sk sv sr P',
  tree_inv h tr (pupd T Q (PT p pc (PT s sc sl sk sv sr) pk pv (PT n nc nl nk nv nr))) -> pvalid T Q ->
  (if pis_red sl then Some (PT s pc (psetcol RB.Black sl) sk sv (PT p RB.Black sr pk pv (PT n nc nl nk nv nr)))
   else Some (PT p RB.Black (PT s pc sl sk sv sr) pk pv (PT n nc nl nk nv nr))) = Some P' ->
  exists h' tr', G.deleteCase6 h tr (Some n) = Some (h', tr') /\
    upd_ok h tr (pupd T Q (PT p pc (PT s sc sl sk sv sr) pk pv (PT n nc nl nk nv nr))) h' tr' (pupd T Q P').
Proof.
  intros h tr T Q p pc n nc nl nk nv nr pk pv s sc sl sk sv sr P' Hinv Hv HP.
  destruct (inv_sub _ _ _ _ _ Hinv Hv ltac:(discriminate)) as (Hrep & Hnd).
  destruct (sibling_of _ _ _ _ _ _ _ _ RB.R _ _ _ _ _ _ Hrep Hnd eq_refl) as (Hsib & Hp & Hn & Hnp). cbn [opp pchild root_ptr] in Hsib.
  assert (Ens : ptr_eqb (Some n) (Some s) = false) by (apply (sib_r _ _ _ _ _ _ n Hnd); reflexivity).
  pose proof (nodeColor_rep _ _ _ Hrep) as Hcp. cbn [root_ptr pcol] in Hcp.
  unfold G.deleteCase6. dsim.
  destruct (recolor_at h tr _ (Q ++ [RB.L]) s sc sl sk sv sr pc Hinv ltac:(rewrite pget_sub by exact Hv; reflexivity)) as (h1 & Hs1 & U1).
  rewrite Hs1. rewrite pupd_sub in U1 by exact Hv. cbn [pupd] in U1.
  destruct (inv_sub _ _ _ _ _ (proj1 U1) Hv ltac:(discriminate)) as (Hrep1 & _). facts Hrep1. dsim.
  destruct (recolor_at h1 tr _ Q p pc _ pk pv _ RB.Black (proj1 U1) ltac:(rewrite pget_pupd_valid by exact Hv; reflexivity)) as (h2 & Hs2 & U2).
  change (colb RB.Black) with G.black in Hs2. rewrite Hs2. rewrite pupd_pupd in U2.
  destruct (inv_sub _ _ _ _ _ (proj1 U2) Hv ltac:(discriminate)) as (Hrep2 & Hnd2).
  pose proof Hrep2 as Hrep2'. facts Hrep2'. dsim.
  match goal with H : rep h2 (Some s) sl |- _ => rewrite (nodeColor_rep _ _ _ H) end.
  rewrite eqb_colb_red. rewrite pis_red_col in HP.
  destruct (pcol sl) eqn:Esl.
  - injection HP as <-. destruct sl as [|y yc yl yk yv yr]; [discriminate|]. cbn [pcol] in Esl. subst yc. dsim.
    destruct (recolor_at h2 tr _ (Q ++ [RB.L; RB.L]) y RB.Red yl yk yv yr RB.Black (proj1 U2) ltac:(rewrite pget_sub by exact Hv; reflexivity)) as (h3 & Hs3 & U3).
    change (colb RB.Black) with G.black in Hs3. rewrite Hs3. rewrite pupd_sub in U3 by exact Hv. cbn [pupd] in U3.
    destruct (inv_sub _ _ _ _ _ (proj1 U3) Hv ltac:(discriminate)) as (Hrep3 & _). facts Hrep3. dsim.
    destruct (rotateRight_at h3 tr _ Q p RB.Black pk pv _ s pc _ sk sv sr (proj1 U3) ltac:(rewrite pget_pupd_valid by exact Hv; reflexivity)) as (h4 & tr4 & Hrun & U4).
    rewrite Hrun. rewrite pupd_pupd in U4. exists h4, tr4. split; [reflexivity|].
    eapply upd_ok_trans; [exact U1|]. eapply upd_ok_trans; [exact U2|]. eapply upd_ok_trans; [exact U3|exact U4].
  - injection HP as <-. exists h2, tr. split; [reflexivity|]. eapply upd_ok_trans; [exact U1|exact U2].
Qed.

Ltac csim := repeat first [ rewrite eqb_colb_red | rewrite eqb_colb_black | progress dsim ].

(* ---------- deleteCase5 ---------- *)
Lemma deleteCase5_L : forall h tr T Q p pc n nc nl nk nv nr pk pv s sc sl sk sv sr S',
  tree_inv h tr (pupd T Q (PT p pc (PT n nc nl nk nv nr) pk pv (PT s sc sl sk sv sr))) -> pvalid T Q ->
  pcase5_L s sc sl sk sv sr = Some S' ->
  exists h1 tr1, upd_ok h tr (pupd T Q (PT p pc (PT n nc nl nk nv nr) pk pv (PT s sc sl sk sv sr))) h1 tr1
                        (pupd T Q (PT p pc (PT n nc nl nk nv nr) pk pv S')) /\
    G.deleteCase5 h tr (Some n) = G.deleteCase6 h1 tr1 (Some n).
Proof.
  intros h tr T Q p pc n nc nl nk nv nr pk pv s sc sl sk sv sr S' Hinv Hv HS.
  destruct (inv_sub _ _ _ _ _ Hinv Hv ltac:(discriminate)) as (Hrep & Hnd).
  destruct (sibling_of _ _ _ _ _ _ _ _ RB.L _ _ _ _ _ _ Hrep Hnd eq_refl) as (Hsib & Hp & Hn & Hnp). cbn [opp pchild root_ptr] in Hsib.
  assert (Ens : ptr_eqb (Some n) (Some s) = false) by (apply (sib_l _ _ _ _ _ _ n Hnd); reflexivity).
  pose proof Hrep as Hrep'. simpl in Hrep'. destruct Hrep' as (_ & _ & (Hs & Hrsl & Hrsr)).
  pose proof (nodeColor_rep _ _ _ Hrsl) as Hcsl. pose proof (nodeColor_rep _ _ _ Hrsr) as Hcsr.
  assert (Hcs : G.nodeColor h (Some s) = Some (colb sc)) by (unfold G.nodeColor; dsim; reflexivity).
  unfold G.deleteCase5, pcase5_L in *. csim.
  destruct sc; [|destruct (pcol sl) eqn:Esl; [destruct (pcol sr) eqn:Esr|]]; csim;
    try (injection HS as <-; exists h, tr; split; [apply upd_ok_refl; exact Hinv|rewrite bind_eta; reflexivity]).
  (* sibling black, sibling.Left red, sibling.Right black: rotateRight(sibling) *)
  destruct sl as [|x xc a xk xv b]; [discriminate|]. cbn [pcol] in Esl. subst xc. injection HS as <-.
  destruct (recolor_at h tr _ (Q ++ [RB.R]) s RB.Black _ sk sv sr RB.Red Hinv ltac:(rewrite pget_sub by exact Hv; reflexivity)) as (h1 & Hs1 & U1).
  change (colb RB.Red) with G.red in Hs1. rewrite Hs1. rewrite pupd_sub in U1 by exact Hv. cbn [pupd] in U1.
  destruct (inv_sub _ _ _ _ _ (proj1 U1) Hv ltac:(discriminate)) as (Hrep1 & _). facts Hrep1. csim.
  destruct (recolor_at h1 tr _ (Q ++ [RB.R; RB.L]) x RB.Red a xk xv b RB.Black (proj1 U1) ltac:(rewrite pget_sub by exact Hv; reflexivity)) as (h2 & Hs2 & U2).
  change (colb RB.Black) with G.black in Hs2. rewrite Hs2. rewrite pupd_sub in U2 by exact Hv. cbn [pupd] in U2.
  destruct (rotateRight_at h2 tr _ (Q ++ [RB.R]) s RB.Red sk sv sr x RB.Black a xk xv b (proj1 U2) ltac:(rewrite pget_sub by exact Hv; reflexivity)) as (h3 & tr3 & Hrun & U3).
  rewrite Hrun. rewrite pupd_sub in U3 by exact Hv. cbn [pupd] in U3.
  exists h3, tr3. split; [|rewrite bind_eta; reflexivity].
  eapply upd_ok_trans; [exact U1|]. eapply upd_ok_trans; [exact U2|exact U3].
Qed.

Lemma deleteCase5_R : forall h tr T Q p pc n nc nl nk nv nr pk pv s sc sl sk sv sr S',
  tree_inv h tr (pupd T Q (PT p pc (PT s sc sl sk sv sr) pk pv (PT n nc nl nk nv nr))) -> pvalid T Q ->
  pcase5_R s sc sl sk sv sr = Some S' ->
  exists h1 tr1, upd_ok h tr (pupd T Q (PT p pc (PT s sc sl sk sv sr) pk pv (PT n nc nl nk nv nr))) h1 tr1
                        (pupd T Q (PT p pc S' pk pv (PT n nc nl nk nv nr))) /\
    G.deleteCase5 h tr (Some n) = G.deleteCase6 h1 tr1 (Some n).
Proof.
  intros h tr T Q p pc n nc nl nk nv nr pk pv s sc sl sk sv sr S' Hinv Hv HS.
  destruct (inv_sub _ _ _ _ _ Hinv Hv ltac:(discriminate)) as (Hrep & Hnd).
  destruct (sibling_of _ _ _ _ _ _ _ _ RB.R _ _ _ _ _ _ Hrep Hnd eq_refl) as (Hsib & Hp & Hn & Hnp). cbn [opp pchild root_ptr] in Hsib.
  assert (Ens : ptr_eqb (Some n) (Some s) = false) by (apply (sib_r _ _ _ _ _ _ n Hnd); reflexivity).
  pose proof Hrep as Hrep'. simpl in Hrep'. destruct Hrep' as (_ & (Hs & Hrsl & Hrsr) & _).
  pose proof (nodeColor_rep _ _ _ Hrsl) as Hcsl. pose proof (nodeColor_rep _ _ _ Hrsr) as Hcsr.
  assert (Hcs : G.nodeColor h (Some s) = Some (colb sc)) by (unfold G.nodeColor; dsim; reflexivity).
  unfold G.deleteCase5, pcase5_R in *. csim.
  destruct sc; [|destruct (pcol sr) eqn:Esr; [destruct (pcol sl) eqn:Esl|]]; csim;
    try (injection HS as <-; exists h, tr; split; [apply upd_ok_refl; exact Hinv|rewrite bind_eta; reflexivity]).
  destruct sr as [|x xc a xk xv b]; [discriminate|]. cbn [pcol] in Esr. subst xc. injection HS as <-.
  destruct (recolor_at h tr _ (Q ++ [RB.L]) s RB.Black sl sk sv _ RB.Red Hinv ltac:(rewrite pget_sub by exact Hv; reflexivity)) as (h1 & Hs1 & U1).
  change (colb RB.Red) with G.red in Hs1. rewrite Hs1. rewrite pupd_sub in U1 by exact Hv. cbn [pupd] in U1.
  destruct (inv_sub _ _ _ _ _ (proj1 U1) Hv ltac:(discriminate)) as (Hrep1 & _). facts Hrep1. csim.
  destruct (recolor_at h1 tr _ (Q ++ [RB.L; RB.R]) x RB.Red a xk xv b RB.Black (proj1 U1) ltac:(rewrite pget_sub by exact Hv; reflexivity)) as (h2 & Hs2 & U2).
  change (colb RB.Black) with G.black in Hs2. rewrite Hs2. rewrite pupd_sub in U2 by exact Hv. cbn [pupd] in U2.
  destruct (rotateLeft_at h2 tr _ (Q ++ [RB.L]) s RB.Red sl sk sv x RB.Black a xk xv b (proj1 U2) ltac:(rewrite pget_sub by exact Hv; reflexivity)) as (h3 & tr3 & Hrun & U3).
  rewrite Hrun. rewrite pupd_sub in U3 by exact Hv. cbn [pupd] in U3.
  exists h3, tr3. split; [|rewrite bind_eta; reflexivity].
  eapply upd_ok_trans; [exact U1|]. eapply upd_ok_trans; [exact U2|exact U3].
Qed.

(* ---------- deleteCase3 .. deleteCase6 at a parent whose LEFT child is deficient ---------- *)
Lemma d3456_L_step : forall h tr T Q p pc n nc nl nk nv nr pk pv S F st pos f,
  tree_inv h tr (pupd T Q (PT p pc (PT n nc nl nk nv nr) pk pv S)) -> pvalid T Q ->
  pd3456_L p pc pk pv S = Some (F, st, pos) ->
  exists h' tr', upd_ok h tr (pupd T Q (PT p pc (PT n nc nl nk nv nr) pk pv S)) h' tr' (pupd T Q (F (PT n nc nl nk nv nr))) /\
    G.deleteCase3 (Datatypes.S f) h tr (Some n) =
      match st with RB.DDeficit => G.deleteCase1 f h' tr' (Some p) | RB.DDone => Some (h', tr') end.
Proof.
  intros h tr T Q p pc n nc nl nk nv nr pk pv S F st pos f Hinv Hv HF.
  destruct S as [|s sc sl sk sv sr]; [discriminate|].
  destruct (inv_sub _ _ _ _ _ Hinv Hv ltac:(discriminate)) as (Hrep & Hnd).
  destruct (sibling_of _ _ _ _ _ _ _ _ RB.L _ _ _ _ _ _ Hrep Hnd eq_refl) as (Hsib & Hp & Hn & Hnp). cbn [opp pchild root_ptr] in Hsib.
  pose proof Hrep as Hrep'. simpl in Hrep'. destruct Hrep' as (_ & _ & (Hs & Hrsl & Hrsr)).
  pose proof (nodeColor_rep _ _ _ Hrsl) as Hcsl. pose proof (nodeColor_rep _ _ _ Hrsr) as Hcsr.
  assert (Hcs : G.nodeColor h (Some s) = Some (colb sc)) by (unfold G.nodeColor; dsim; reflexivity).
  pose proof (nodeColor_rep _ _ _ Hrep) as Hcp. cbn [root_ptr pcol] in Hcp.
  rewrite deleteCase3_S. unfold G.deleteCase4. unfold pd3456_L in HF. revert HF.
  destruct pc; destruct sc; destruct (pcol sl) eqn:Esl; destruct (pcol sr) eqn:Esr; intro HF; csim;
    try (destruct (pcase5_L s _ sl sk sv sr) as [[|s' c' sl' sk' sv' sr']|] eqn:E5; try discriminate;
         match type of E5 with pcase5_L _ ?c _ _ _ _ = _ =>
           destruct (deleteCase5_L h tr T Q p _ n nc nl nk nv nr pk pv s c sl sk sv sr _ Hinv Hv E5) as (h1 & tr1 & U1 & Hrun1) end;
         rewrite Hrun1;
         match type of HF with (if pis_red sr' then Some (?F1, _, _) else if pis_red sl' then None else Some (?F3, _, _)) = _ =>
           assert (HP : exists P', (if pis_red sr' then Some (F1 (PT n nc nl nk nv nr)) else if pis_red sl' then None else Some (F3 (PT n nc nl nk nv nr))) = Some P'
                                   /\ F (PT n nc nl nk nv nr) = P' /\ st = RB.DDone)
             by (destruct (pis_red sr'); [|destruct (pis_red sl'); [discriminate|]]; injection HF as <- <- <-; eauto) end;
         destruct HP as (P' & HP & -> & ->);
         destruct (deleteCase6_L h1 tr1 T Q p _ n nc nl nk nv nr pk pv s' c' sl' sk' sv' sr' P' (proj1 U1) Hv HP) as (h2 & tr2 & Hrun2 & U2);
         rewrite Hrun2; exists h2, tr2; split; [eapply upd_ok_trans; [exact U1|exact U2]|reflexivity]).
  - (* deleteCase4: red parent, black sibling with black children *)
    injection HF as <- <- <-.
    destruct (recolor_at h tr _ (Q ++ [RB.R]) s RB.Black sl sk sv sr RB.Red Hinv ltac:(rewrite pget_sub by exact Hv; reflexivity)) as (h1 & Hs1 & U1).
    change (colb RB.Red) with G.red in Hs1. rewrite Hs1. rewrite pupd_sub in U1 by exact Hv. cbn [pupd] in U1.
    destruct (inv_sub _ _ _ _ _ (proj1 U1) Hv ltac:(discriminate)) as (Hrep1 & _). facts Hrep1. csim.
    destruct (recolor_at h1 tr _ Q p RB.Red _ pk pv _ RB.Black (proj1 U1) ltac:(rewrite pget_pupd_valid by exact Hv; reflexivity)) as (h2 & Hs2 & U2).
    change (colb RB.Black) with G.black in Hs2. rewrite Hs2. rewrite pupd_pupd in U2.
    exists h2, tr. split; [eapply upd_ok_trans; [exact U1|exact U2]|reflexivity].
  - (* deleteCase3: everything black: the sibling becomes red, go on at the parent *)
    injection HF as <- <- <-.
    destruct (recolor_at h tr _ (Q ++ [RB.R]) s RB.Black sl sk sv sr RB.Red Hinv ltac:(rewrite pget_sub by exact Hv; reflexivity)) as (h1 & Hs1 & U1).
    change (colb RB.Red) with G.red in Hs1. rewrite Hs1. rewrite pupd_sub in U1 by exact Hv. cbn [pupd] in U1.
    destruct (inv_sub _ _ _ _ _ (proj1 U1) Hv ltac:(discriminate)) as (Hrep1 & _). facts Hrep1. csim.
    exists h1, tr. split; [exact U1|rewrite !bind_eta; reflexivity].
Qed.

Lemma d3456_R_step : forall h tr T Q p pc n nc nl nk nv nr pk pv S F st pos f,
  tree_inv h tr (pupd T Q (PT p pc S pk pv (PT n nc nl nk nv nr))) -> pvalid T Q ->
  pd3456_R p pc pk pv S = Some (F, st, pos) ->
  exists h' tr', upd_ok h tr (pupd T Q (PT p pc S pk pv (PT n nc nl nk nv nr))) h' tr' (pupd T Q (F (PT n nc nl nk nv nr))) /\
    G.deleteCase3 (Datatypes.S f) h tr (Some n) =
      match st with RB.DDeficit => G.deleteCase1 f h' tr' (Some p) | RB.DDone => Some (h', tr') end.
Proof.
  intros h tr T Q p pc n nc nl nk nv nr pk pv S F st pos f Hinv Hv HF.
  destruct S as [|s sc sl sk sv sr]; [discriminate|].
  destruct (inv_sub _ _ _ _ _ Hinv Hv ltac:(discriminate)) as (Hrep & Hnd).
  destruct (sibling_of _ _ _ _ _ _ _ _ RB.R _ _ _ _ _ _ Hrep Hnd eq_refl) as (Hsib & Hp & Hn & Hnp). cbn [opp pchild root_ptr] in Hsib.
  pose proof Hrep as Hrep'. simpl in Hrep'. destruct Hrep' as (_ & (Hs & Hrsl & Hrsr) & _).
  pose proof (nodeColor_rep _ _ _ Hrsl) as Hcsl. pose proof (nodeColor_rep _ _ _ Hrsr) as Hcsr.
  assert (Hcs : G.nodeColor h (Some s) = Some (colb sc)) by (unfold G.nodeColor; dsim; reflexivity).
  pose proof (nodeColor_rep _ _ _ Hrep) as Hcp. cbn [root_ptr pcol] in Hcp.
  rewrite deleteCase3_S. unfold G.deleteCase4. unfold pd3456_R in HF. revert HF.
  destruct pc; destruct sc; destruct (pcol sl) eqn:Esl; destruct (pcol sr) eqn:Esr; intro HF; csim;
    try (destruct (pcase5_R s _ sl sk sv sr) as [[|s' c' sl' sk' sv' sr']|] eqn:E5; try discriminate;
         match type of E5 with pcase5_R _ ?c _ _ _ _ = _ =>
           destruct (deleteCase5_R h tr T Q p _ n nc nl nk nv nr pk pv s c sl sk sv sr _ Hinv Hv E5) as (h1 & tr1 & U1 & Hrun1) end;
         rewrite Hrun1;
         match type of HF with (if pis_red sl' then Some (?F1, _, _) else Some (?F3, _, _)) = _ =>
           assert (HP : exists P', (if pis_red sl' then Some (F1 (PT n nc nl nk nv nr)) else Some (F3 (PT n nc nl nk nv nr))) = Some P'
                                   /\ F (PT n nc nl nk nv nr) = P' /\ st = RB.DDone)
             by (destruct (pis_red sl'); injection HF as <- <- <-; eauto) end;
         destruct HP as (P' & HP & -> & ->);
         destruct (deleteCase6_R h1 tr1 T Q p _ n nc nl nk nv nr pk pv s' c' sl' sk' sv' sr' P' (proj1 U1) Hv HP) as (h2 & tr2 & Hrun2 & U2);
         rewrite Hrun2; exists h2, tr2; split; [eapply upd_ok_trans; [exact U1|exact U2]|reflexivity]).
  - injection HF as <- <- <-.
    destruct (recolor_at h tr _ (Q ++ [RB.L]) s RB.Black sl sk sv sr RB.Red Hinv ltac:(rewrite pget_sub by exact Hv; reflexivity)) as (h1 & Hs1 & U1).
    change (colb RB.Red) with G.red in Hs1. rewrite Hs1. rewrite pupd_sub in U1 by exact Hv. cbn [pupd] in U1.
    destruct (inv_sub _ _ _ _ _ (proj1 U1) Hv ltac:(discriminate)) as (Hrep1 & _). facts Hrep1. csim.
    destruct (recolor_at h1 tr _ Q p RB.Red _ pk pv _ RB.Black (proj1 U1) ltac:(rewrite pget_pupd_valid by exact Hv; reflexivity)) as (h2 & Hs2 & U2).
    change (colb RB.Black) with G.black in Hs2. rewrite Hs2. rewrite pupd_pupd in U2.
    exists h2, tr. split; [eapply upd_ok_trans; [exact U1|exact U2]|reflexivity].
  - injection HF as <- <- <-.
    destruct (recolor_at h tr _ (Q ++ [RB.L]) s RB.Black sl sk sv sr RB.Red Hinv ltac:(rewrite pget_sub by exact Hv; reflexivity)) as (h1 & Hs1 & U1).
    change (colb RB.Red) with G.red in Hs1. rewrite Hs1. rewrite pupd_sub in U1 by exact Hv. cbn [pupd] in U1.
    destruct (inv_sub _ _ _ _ _ (proj1 U1) Hv ltac:(discriminate)) as (Hrep1 & _). facts Hrep1. csim.
    exists h1, tr. split; [exact U1|rewrite !bind_eta; reflexivity].
Qed.

(* ---------- deleteCase2 (then 3..6): one level of the fix-up ---------- *)
Lemma deleteCase2_step : forall h tr T Q p pc pl pk pv pr d n nc nl nk nv nr F st pos f,
  tree_inv h tr (pupd T Q (PT p pc pl pk pv pr)) -> pvalid T Q -> pchild d pl pr = PT n nc nl nk nv nr ->
  pdfix d p pc pk pv (pchild (opp d) pl pr) = Some (F, st, pos) ->
  exists h' tr', upd_ok h tr (pupd T Q (PT p pc pl pk pv pr)) h' tr' (pupd T Q (F (PT n nc nl nk nv nr))) /\
    G.deleteCase2 (S (S f)) h tr (Some n) =
      match st with RB.DDeficit => G.deleteCase1 f h' tr' (Some p) | RB.DDone => Some (h', tr') end.
Proof.
  intros h tr T Q p pc pl pk pv pr d n nc nl nk nv nr F st pos f Hinv Hv HN HF.
  destruct (inv_sub _ _ _ _ _ Hinv Hv ltac:(discriminate)) as (Hrep & Hnd).
  destruct (sibling_of _ _ _ _ _ _ _ _ d _ _ _ _ _ _ Hrep Hnd HN) as (Hsib & Hp & Hn & Hnp).
  rewrite deleteCase2_S. rewrite Hsib. cbv zeta beta iota.
  destruct d; cbn [pchild opp] in *; subst.
  - (* the node is the left child *)
    pose proof Hrep as Hrep'. simpl in Hrep'. destruct Hrep' as (_ & _ & Hrpr). rewrite (nodeColor_rep _ _ _ Hrpr). rewrite eqb_colb_red.
    unfold pdfix in HF.
    destruct pr as [|s [|] sl sk sv sr]; cbn [pcol]; cbv iota.
    + destruct (d3456_L_step h tr T Q p pc n nc nl nk nv nr pk pv PE F st pos f Hinv Hv HF) as (h' & tr' & U & Hrun).
      rewrite Hrun. exists h', tr'. split; [exact U|destruct st; rewrite ?bind_eta; reflexivity].
    + (* red sibling: parent red, sibling black, rotateLeft(parent) *)
      destruct (pd3456_L p RB.Red pk pv sl) as [[[F0 st0] pos0]|] eqn:E0; [|discriminate]. injection HF as <- <- <-.
      dsim.
      destruct (recolor_at h tr _ Q p pc _ pk pv _ RB.Red Hinv ltac:(rewrite pget_pupd_valid by exact Hv; reflexivity)) as (h1 & Hs1 & U1).
      change (colb RB.Red) with G.red in Hs1. rewrite Hs1. rewrite pupd_pupd in U1.
      destruct (recolor_at h1 tr _ (Q ++ [RB.R]) s RB.Red sl sk sv sr RB.Black (proj1 U1) ltac:(rewrite pget_sub by exact Hv; reflexivity)) as (h2 & Hs2 & U2).
      change (colb RB.Black) with G.black in Hs2. rewrite Hs2. rewrite pupd_sub in U2 by exact Hv. cbn [pupd] in U2.
      destruct (inv_sub _ _ _ _ _ (proj1 U2) Hv ltac:(discriminate)) as (Hrep2 & _). facts Hrep2. dsim.
      destruct (rotateLeft_at h2 tr _ Q p RB.Red _ pk pv s RB.Black sl sk sv sr (proj1 U2) ltac:(rewrite pget_pupd_valid by exact Hv; reflexivity)) as (h3 & tr3 & Hrun3 & U3).
      rewrite Hrun3. rewrite pupd_pupd in U3.
      set (T3 := pupd T Q (PT s RB.Black (PT p RB.Red (PT n nc nl nk nv nr) pk pv sl) sk sv sr)) in *.
      assert (Hv3 : pvalid T3 (Q ++ [RB.L])).
      { apply pvalid_snoc; [subst T3; apply pvalid_pupd; exact Hv|]. subst T3. rewrite pget_pupd_valid by exact Hv. discriminate. }
      assert (Hg3 : pget T3 (Q ++ [RB.L]) = PT p RB.Red (PT n nc nl nk nv nr) pk pv sl) by (subst T3; rewrite pget_sub by exact Hv; reflexivity).
      assert (HT3 : pupd T3 (Q ++ [RB.L]) (PT p RB.Red (PT n nc nl nk nv nr) pk pv sl) = T3) by (rewrite <- Hg3; apply pupd_pget).
      destruct (d3456_L_step h3 tr3 T3 (Q ++ [RB.L]) p RB.Red n nc nl nk nv nr pk pv sl F0 st0 pos0 f ltac:(rewrite HT3; exact (proj1 U3)) Hv3 E0) as (h4 & tr4 & U4 & Hrun4).
      rewrite Hrun4. rewrite HT3 in U4. subst T3. rewrite pupd_sub in U4 by exact Hv. cbn [pupd] in U4.
      exists h4, tr4. split; [|destruct st0; rewrite ?bind_eta; reflexivity].
      eapply upd_ok_trans; [exact U1|]. eapply upd_ok_trans; [exact U2|]. eapply upd_ok_trans; [exact U3|exact U4].
    + destruct (d3456_L_step h tr T Q p pc n nc nl nk nv nr pk pv _ F st pos f Hinv Hv HF) as (h' & tr' & U & Hrun).
      rewrite Hrun. exists h', tr'. split; [exact U|destruct st; rewrite ?bind_eta; reflexivity].
  - (* the node is the right child *)
    pose proof Hrep as Hrep'. simpl in Hrep'. destruct Hrep' as (_ & Hrpl & _). rewrite (nodeColor_rep _ _ _ Hrpl). rewrite eqb_colb_red.
    unfold pdfix in HF.
    destruct pl as [|s [|] sl sk sv sr]; cbn [pcol]; cbv iota.
    + destruct (d3456_R_step h tr T Q p pc n nc nl nk nv nr pk pv PE F st pos f Hinv Hv HF) as (h' & tr' & U & Hrun).
      rewrite Hrun. exists h', tr'. split; [exact U|destruct st; rewrite ?bind_eta; reflexivity].
    + destruct (pd3456_R p RB.Red pk pv sr) as [[[F0 st0] pos0]|] eqn:E0; [|discriminate]. injection HF as <- <- <-.
      assert (Ens : ptr_eqb (Some n) (Some s) = false) by (apply (sib_r _ _ _ _ _ _ n Hnd); reflexivity).
      dsim.
      destruct (recolor_at h tr _ Q p pc _ pk pv _ RB.Red Hinv ltac:(rewrite pget_pupd_valid by exact Hv; reflexivity)) as (h1 & Hs1 & U1).
      change (colb RB.Red) with G.red in Hs1. rewrite Hs1. rewrite pupd_pupd in U1.
      destruct (recolor_at h1 tr _ (Q ++ [RB.L]) s RB.Red sl sk sv sr RB.Black (proj1 U1) ltac:(rewrite pget_sub by exact Hv; reflexivity)) as (h2 & Hs2 & U2).
      change (colb RB.Black) with G.black in Hs2. rewrite Hs2. rewrite pupd_sub in U2 by exact Hv. cbn [pupd] in U2.
      destruct (inv_sub _ _ _ _ _ (proj1 U2) Hv ltac:(discriminate)) as (Hrep2 & _). facts Hrep2. dsim.
      destruct (rotateRight_at h2 tr _ Q p RB.Red pk pv _ s RB.Black sl sk sv sr (proj1 U2) ltac:(rewrite pget_pupd_valid by exact Hv; reflexivity)) as (h3 & tr3 & Hrun3 & U3).
      rewrite Hrun3. rewrite pupd_pupd in U3.
      set (T3 := pupd T Q (PT s RB.Black sl sk sv (PT p RB.Red sr pk pv (PT n nc nl nk nv nr)))) in *.
      assert (Hv3 : pvalid T3 (Q ++ [RB.R])).
      { apply pvalid_snoc; [subst T3; apply pvalid_pupd; exact Hv|]. subst T3. rewrite pget_pupd_valid by exact Hv. discriminate. }
      assert (Hg3 : pget T3 (Q ++ [RB.R]) = PT p RB.Red sr pk pv (PT n nc nl nk nv nr)) by (subst T3; rewrite pget_sub by exact Hv; reflexivity).
      assert (HT3 : pupd T3 (Q ++ [RB.R]) (PT p RB.Red sr pk pv (PT n nc nl nk nv nr)) = T3) by (rewrite <- Hg3; apply pupd_pget).
      destruct (d3456_R_step h3 tr3 T3 (Q ++ [RB.R]) p RB.Red n nc nl nk nv nr pk pv sr F0 st0 pos0 f ltac:(rewrite HT3; exact (proj1 U3)) Hv3 E0) as (h4 & tr4 & U4 & Hrun4).
      rewrite Hrun4. rewrite HT3 in U4. subst T3. rewrite pupd_sub in U4 by exact Hv. cbn [pupd] in U4.
      exists h4, tr4. split; [|destruct st0; rewrite ?bind_eta; reflexivity].
      eapply upd_ok_trans; [exact U1|]. eapply upd_ok_trans; [exact U2|]. eapply upd_ok_trans; [exact U3|exact U4].
    + destruct (d3456_R_step h tr T Q p pc n nc nl nk nv nr pk pv _ F st pos f Hinv Hv HF) as (h' & tr' & U & Hrun).
      rewrite Hrun. exists h', tr'. split; [exact U|destruct st; rewrite ?bind_eta; reflexivity].
Qed.

(* ---------- deleteCase1 = the fix-up function of the model file ---------- *)
(* OBLIGATION *)
Lemma deleteCase1_dfix : forall rp T dpos T' dpos' h tr n nc nl nk nv nr fuel,
  tree_inv h tr T -> pget T (rev rp) = PT n nc nl nk nv nr -> dfix T rp dpos = Some (T', dpos') ->
  (3 * length rp + 1 <= fuel)%nat ->
  exists h' tr', G.deleteCase1 fuel h tr (Some n) = Some (h', tr') /\ upd_ok h tr T h' tr' T'.
Proof.
  induction rp as [|d rq IH]; intros T dpos T' dpos' h tr n nc nl nk nv nr fuel Hinv Hn Hfix Hf.
  - cbn [rev pget] in Hn. cbn [dfix] in Hfix. injection Hfix as <- _. subst T.
    destruct fuel as [|f]; [lia|]. rewrite deleteCase1_S. destruct Hinv as (Hrep & Hnd & Hroot).
    pose proof (rep_root_deref _ _ _ _ _ _ _ _ Hrep) as Hd. rewrite Hd. cbn [node_of G.Node_Parent is_nil].
    exists h, tr. split; [reflexivity|apply upd_ok_refl; exact (conj Hrep (conj Hnd Hroot))].
  - cbn [rev] in Hn. cbn [dfix] in Hfix. set (Q := rev rq) in *.
    destruct (pget T Q) as [|p pc pl pk pv pr] eqn:Ep; [discriminate|].
    assert (HN : pchild d pl pr = PT n nc nl nk nv nr) by (rewrite pget_app, Ep in Hn; exact Hn).
    destruct (child_facts h T Q d p pc pl pk pv pr n nc nl nk nv nr (proj1 Hinv) Ep HN) as (Hp & Hn').
    destruct (pdfix d p pc pk pv (pchild (opp d) pl pr)) as [[[F st] pos]|] eqn:EF; [|discriminate].
    destruct fuel as [|[|[|f]]]; try (cbn [length] in Hf; lia).
    assert (Hv : pvalid T Q) by (apply pvalid_of_get; rewrite Ep; discriminate).
    assert (HT : T = pupd T Q (PT p pc pl pk pv pr)) by (rewrite <- Ep; symmetry; apply pupd_pget).
    assert (Hinv' : tree_inv h tr (pupd T Q (PT p pc pl pk pv pr))) by (rewrite <- HT; exact Hinv).
    destruct (deleteCase2_step h tr T Q p pc pl pk pv pr d n nc nl nk nv nr F st pos f Hinv' Hv HN EF) as (h1 & tr1 & U1 & Hrun).
    rewrite <- HT in U1. rewrite HN in Hfix.
    rewrite deleteCase1_S. dsim. rewrite Hrun.
    destruct st.
    + injection Hfix as <- _. exists h1, tr1. split; [reflexivity|exact U1].
    + destruct (pdfix_deficit _ _ _ _ _ _ _ _ EF) as (_ & HFp). destruct (HFp (PT n nc nl nk nv nr)) as (c' & l' & r' & HFN).
      destruct (IH (pupd T Q (F (PT n nc nl nk nv nr))) _ T' dpos' h1 tr1 p c' l' pk pv r' f (proj1 U1)
                  ltac:(fold Q; rewrite pget_pupd_valid by exact Hv; exact HFN) Hfix ltac:(cbn [length] in Hf; lia)) as (h2 & tr2 & Hrun2 & U2).
      rewrite Hrun2. exists h2, tr2. split; [reflexivity|]. eapply upd_ok_trans; eauto.
Qed.
Print Assumptions deleteCase1_dfix.

