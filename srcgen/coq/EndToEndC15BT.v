(* END-TO-END COROLLARY, property C15 (Properties/C15.v) on the GENERATED pointer code of trees/btree, every order m >= 3: after ANY
   generated run (EndToEndBT.bt_gen_run), Size() is not negative and Empty() holds exactly when Size() = 0; the generated Clear()
   leaves a header that represents the machine's [init c] with comparator and order kept, and ANY further generated run from the
   cleared state makes exactly the comparator calls of, and represents the same tree as, the same run from the generated
   constructor (C15_clear_is_init, C15_clear_then).  Keys() / Values() of the B-tree are not translated. *)
From Coq Require Import ZArith List Lia Bool Arith.
From Gods Require Import Common.Cmp Model.Ops Model.Machine Model.BTree.
From Gods Require Proofs.BTreeInv Proofs.MachineInv Proofs.MachineMaps Proofs.MachineTrees.
From GodsGen Require BTreeHeapGen.
From GodsGenProofs Require Import GoCmp GoTreeHeap GoBTreeHeap BTreeHeapRep BTreeHeapReadProofs BTreeHeapPutProofs BTreeHeapRemoveProofs EndToEndBT.
Import ListNotations.
Local Open Scope Z_scope.

Lemma model_ops_shift : forall m cmp ops ot a c0,
  model_ops m cmp ot (a + c0)%nat ops = match model_ops m cmp ot c0 ops with Some (o, n) => Some (o, (a + n)%nat) | None => None end.
Proof.
  intros m cmp. induction ops as [|o ops IH]; intros ot a c0; cbn [model_ops]; [reflexivity|].
  destruct (model_op m cmp ot o) as [[ot1 c1]|]; [|reflexivity]. rewrite <- Nat.add_assoc. apply IH.
Qed.

(* OBLIGATION *)
Theorem gen_bt_size_empty_clear : forall mag c ops more fuel, ckind c = BTree -> 3 <= corder c ->
  (4 * (length ops + length more) + bt_m c + 4 <= fuel)%nat ->
  exists ncmp h tr n, bt_gen_run mag (corder c) (kc c) fuel ops = Some (ncmp, h, tr) /\
    G.Tree_Size h tr = Some n /\ 0 <= n /\ n = size_of c (run c (map to_op ops)) /\ G.Empty h tr = Some (n =? 0) /\
    exists tr', G.Clear h tr = Some tr' /\ tree_repr h tr' None /\ G.Tree_Size h tr' = Some 0 /\ G.Empty h tr' = Some true /\
      G.Tree_Comparator tr' = kc c /\ G.Tree_m tr' = corder c /\
      fst (fst (step c (run c (map to_op ops)) Clear)) = StBT None (G.Tree_size tr') /\ init c = StBT None (G.Tree_size tr') /\
      exists h2 tr2 h3 tr3 ot2 q,
        gen_ops mag fuel ncmp h tr' more = Some ((ncmp + q)%nat, h2, tr2) /\
        bt_gen_run mag (corder c) (kc c) fuel more = Some (q, h3, tr3) /\
        tree_repr h2 tr2 ot2 /\ tree_repr h3 tr3 ot2 /\
        run c (map to_op ops ++ Clear :: map to_op more) = StBT ot2 (G.Tree_size tr2) /\
        run c (map to_op more) = StBT ot2 (G.Tree_size tr2).
Proof.
  intros mag c ops more fuel K Ho Hf. pose proof (MachineTrees.bt_valid_m c Ho) as H3. pose proof (MachineMaps.kc_SWO c) as Hswo.
  destruct (gen_bt_reach mag c ops fuel K Ho ltac:(lia)) as (ncmp & h & tr & ot & Hrun & Hm & Hrepr & Hok & Hcmp & Htm & Hinv & Hsort & Hmh & Hcnt).
  assert (Hc : MachineInv.config_ok c) by (split; [intros _; exact Ho|intros Q; rewrite K in Q; discriminate Q]).
  assert (Htm' : G.Tree_m tr = Z.of_nat (bt_m c)) by (rewrite Htm; unfold bt_m; lia).
  destruct (header_correct h tr ot (bt_m c) (proj2 Hrepr) Htm' ltac:(lia)) as (S1 & S2 & _).
  exists ncmp, h, tr, (Z.of_nat (bcount ot)). split; [exact Hrun|]. split; [exact S1|]. split; [lia|].
  split; [rewrite Hm; exact (eq_sym (proj2 Hrepr))|]. split; [rewrite S2; f_equal; destruct (bcount ot); reflexivity|].
  exists (G.Tree_set_size (G.Tree_set_Root tr None) 0). split; [reflexivity|].
  assert (Hrepr' : tree_repr h (G.Tree_set_size (G.Tree_set_Root tr None) 0) None) by (split; reflexivity).
  split; [exact Hrepr'|]. split; [reflexivity|]. split; [reflexivity|]. split; [exact Hcmp|]. split; [exact Htm|].
  assert (E3 : (corder c <? 3) = false) by lia.
  assert (Hinit : init c = StBT None 0) by (unfold init; rewrite K, E3; reflexivity).
  split; [rewrite (MachineInv.C15_clear_is_init c _ Hc); exact Hinit|]. split; [exact Hinit|].
  destruct (gen_ops_from mag (bt_m c) (kc c) H3 Hswo more fuel ncmp h (G.Tree_set_size (G.Tree_set_Root tr None) 0) None 0%nat
              Hrepr' Hok I I Htm' Hcmp (Nat.le_refl _) ltac:(cbn [Nat.add]; lia)) as (n2 & h2 & tr2 & ot2 & R1 & R2 & R3 & _).
  assert (Hm0 : corder c = Z.of_nat (bt_m c)) by (unfold bt_m; lia).
  destruct (gen_ops_from mag (bt_m c) (kc c) H3 Hswo more fuel 0%nat (@empty_heap G.Node) (G.mkTree None (kc c) 0 (corder c)) None 0%nat
              ltac:(split; reflexivity) (@heap_ok_empty G.Node) I I Hm0 eq_refl (Nat.le_refl _) ltac:(cbn [Nat.add]; lia)) as (n3 & h3 & tr3 & ot3 & Q1 & Q2 & Q3 & _).
  pose proof (model_ops_shift (bt_m c) (kc c) more None ncmp 0%nat) as Hs. rewrite Nat.add_0_r, R2, Q2 in Hs. injection Hs as -> ->.
  exists h2, tr2, h3, tr3, ot3, n3. split; [exact R1|].
  split; [unfold bt_gen_run, G.NewWith; rewrite E3; exact Q1|]. split; [exact R3|]. split; [exact Q3|].
  destruct (model_ops_machine c K Ho more None 0%nat ot3 n3 I I Q2) as (E & _).
  assert (Em : run c (map to_op more) = StBT ot3 (G.Tree_size tr2)) by (unfold run; rewrite Hinit, (proj2 R3); exact E).
  split; [rewrite (MachineInv.C15_clear_then c _ _ Hc); exact Em|exact Em].
Qed.
Print Assumptions gen_bt_size_empty_clear.

(* a concrete run (an Example; keyword Lemma so that run.py can isolate it): order 3, keys by floor division by 3 *)
Definition c15_mag : Z -> Z -> positive := fun _ _ => 1%positive.
Definition c15_cfg : config := {| ckind := BTree; kcmp := CDiv3; vcmp := CNat; ccap := 0; corder := 3; cuni := 6 |}.
Definition c15_ops : list bop := [BPut 15 1; BPut 3 2; BPut 24 3; BPut 4 4; BPut 9 5; BRemove 16; BPut 0 7].
Lemma ex_bt_c15_generated_run :
  match bt_gen_run c15_mag 3 (kc c15_cfg) 60 c15_ops with
  | Some (ncmp, h, tr) =>
    match G.Clear h tr with
    | Some tr' =>
      Some (G.Tree_Size h tr, G.Empty h tr, G.Tree_Size h tr', G.Empty h tr',
            match gen_ops c15_mag 60 ncmp h tr' [BPut 2 20; BPut 7 70; BPut 1 21], bt_gen_run c15_mag 3 (kc c15_cfg) 60 [BPut 2 20; BPut 7 70; BPut 1 21] with
            | Some (n2, h2, tr2), Some (n3, h3, tr3) => Some ((n2 - ncmp)%nat, n3, G.Tree_Size h2 tr2, G.LeftValue 60 h2 tr2, G.LeftValue 60 h3 tr3)
            | _, _ => None
            end)
    | None => None
    end
  | None => None
  end = Some (Some 4, Some false, Some 0, Some true, Some (2%nat, 2%nat, Some 2, Some (Some 21), Some (Some 21))).
Proof. vm_compute. reflexivity. Qed.
