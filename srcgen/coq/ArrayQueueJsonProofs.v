(* serialization.go of ArrayQueue (in GodsGen.ArrayQueueWrapGen): for ANY interface J of the wrapped container, ToJSON is the wrapped container's
   ToJSON, FromJSON its FromJSON (the new state stored back, the error passed on -- nothing else happens, no alternative
   path), MarshalJSON = ToJSON, UnmarshalJSON = FromJSON. *)
From Coq Require Import ZArith List Bool.
From GodsGen Require ArrayQueueWrapGen.
From GodsGenProofs Require Import GoJson.
Import ListNotations.

Module AQ := ArrayQueueWrapGen.

(* OBLIGATION *)
Theorem ArrayQueue_json_delegates : forall J s d,
  AQ.ToJSON J s = AQ.list_ToJSON J (AQ.list_ J s) /\
  AQ.FromJSON J s d = (AQ.set_list J s (fst (AQ.list_FromJSON J (AQ.list_ J s) d)), snd (AQ.list_FromJSON J (AQ.list_ J s) d)) /\
  AQ.MarshalJSON J s = AQ.ToJSON J s /\ AQ.UnmarshalJSON J s d = AQ.FromJSON J s d.
Proof.
  intros J s d. unfold AQ.ToJSON, AQ.FromJSON, AQ.MarshalJSON, AQ.UnmarshalJSON, AQ.ToJSON, AQ.FromJSON.
  destruct (AQ.list_ToJSON J (AQ.list_ J s)), (AQ.list_FromJSON J (AQ.list_ J s) d). repeat split.
Qed.
Print Assumptions ArrayQueue_json_delegates.
