(* DELETION path of trees/btree/btree.go: the GENERATED Remove / delete (GodsGen.BTreeHeapGen) -- the search of the key
   (searchRecursively), the replacement of an entry of an internal node by its predecessor (the last entry of the right-most
   leaf of the left subtree, found by right()), deleteEntry at the leaf and the bottom-up rebalance
   (BTreeHeapRebalanceProofs.v) -- against the levels of BTreeCost.del_c / delmax_c (BTreeHeapRemoveModel.v), under the
   position facts [dpos] (which BTreeHeapRemoveOrder.v derives from the order of the tree). *)
From Coq Require Import ZArith List Lia Bool Arith ZifyBool ZifyNat.
From Gods Require Import Common.Cmp Model.BTree Model.BTreeCost Proofs.BTreeInd Proofs.BTreeMap.
From Gods Require Proofs.BTreeInv Proofs.BTreeCostProofs.
From GodsGenProofs Require Import GoCmp GoTreeHeap GoBTreeHeap BTreeHeapRep BTreeHeapReadProofs BTreeHeapIterProofs BTreeHeapInsertModel BTreeHeapRemoveModel
  BTreeHeapWriteLemmas BTreeHeapRemoveLemmas BTreeHeapRebCommon BTreeHeapRebalanceProofs.
From GodsGen Require BTreeHeapGen.
Import ListNotations.
Local Open Scope Z_scope.

Lemma bal_children : forall hh es cs, BTreeMap.bal hh (BT.N es cs) -> cs <> [] ->
  exists hh', hh = S (S hh') /\ length cs = S (length es) /\ Forall (BTreeMap.bal (S hh')) cs.
Proof.
  intros hh es cs Hb Hne. destruct hh as [|[|hh']]; [contradiction|apply BTreeMap.bal_1 in Hb; congruence|].
  apply BTreeMap.bal_SS in Hb. exists hh'. split; [reflexivity|exact Hb].
Qed.

Lemma cwf1_cons : forall b es ls rs c, (length ls + length rs = length es)%nat -> (1 <= length es)%nat -> cwf1 c -> cwf1 (PF b es ls rs :: c).
Proof. intros. constructor; [split; assumption|assumption]. Qed.

(* the right-most leaf below s loses its last entry, then the pass goes up: delmax_c *)
Lemma delmax_pass : forall mag (m : nat), (3 <= m)%nat -> forall f ctx s hh lo fuel n h tr c' pred k ok t' K W,
  zrep h tr ctx s -> cwf1 ctx -> ctx <> [] -> BTreeMap.bal hh (erase s) -> BTreeInv.cnt m lo (erase s) -> (1 <= lo)%nat -> (hh <= f)%nat ->
  G.Tree_m tr = Z.of_nat m ->
  delmax_c m (G.Tree_Comparator tr) f (erase s) = Some (c', pred, k, ok) -> dmax_pos m (G.Tree_Comparator tr) f (erase s) ->
  rpos_ok m (G.Tree_Comparator tr) (map eframe ctx) (c', (n + k)%nat, ok) ->
  upz m (G.Tree_Comparator tr) (map eframe ctx) (c', (n + k)%nat, ok) = Some (t', K) ->
  (cwid ctx <= W)%nat -> (wid (erase s) <= W)%nat -> (hh + length ctx + W + 2 <= fuel)%nat ->
  exists pl,
    pl = pright hh s /\ pchildren pl = [] /\ BT.last_opt (pentries pl) = Some pred /\
    forall h1, (forall x, In x (addrs s) -> hread h1 x = hread h x) -> zrep h1 tr ctx s ->
    exists h2, G.deleteEntry h1 tr (Some (paddr pl)) (Z.of_nat (length (pentries pl) - 1)) = Some h2 /\
    exists h' tr', G.rebalance mag fuel n h2 tr (Some (paddr pl)) (fst pred) = Some (K, h', tr') /\
      brepr h' (G.Tree_Root tr') None (collapse t') /\ heap_ok h' /\
      G.Tree_size tr' = G.Tree_size tr /\ G.Tree_m tr' = G.Tree_m tr /\ G.Tree_Comparator tr' = G.Tree_Comparator tr.
Proof.
  intros mag m H3. induction f as [|f IH]; intros ctx [a es cs] hh lo fuel n h tr c' pred k ok t' K W Hz Hcwf Hcne Hbal Hcnt Hlo Hhf Hm Hdm Hdp Hpos Hup HW1 HW2 Hfuel;
    [exfalso; destruct hh; [exact Hbal|inversion Hhf]|].
  cbn [erase] in *. apply BTreeInv.cnt_inv in Hcnt. destruct Hcnt as [Hlen Hcf].
  destruct cs as [|c0 cs0].
  - (* a leaf: its last entry goes *)
    cbn [map delmax_c] in Hdm. destruct (BT.last_opt es) as [le|] eqn:Ele; [|discriminate]. injection Hdm as <- <- <- <-.
    exists (PN a es []). assert (Hh1 : hh = 1%nat) by (destruct hh as [|[|hh']]; [contradiction|reflexivity|apply BTreeMap.bal_SS in Hbal; destruct Hbal as [Hx _]; discriminate Hx]).
    subst hh. split; [reflexivity|]. split; [reflexivity|]. split; [exact Ele|].
    intros h1 _ Hz1. cbn [pentries paddr].
    pose proof Hz1 as (Hrep1 & _ & _ & Hok1 & _). pose proof (rep_deref _ _ _ _ _ Hrep1) as Ha1. unfold deref in Ha1.
    assert (Hes : (1 <= length es)%nat) by lia.
    destruct (deleteEntry_spec h1 tr a _ (length es - 1)%nat Ha1) as (h2 & Hde & Hu2); [cbn [node_of G.Node_Entries]; rewrite len_eptrs; lia|].
    exists h2. split; [exact Hde|]. cbn [node_of G.Node_Parent G.Node_Entries G.Node_Children] in Hu2.
    assert (Erm : remove_at (length es - 1) (eptrs es) = eptrs (removelast es)).
    { rewrite <- (len_eptrs es). rewrite remove_at_last by (destruct es; [cbn in Hes; lia|discriminate]). unfold eptrs. now rewrite removelast_map. }
    rewrite Erm in Hu2.
    assert (Hz2 : zrep h2 tr ctx (PN a (removelast es) [])).
    { eapply zrep_set_entries; [exact Hz1|exact (proj1 Hu2)|exact (proj1 (proj2 Hu2))|].
      eapply hupd_ok; [exact Hu2|exact Hok1|unfold alloced; congruence]. }
    rewrite Nat.add_0_r in Hpos, Hup.
    destruct (rebalance_correct mag m H3 ctx (PN a (removelast es) []) fuel n h2 tr (fst le) t' K Hz2 Hcwf Hm Hpos Hup ltac:(lia))
      as (h' & tr' & Hrun & Hbr & R).
    exists h', tr'. cbn [paddr] in Hrun. split; [exact Hrun|]. split; [|exact R]. destruct ctx; [congruence|exact Hbr].
  - (* an internal node: down into the last child *)
    set (cs := c0 :: cs0) in *.
    destruct (bal_children hh es (map erase cs) Hbal ltac:(discriminate)) as (hh' & -> & Hlcs & Hbf). rewrite map_length in Hlcs.
    destruct (BTreeInv.list_rev_case _ cs) as [E|(l & c & E)]; [discriminate|]. clearbody cs. subst cs.
    rewrite app_length in Hlcs. cbn [length] in Hlcs.
    rewrite map_app in *. cbn [map] in *.
    destruct (del_c_lift m (G.Tree_Comparator tr) f 0 es (map erase l) (erase c) []) as (_ & _ & Hdl). rewrite Hdl in Hdm. clear Hdl.
    destruct (delmax_c m (G.Tree_Comparator tr) f (erase c)) as [[[[c'' e''] k''] ok'']|] eqn:Edc; [|discriminate].
    destruct (lift m (G.Tree_Comparator tr) (es, map erase l, []) (c'', k'', ok'')) as [[[n1 kk1] ok1]|] eqn:Elift; [|discriminate].
    injection Hdm as <- <- <- <-.
    assert (Hzc : zrep h tr (PF a es l [] :: ctx) c) by (apply zrep_down; exact Hz).
    apply Forall_app in Hbf. destruct Hbf as [_ Hbc]. inversion Hbc as [|? ? Hbc' _]; subst.
    apply Forall_app in Hcf. destruct Hcf as [_ Hcc]. inversion Hcc as [|? ? Hcc' _]; subst.
    assert (Hinc : In (erase c) (map erase l ++ [erase c])) by (apply in_or_app; right; now left).
    pose proof (wid_child es _ _ Hinc) as Hwc. pose proof (wid_entries es (map erase l ++ [erase c])) as Hwe.
    (* the positions *)
    cbn [dmax_pos] in Hdp. destruct (app_cons_ne _ (map erase l) [] (erase c)) as (x0 & xs0 & Ex). rewrite Ex in Hdp. rewrite <- Ex in Hdp. clear Ex x0 xs0.
    rewrite app_length in Hdp. cbn [length] in Hdp. rewrite map_length in Hdp. replace (length l + 1 - 1)%nat with (length l) in Hdp by lia.
    assert (Hn : nth_error (map erase l ++ [erase c]) (length l) = Some (erase c)) by (rewrite <- (map_length erase l); apply nth_error_app_mid).
    rewrite Hn in Hdp. rewrite Edc in Hdp. destruct Hdp as [Hdpc Hposc].
    destruct (IH (PF a es l [] :: ctx) c (S hh') (BT.minEntries m) fuel n h tr c'' e'' k'' ok'' t' K W Hzc) as (pl & Epl & Hleaf & Hlast & Hrest).
    { apply cwf1_cons; [cbn [length]; lia|lia|exact Hcwf]. }
    { discriminate. }
    { exact Hbc'. }
    { exact Hcc'. }
    { pose proof (BTreeInv.minE_pos m H3). lia. }
    { lia. }
    { exact Hm. }
    { exact Edc. }
    { exact Hdpc. }
    { cbn [map eframe rpos_ok]. destruct c'' as [ces'' ccs'']. destruct ok'' as [rk|]; [|exact I]. rewrite map_length. split.
      - intro Hunder. apply Hposc. exact Hunder.
      - cbn [map] in *. rewrite (lift_add m _ _ _ _ _ _ _ _ n Elift). exact Hpos. }
    { cbn [map eframe upz]. cbn [map] in *. rewrite (lift_add m _ _ _ _ _ _ _ _ n Elift). exact Hup. }
    { cbn [cwid]. lia. }
    { lia. }
    { cbn [length]. lia. }
    exists pl. split; [|split; [exact Hleaf|split; [exact Hlast|]]].
    { rewrite Epl. cbn [pright]. unfold plast, BT.last_opt. cbn [pchildren]. rewrite app_length. cbn [length].
      replace (length l + 1 - 1)%nat with (length l) by lia. now rewrite nth_error_app_mid. }
    intros h1 Hfr Hz1. apply (Hrest h1).
    + intros x Hx. apply Hfr. cbn [addrs]. right. rewrite flat_map_app. apply in_or_app. right. cbn [flat_map]. rewrite app_nil_r. exact Hx.
    + apply zrep_down. exact Hz1.
Qed.

(* what delete leaves in Tree.Root: at a leaf that is the root, nil when its last entry went *)
Definition dfin (ctx : pctx) (t' : BT.node) : option BT.node :=
  match ctx with [] => mfin t' | _ => Some (collapse t') end.

Lemma root_entries_len : forall h p t, brepr h p None t ->
  exists nd, deref h p = Some nd /\ sl_len (G.Node_Entries nd) = Z.of_nat (length (BT.entries t)).
Proof.
  intros h p t (pt & <- & -> & Hrep & _). destruct pt as [a es cs]. exists (node_of None es cs). split; [exact (rep_deref _ _ _ _ _ Hrep)|].
  cbn [node_of G.Node_Entries erase BT.entries]. apply sl_len_eptrs.
Qed.

(* delete at a leaf: deleteEntry, the upward pass, the emptied root *)
Lemma delete_leaf : forall mag (m : nat), (3 <= m)%nat -> forall ctx a es pos e0 fuel n h tr t' K,
  zrep h tr ctx (PN a es []) -> cwf1 ctx -> G.Tree_m tr = Z.of_nat m -> nth_error es pos = Some e0 ->
  rpos_ok m (G.Tree_Comparator tr) (map eframe ctx) (BT.N (remove_at pos es) [], n, Some (fst e0)) ->
  upz m (G.Tree_Comparator tr) (map eframe ctx) (BT.N (remove_at pos es) [], n, Some (fst e0)) = Some (t', K) ->
  (ctx <> [] -> BT.entries (collapse t') <> []) ->
  (length ctx + cwid ctx + 2 <= fuel)%nat ->
  exists h' tr',
    G.delete mag fuel n h tr (Some a) (Z.of_nat pos) = Some (K, h', tr') /\
    root_repr h' tr' (dfin ctx t') /\ heap_ok h' /\
    G.Tree_size tr' = G.Tree_size tr /\ G.Tree_m tr' = G.Tree_m tr /\ G.Tree_Comparator tr' = G.Tree_Comparator tr.
Proof.
  intros mag m H3 ctx a es pos e0 fuel n h tr t' K Hz Hcwf Hm Hn Hpos Hup Hgood Hfuel.
  pose proof Hz as (Hrep & _ & _ & Hok & _). pose proof (rep_deref _ _ _ _ _ Hrep) as Hd.
  assert (Hp : (pos < length es)%nat) by (apply nth_error_Some; congruence).
  unfold G.delete. rewrite (isLeaf_rep h tr _ a es [] Hrep). rewrite Hd. cbn [node_of G.Node_Entries].
  rewrite sl_get_nat, nth_eptrs, Hn. cbn [option_map]. unfold Entry_Key.
  pose proof Hd as Ha. unfold deref in Ha.
  destruct (deleteEntry_spec h tr a _ pos Ha) as (h2 & Hde & Hu2); [cbn [node_of G.Node_Entries]; rewrite len_eptrs; exact Hp|].
  rewrite Hde. cbn [node_of G.Node_Parent G.Node_Entries G.Node_Children] in Hu2. rewrite eptrs_remove_at in Hu2.
  assert (Hz2 : zrep h2 tr ctx (PN a (remove_at pos es) [])).
  { eapply zrep_set_entries; [exact Hz|exact (proj1 Hu2)|exact (proj1 (proj2 Hu2))|].
    eapply hupd_ok; [exact Hu2|exact Hok|unfold alloced; congruence]. }
  destruct (rebalance_correct mag m H3 ctx (PN a (remove_at pos es) []) fuel n h2 tr (fst e0) t' K Hz2 Hcwf Hm Hpos Hup Hfuel)
    as (h' & tr' & Hrun & Hbr & Hok' & Hsz & Hm' & Hc').
  cbn [paddr] in Hrun. rewrite Hrun.
  destruct (root_entries_len _ _ _ Hbr) as (nd & Hdr & Hlen). rewrite Hdr, Hlen.
  destruct ctx as [|fr ctx'].
  - cbn [map upz fst snd erase] in Hup. injection Hup as <- <-. cbn [BT.entries dfin mfin].
    destruct (remove_at pos es) as [|x xs] eqn:Er; cbn [length].
    + exists h', (G.Tree_set_Root tr' None). split; [reflexivity|]. split; [reflexivity|]. split; [exact Hok'|]. destruct tr'; cbn in *; auto.
    + replace (Z.of_nat (S (length xs)) =? 0) with false by lia. exists h', tr'. split; [reflexivity|]. split; [exact Hbr|]. auto.
  - specialize (Hgood ltac:(discriminate)).
    replace (Z.of_nat (length (BT.entries (collapse t'))) =? 0) with false by (destruct (BT.entries (collapse t')); [congruence|cbn [length]; lia]).
    exists h', tr'. split; [reflexivity|]. split; [exact Hbr|]. auto.
Qed.

(* delete at an internal node: the last entry of the right-most leaf of the left subtree takes the place of the entry, and
   goes from that leaf *)
Lemma delete_internal : forall mag (m : nat), (3 <= m)%nat -> forall f ctx a es l c r hh lo fuel n h tr c' pred k ok t' K W,
  zrep h tr ctx (PN a es (l ++ c :: r)) -> cwf1 ctx -> (length l + length r = length es)%nat -> (length l < length es)%nat ->
  BTreeMap.bal hh (erase c) -> BTreeInv.cnt m lo (erase c) -> (1 <= lo)%nat -> (hh <= f)%nat ->
  G.Tree_m tr = Z.of_nat m -> G.Tree_size tr <> 0 ->
  delmax_c m (G.Tree_Comparator tr) f (erase c) = Some (c', pred, k, ok) -> dmax_pos m (G.Tree_Comparator tr) f (erase c) ->
  rpos_ok m (G.Tree_Comparator tr) ((replace_at (length l) pred es, map erase l, map erase r) :: map eframe ctx) (c', (n + k)%nat, ok) ->
  upz m (G.Tree_Comparator tr) ((replace_at (length l) pred es, map erase l, map erase r) :: map eframe ctx) (c', (n + k)%nat, ok) = Some (t', K) ->
  (cwid ctx <= W)%nat -> (length es <= W)%nat -> (wid (erase c) <= W)%nat -> (hh + length ctx + W + 3 <= fuel)%nat ->
  exists h' tr',
    G.delete mag fuel n h tr (Some a) (Z.of_nat (length l)) = Some (K, h', tr') /\
    root_repr h' tr' (Some (collapse t')) /\ heap_ok h' /\
    G.Tree_size tr' = G.Tree_size tr /\ G.Tree_m tr' = G.Tree_m tr /\ G.Tree_Comparator tr' = G.Tree_Comparator tr.
Proof.
  intros mag m H3 f ctx a es l c r hh lo fuel n h tr c' pred k ok t' K W Hz Hcwf Hlen Hes Hbal Hcnt Hlo Hhf Hm Hsz Hdm Hdp Hpos Hup HW1 HW2 HW3 Hfuel.
  pose proof Hz as (Hrep & _ & Hnd & Hok & _). pose proof (rep_deref _ _ _ _ _ Hrep) as Hd.
  unfold G.delete. rewrite (isLeaf_rep h tr _ a es _ Hrep).
  assert (Hnl : match l ++ c :: r with [] => true | _ => false end = false) by (destruct l; reflexivity). rewrite Hnl. clear Hnl.
  rewrite Hd. cbn [node_of G.Node_Entries G.Node_Children].
  rewrite sl_get_nat, nth_cptrs, nth_error_app_mid. cbn [option_map].
  (* right() *)
  assert (Hrc : rep h (Some a) c).
  { apply rep_children in Hrep. apply Forall_app in Hrep. destruct Hrep as [_ Hr]. inversion Hr; assumption. }
  pose proof (BTreeMap.bal_maxheight _ _ Hbal) as Hmh.
  unfold G.right, G.Empty. replace (G.Tree_size tr =? 0) with false by lia.
  rewrite (right_loop_addr tr h hh c (Some a) fuel (Some (paddr c)) Hrc) by lia.
  destruct (pright_spec hh c ltac:(lia)) as [Hsub Hleafp].
  set (pl := pright hh c) in *.
  destruct (rep_psub _ _ _ _ _ Hrc Hsub) as (ppl & Hrpl).
  destruct pl as [b les lcs] eqn:Epl. cbn [pchildren] in Hleafp. subst lcs.
  pose proof (rep_deref _ _ _ _ _ Hrpl) as Hdl. cbn [paddr]. rewrite Hdl. cbn [node_of G.Node_Entries].
  (* b is below c, a is not *)
  assert (Hinb : In b (addrs c)) by (eapply psub_addrs; [exact Hsub|cbn [addrs]; now left]).
  assert (Hba : b <> a).
  { intros ->. cbn [addrs] in Hnd. apply NoDup_cons_iff in Hnd. destruct Hnd as [Hna _]. apply Hna.
    apply in_or_app. left. rewrite flat_map_app. apply in_or_app. right. cbn [flat_map]. apply in_or_app. now left. }
  (* the heap with the predecessor in place *)
  set (h1 := hset h a (node_of (cparent ctx) (replace_at (length l) pred es) (l ++ c :: r))).
  assert (Hu1 : hupd h h1 a (node_of (cparent ctx) (replace_at (length l) pred es) (l ++ c :: r))) by apply hupd_hset.
  assert (Hok1 : heap_ok h1).
  { eapply hupd_ok; [exact Hu1|exact Hok|]. unfold alloced, deref in *. congruence. }
  assert (Hz1 : zrep h1 tr ctx (PN a (replace_at (length l) pred es) (l ++ c :: r))).
  { eapply zrep_set_entries; [exact Hz|exact (proj1 Hu1)|exact (proj1 (proj2 Hu1))|exact Hok1]. }
  assert (Hzc : zrep h1 tr (PF a (replace_at (length l) pred es) l r :: ctx) c) by (apply zrep_down; exact Hz1).
  destruct (delmax_pass mag m H3 f (PF a (replace_at (length l) pred es) l r :: ctx) c hh lo fuel n h1 tr c' pred k ok t' K W Hzc)
    as (pl' & Epl' & _ & Hlast & Hrest).
  { apply cwf1_cons; [rewrite replace_at_length; lia|rewrite replace_at_length; lia|exact Hcwf]. }
  { discriminate. }
  { exact Hbal. } { exact Hcnt. } { exact Hlo. } { exact Hhf. } { exact Hm. } { exact Hdm. } { exact Hdp. }
  { exact Hpos. } { exact Hup. }
  { cbn [cwid]. rewrite replace_at_length by lia. lia. }
  { exact HW3. }
  { cbn [length]. lia. }
  fold pl in Epl'. rewrite Epl in Epl'. subst pl'. cbn [pentries paddr] in Hlast, Hrest.
  destruct (Hrest h1 (fun _ _ => eq_refl) Hzc) as (h2 & Hde & h' & tr' & Hrun & Hbr & R). clear Hrest.
  assert (Hl1 : (1 <= length les)%nat) by (destruct les; [discriminate Hlast|cbn [length]; lia]).
  rewrite sl_len_eptrs.
  assert (Hget : sl_get (eptrs les) (Z.of_nat (length les) - 1) = Some (Some pred)).
  { rewrite <- sl_len_eptrs, sl_get_last. unfold eptrs. rewrite last_opt_map. exact (f_equal (option_map (@Some (Z * Z))) Hlast). }
  rewrite Hget.
  rewrite sl_set_nat by (rewrite len_eptrs; lia). rewrite eptrs_replace_at.
  pose proof Hd as Ha. unfold deref in Ha.
  rewrite (store_hset h a _ _ Ha).
  match goal with |- context [hset h a ?R] => change (hset h a R) with h1 end.
  assert (Hdl1 : deref h1 (Some b) = Some (node_of ppl les [])).
  { unfold deref in *. rewrite (proj1 (proj2 Hu1)) by exact Hba. exact Hdl. }
  rewrite Hdl1. cbn [node_of G.Node_Entries]. rewrite Hget. unfold Entry_Key.
  replace (Z.of_nat (length les) - 1) with (Z.of_nat (length les - 1)) by lia.
  rewrite Hde, Hrun. exists h', tr'. split; [reflexivity|]. split; [exact Hbr|exact R].
Qed.

(* the search from s downwards (the loop of searchRecursively), then delete at the node found: one level of del_c each *)
(* OBLIGATION *)
Theorem remove_descent : forall mag (m : nat), (3 <= m)%nat -> forall f ctx s hh lo fuel fuel2 n h tr key c' bb k ok start idx fnd W t' K,
  zrep h tr ctx s -> cwf1 ctx -> SWO (G.Tree_Comparator tr) -> BTreeMap.bst (G.Tree_Comparator tr) (erase s) ->
  BTreeMap.bal hh (erase s) -> BTreeInv.cnt m lo (erase s) -> (1 <= lo)%nat -> (hh <= f)%nat ->
  G.Tree_m tr = Z.of_nat m -> G.Tree_size tr <> 0 ->
  del_c m (G.Tree_Comparator tr) f key (erase s) = Some (c', bb, k, ok) -> dpos m (G.Tree_Comparator tr) f key (erase s) ->
  (bb = true -> rpos_ok m (G.Tree_Comparator tr) (map eframe ctx) (c', (n + k)%nat, ok) /\
                upz m (G.Tree_Comparator tr) (map eframe ctx) (c', (n + k)%nat, ok) = Some (t', K)) ->
  (ctx <> [] \/ BT.children (erase s) <> [] -> BT.children t' <> []) ->
  (BT.children t' <> [] -> BT.entries (collapse t') <> []) ->
  (cwid ctx <= W)%nat -> (wid (erase s) <= W)%nat -> (hh + W <= fuel)%nat -> (hh + length ctx + W + 3 <= fuel2)%nat ->
  exists p i kd rest,
    G.searchRecursively_loop1 mag fuel n h tr start key (Some (paddr s)) idx fnd = Some (Some ((n + kd)%nat, p, i, bb), rest) /\
    (bb = false -> kd = k) /\
    (bb = true -> exists h' tr',
       G.delete mag fuel2 (n + kd)%nat h tr p i = Some (K, h', tr') /\
       root_repr h' tr' (mfin t') /\ heap_ok h' /\
       G.Tree_size tr' = G.Tree_size tr /\ G.Tree_m tr' = G.Tree_m tr /\ G.Tree_Comparator tr' = G.Tree_Comparator tr).
Proof.
  intros mag m H3. induction f as [|f IH];
    intros ctx [a es cs] hh lo fuel fuel2 n h tr key c' bb k ok start idx fnd W t' K Hz Hcwf Hswo Hbst Hbal Hcnt Hlo Hhf Hm Hsz Hdel Hdp Hth Hch Hgood HW1 HW2 Hfuel Hfuel2;
    [exfalso; destruct hh; [exact Hbal|inversion Hhf]|].
  cbn [erase] in *. pose proof Hz as (Hrep & _). pose proof (rep_deref _ _ _ _ _ Hrep) as Hd.
  assert (Hh1 : (1 <= hh)%nat) by (destruct hh; [contradiction|lia]).
  destruct fuel as [|fuel]; [lia|].
  pose proof (wid_entries es (map erase cs)) as Hwe.
  cbn [G.searchRecursively_loop1 paddr].
  rewrite (search_correct mag h tr (Some a) _ es key (S fuel) n Hd eq_refl)
    by (pose proof (search_c_le_len (G.Tree_Comparator tr) key es); lia).
  set (sc := search_c (G.Tree_Comparator tr) key es) in *.
  destruct (BT.search (G.Tree_Comparator tr) key es) as [pos found] eqn:Es. cbn [fst snd].
  destruct (BTreeInd.search_bound _ _ _ _ _ Es) as [Hp1 Hp2].
  apply BTreeInv.cnt_inv in Hcnt. destruct Hcnt as [Hlen Hcf].
  destruct cs as [|c0 cs0].
  - (* a leaf *)
    cbn [map del_c] in Hdel. rewrite Es in Hdel. destruct found.
    + injection Hdel as <- <- <- <-. specialize (Hp2 eq_refl).
      pose proof (BTreeMap.bst_entries _ _ _ Hbst) as Hks.
      destruct (BTreeMap.search_found _ Hswo key es pos Hks Es) as (es1 & e0 & es2 & Ees & Hl1 & Heq).
      assert (Hn0 : nth_error es pos = Some e0) by (rewrite Ees, <- Hl1; apply nth_error_app_mid).
      destruct (Hth eq_refl) as [Hpos Hup]. fold sc in Hpos, Hup.
      apply (rpos_congr m _ Hswo _ _ _ _ _ Heq) in Hpos. rewrite (upz_congr m _ Hswo _ _ _ _ _ Heq) in Hup.
      destruct (delete_leaf mag m H3 ctx a es pos e0 fuel2 (n + sc)%nat h tr t' K Hz Hcwf Hm Hn0 Hpos Hup) as (h' & tr' & Hrun & Hrr & R).
      { intro Hne. apply Hgood. apply Hch. now left. }
      { lia. }
      exists (Some a), (Z.of_nat pos), sc. eexists. split; [reflexivity|]. split; [discriminate|]. intros _.
      exists h', tr'. split; [exact Hrun|]. split; [|exact R].
      destruct ctx as [|fr ctx']; [exact Hrr|]. cbn [dfin] in Hrr. rewrite mfin_children; [exact Hrr|apply Hch; left; discriminate].
    + injection Hdel as <- <- <- <-. rewrite (isLeaf_rep h tr _ a es [] Hrep).
      exists None, (-1), sc. eexists. split; [reflexivity|]. split; [reflexivity|discriminate].
  - (* an internal node *)
    set (cs := c0 :: cs0) in *.
    destruct (bal_children hh es (map erase cs) Hbal ltac:(discriminate)) as (hh' & -> & Hlcs & Hbf). rewrite map_length in Hlcs.
    assert (Hnl : match cs with [] => true | _ => false end = false) by reflexivity.
    assert (Hex : exists c, nth_error cs pos = Some c).
    { destruct (nth_error cs pos) eqn:E; [eauto|]. apply nth_error_None in E. lia. }
    destruct Hex as (c & Hnc). destruct (nth_error_split _ _ Hnc) as (l & r & Ecs & Hll).
    clearbody cs. subst cs. subst pos. clear Hnc.
    rewrite app_length in Hlcs. cbn [length] in Hlcs.
    rewrite map_app in *. cbn [map] in *.
    destruct (del_c_lift m (G.Tree_Comparator tr) f key es (map erase l) (erase c) (map erase r)) as (Hl1 & Hl2 & _).
    rewrite map_length in Hl1, Hl2.
    assert (Hn : nth_error (map erase l ++ erase c :: map erase r) (length l) = Some (erase c))
      by (rewrite <- (map_length erase l); apply nth_error_app_mid).
    apply Forall_app in Hbf. destruct Hbf as [_ Hbc]. inversion Hbc as [|? ? Hbc' _]; subst.
    apply Forall_app in Hcf. destruct Hcf as [_ Hcc]. inversion Hcc as [|? ? Hcc' _]; subst.
    assert (Hinc : In (erase c) (map erase l ++ erase c :: map erase r)) by (apply in_or_app; right; now left).
    pose proof (wid_child es _ _ Hinc) as Hwc.
    pose proof (BTreeMap.bal_wf _ _ Hbal) as Hwf.
    assert (Hbstc : BTreeMap.bst (G.Tree_Comparator tr) (erase c)) by (eapply IterTreeBT.bst_child; eauto).
    cbn [dpos] in Hdp. destruct (app_cons_ne _ (map erase l) (map erase r) (erase c)) as (x0 & xs0 & Ex). rewrite Ex in Hdp. rewrite <- Ex in Hdp. clear Ex x0 xs0.
    rewrite Es in Hdp. cbn [fst snd] in Hdp. rewrite Hn in Hdp.
    pose proof (BTreeInv.minE_pos m H3) as HminE.
    destruct found.
    + (* the key is in this node *)
      specialize (Hp2 eq_refl).
      rewrite (Hl2 Es) in Hdel.
      destruct (delmax_c m (G.Tree_Comparator tr) f (erase c)) as [[[[c'' pred] k''] ok'']|] eqn:Edc; [|discriminate].
      fold sc in Hdel.
      destruct (lift m (G.Tree_Comparator tr) (replace_at (length l) pred es, map erase l, map erase r) (c'', (sc + k'')%nat, ok'')) as [[[n1 kk1] ok1]|] eqn:Elift; [|discriminate].
      injection Hdel as <- <- <- <-. destruct Hdp as [Hdpc Hposc].
      destruct (Hth eq_refl) as [Hpos Hup].
      pose proof (lift_add m _ _ _ _ _ _ _ _ n Elift) as Elift'. rewrite Nat.add_assoc in Elift'.
      destruct (delete_internal mag m H3 f ctx a es l c r (S hh') (BT.minEntries m) fuel2 (n + sc)%nat h tr c'' pred k'' ok'' t' K W Hz Hcwf)
        as (h' & tr' & Hrun & Hrr & R); try assumption; try lia.
      { cbn [rpos_ok]. destruct c'' as [ces'' ccs'']. destruct ok'' as [rk|]; [|exact I]. rewrite map_length. split.
        - intro Hunder. apply Hposc. exact Hunder.
        - rewrite Elift'. exact Hpos. }
      { cbn [upz]. rewrite Elift'. exact Hup. }
      exists (Some a), (Z.of_nat (length l)), sc. eexists. split; [reflexivity|]. split; [discriminate|]. intros _.
      exists h', tr'. split; [exact Hrun|]. split; [|exact R].
      rewrite mfin_children; [exact Hrr|]. apply Hch. right. cbn [BT.children]. destruct (map erase l); discriminate.
    + (* down into the child *)
      rewrite (Hl1 Es) in Hdel. fold sc in Hdel.
      destruct (del_c m (G.Tree_Comparator tr) f key (erase c)) as [[[[c'' b] k''] ok'']|] eqn:Edc; [|discriminate].
      rewrite (isLeaf_rep h tr _ a es _ Hrep), Hnl. rewrite Hd. cbn [node_of G.Node_Children].
      rewrite sl_get_nat, nth_cptrs, nth_error_app_mid. cbn [option_map].
      destruct Hdp as [Hdpc Hposc].
      assert (Hzc : zrep h tr (PF a es l r :: ctx) c) by (apply zrep_down; exact Hz).
      assert (Hcw : cwf1 (PF a es l r :: ctx)) by (apply cwf1_cons; [lia|lia|exact Hcwf]).
      destruct b.
      * destruct (lift m (G.Tree_Comparator tr) (es, map erase l, map erase r) (c'', (sc + k'')%nat, ok'')) as [[[n1 kk1] ok1]|] eqn:Elift; [|discriminate].
        injection Hdel as <- <- <- <-.
        destruct (Hth eq_refl) as [Hpos Hup].
        pose proof (lift_add m _ _ _ _ _ _ _ _ n Elift) as Elift'. rewrite Nat.add_assoc in Elift'.
        destruct (IH (PF a es l r :: ctx) c (S hh') (BT.minEntries m) fuel fuel2 (n + sc)%nat h tr key c'' true k'' ok'' start (Z.of_nat (length l)) false W t' K
                    Hzc Hcw Hswo Hbstc Hbc' Hcc' HminE ltac:(lia) Hm Hsz Edc Hdpc)
          as (p & i & kd & rest & Hrun & _ & Hdel').
        { intros _. cbn [map eframe rpos_ok upz]. rewrite Elift'. split; [|exact Hup].
          destruct c'' as [ces'' ccs'']. destruct ok'' as [rk|]; [|exact I]. rewrite map_length. split; [|exact Hpos].
          intro Hunder. apply Hposc. exact Hunder. }
        { intros _. apply Hch. right. cbn [BT.children]. destruct (map erase l); discriminate. }
        { exact Hgood. }
        { cbn [cwid]. lia. }
        { lia. }
        { lia. }
        { cbn [length]. lia. }
        exists p, i, (sc + kd)%nat, rest. rewrite Nat.add_assoc. split; [exact Hrun|]. split; [discriminate|]. exact Hdel'.
      * injection Hdel as <- <- <- <-.
        destruct (IH (PF a es l r :: ctx) c (S hh') (BT.minEntries m) fuel fuel2 (n + sc)%nat h tr key c'' false k'' ok'' start (Z.of_nat (length l)) false W t' K
                    Hzc Hcw Hswo Hbstc Hbc' Hcc' HminE ltac:(lia) Hm Hsz Edc Hdpc)
          as (p & i & kd & rest & Hrun & Hkd & _).
        { discriminate. }
        { intros _. apply Hch. right. cbn [BT.children]. destruct (map erase l); discriminate. }
        { exact Hgood. }
        { cbn [cwid]. lia. }
        { lia. }
        { lia. }
        { cbn [length]. lia. }
        exists p, i, (sc + kd)%nat, rest. rewrite Nat.add_assoc. split; [exact Hrun|]. split; [|discriminate].
        intros _. rewrite (Hkd eq_refl). reflexivity.
Qed.
Print Assumptions remove_descent.
