(* doublerot(1, s) of the AVL tree in tree pointer mode (no obligations; see AVLTreeHeapDblRotProofs.v) *)
From Coq Require Import ZArith List Lia Bool Arith ZifyBool ZifyNat.
From Gods Require Import Common.Cmp Model.AVLTree Proofs.AVLInv.
From GodsGenProofs Require Import GoCmp GoTreeHeap GoTreeLink AVLTreeHeapRep AVLTreeHeapWriteLemmas AVLTreeHeapRotProofs.
From GodsGen Require AVLTreeHeapGen.
Import ListNotations.
Local Open Scope Z_scope.

Lemma doublerot_L : forall h pp sa sb sl sk sv ra rb pa pb pl pk pv pr rk rv rr,
  let S0 := PT sa sb sl sk sv (PT ra rb (PT pa pb pl pk pv pr) rk rv rr) in
  rep h pp S0 -> NoDup (addrs S0) ->
  exists h', G.doublerot h 1 (Some sa) = Some (h', Some pa) /\
    rep h' pp (PT pa 0 (PT sa (fst (dbl_bs 1 pb)) sl sk sv pl) pk pv (PT ra (snd (dbl_bs 1 pb)) pr rk rv rr)) /\
    hnext h' = hnext h /\ (forall z, ~ In z (addrs S0) -> hread h' z = hread h z).
Proof.
  intros h pp sa sb sl sk sv ra rb pa pb pl pk pv pr rk rv rr S0 Hrep Hnd. subst S0.
  pose proof Hrep as Hrep0. simpl in Hrep. destruct Hrep as (Hs & Hsl & HR). pose proof Hnd as Hnd0. nd_facts Hnd.
  assert (HndR : NoDup (addrs (PT ra rb (PT pa pb pl pk pv pr) rk rv rr))) by (autorewrite with nd; repeat split; nd_auto).
  destruct (rotate_R h (Some sa) ra rb rr rk rv pa pb pl pk pv pr HR HndR) as (h1 & E1 & Hrep1 & Hn1 & Hfr1).
  assert (Hs1 : hread h1 sa = hread h sa) by (apply Hfr1; autorewrite with nd; repeat split; nd_auto).
  rewrite Hs in Hs1.
  assert (Hsl1 : rep h1 (Some sa) sl).
  { eapply rep_frame; [|exact Hsl]. intros x Hx. apply Hfr1. autorewrite with nd. repeat split; nd_auto. }
  unfold G.doublerot. csim. rewrite E1. csim.
  set (h2 := hset h1 sa _).
  assert (Hn2 : hnext h2 = hnext h1) by reflexivity.
  assert (Hrep2 : rep h2 pp (PT sa sb sl sk sv (PT pa pb pl pk pv (PT ra rb pr rk rv rr)))).
  { subst h2. apply rep_PT_intro; [csim; reflexivity|rep_tac|].
    eapply rep_frame; [|exact Hrep1]. intros x Hx. rewrite hread_hset.
    assert (x <> sa) by (intros ->; in_cases Hx). eqb_simpl. reflexivity. }
  assert (Hnd2 : NoDup (addrs (PT sa sb sl sk sv (PT pa pb pl pk pv (PT ra rb pr rk rv rr))))) by (autorewrite with nd; repeat split; nd_auto).
  destruct (rotate_L h2 pp sa sb sl sk sv pa pb pl pk pv (PT ra rb pr rk rv rr) Hrep2 Hnd2) as (h3 & E3 & Hrep3 & Hn3 & Hfr3).
  rewrite E3. simpl in Hrep3. destruct Hrep3 as (Hp3 & (Hs3 & Hsl3 & Hpl3) & (Hr3 & Hpr3 & Hrr3)).
  unfold dbl_bs. csim. destruct (pb =? 1) eqn:Epb; [|destruct (pb =? -1) eqn:Epb2]; csim.
  all: eexists; (split; [reflexivity|]); (split; [rep_tac|]); (split; [cbn [hnext hset]; congruence|]).
  all: intros z Hz; nd_facts Hz; repeat (rewrite hread_hset; eqb_simpl); rewrite Hfr3 by (autorewrite with nd; repeat split; nd_auto);
       subst h2; rewrite hread_hset; eqb_simpl; apply Hfr1; autorewrite with nd; repeat split; nd_auto.
Qed.
