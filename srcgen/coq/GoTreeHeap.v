(* Hand-written support for the TREE POINTER MODE of srcgen (treeheap.go): a heap of nodes of an arbitrary record type N
   (the record is GENERATED from the Go struct).  Addresses are natural numbers, Go's nil is None.  The heap is an
   association list (latest binding first) with an allocation counter: every allocated address is below it, nodes are
   never freed (Go's garbage is simply unreachable).  Everything that can panic in Go is in the option monad:
   [deref] / [store] through nil or an unallocated address are None. *)
From Coq Require Import ZArith List Bool Arith Lia.
Import ListNotations.

Notation "'do' x <- e ; k" := (match e with Some x => k | None => None end)
  (at level 200, x pattern, e at level 100, k at level 200, only parsing).

Definition ptr := option nat.
Definition ptr_eqb (p q : ptr) : bool :=
  match p, q with
  | None, None => true
  | Some a, Some b => Nat.eqb a b
  | _, _ => false
  end.
Definition is_nil (p : ptr) : bool := match p with None => true | Some _ => false end.

Lemma ptr_eqb_refl : forall p, ptr_eqb p p = true.
Proof. destruct p; simpl; [apply Nat.eqb_refl | reflexivity]. Qed.
Lemma ptr_eqb_eq : forall p q, ptr_eqb p q = true <-> p = q.
Proof.
  destruct p, q; simpl; split; intro H; try discriminate; try reflexivity.
  - apply Nat.eqb_eq in H. now subst.
  - injection H as ->. apply Nat.eqb_refl.
Qed.
Lemma ptr_eqb_neq : forall p q, ptr_eqb p q = false <-> p <> q.
Proof.
  intros p q. split; intro H.
  - intro E. apply ptr_eqb_eq in E. congruence.
  - destruct (ptr_eqb p q) eqn:E; [|reflexivity]. apply ptr_eqb_eq in E. contradiction.
Qed.

Section Heap.
Context {N : Type}.

Record heap := mkheap { hcells : list (nat * N); hnext : nat }.
Definition empty_heap : heap := mkheap [] O.

Fixpoint lread (l : list (nat * N)) (a : nat) : option N :=
  match l with
  | [] => None
  | (b, c) :: l' => if Nat.eqb a b then Some c else lread l' a
  end.
Definition hread (h : heap) (a : nat) : option N := lread (hcells h) a.

(* p.field (read): nil / unallocated -> None *)
Definition deref (h : heap) (p : ptr) : option N :=
  match p with None => None | Some a => hread h a end.
(* p.field = x (write) *)
Definition store (h : heap) (p : ptr) (f : N -> N) : option heap :=
  match p with
  | None => None
  | Some a => match hread h a with None => None | Some c => Some (mkheap ((a, f c) :: hcells h) (hnext h)) end
  end.
(* &Node{...}: the new node's address is the allocation counter *)
Definition alloc (h : heap) (c : N) : heap * ptr :=
  (mkheap ((hnext h, c) :: hcells h) (S (hnext h)), Some (hnext h)).

Lemma hread_store : forall h p f h' b, store h p f = Some h' ->
  hread h' b = (if ptr_eqb (Some b) p then option_map f (hread h b) else hread h b).
Proof.
  intros h [a|] f h' b H; simpl in H; [|discriminate].
  destruct (hread h a) as [c|] eqn:Ha; [|discriminate]. injection H as <-.
  unfold hread at 1. simpl. destruct (Nat.eqb b a) eqn:E.
  - apply Nat.eqb_eq in E. subst b. now rewrite Ha.
  - reflexivity.
Qed.
Lemma store_next : forall h p f h', store h p f = Some h' -> hnext h' = hnext h.
Proof.
  intros h [a|] f h' H; simpl in H; [|discriminate].
  destruct (hread h a); [|discriminate]. now injection H as <-.
Qed.
Lemma store_some : forall h a c f, hread h a = Some c -> exists h', store h (Some a) f = Some h'.
Proof. intros h a c f H. simpl. rewrite H. eauto. Qed.
Lemma hread_alloc : forall h c b,
  hread (fst (alloc h c)) b = (if Nat.eqb b (hnext h) then Some c else hread h b).
Proof. intros. reflexivity. Qed.

(* every allocated address is below the counter *)
Definition heap_ok (h : heap) : Prop := forall a, hread h a <> None -> (a < hnext h)%nat.
Lemma heap_ok_empty : heap_ok empty_heap.
Proof. intros a H. now elim H. Qed.
Lemma heap_ok_store : forall h p f h', heap_ok h -> store h p f = Some h' -> heap_ok h'.
Proof.
  intros h p f h' Hok Hs a Ha. rewrite (store_next _ _ _ _ Hs). apply Hok.
  rewrite (hread_store _ _ _ _ a Hs) in Ha. destruct (ptr_eqb (Some a) p); [|exact Ha].
  destruct (hread h a); [discriminate|exact Ha].
Qed.
Lemma heap_ok_alloc : forall h c, heap_ok h -> heap_ok (fst (alloc h c)).
Proof.
  intros h c Hok a Ha. rewrite hread_alloc in Ha. simpl. destruct (Nat.eqb a (hnext h)) eqn:E.
  - apply Nat.eqb_eq in E. lia.
  - specialize (Hok a Ha). lia.
Qed.
End Heap.
Arguments heap N : clear implicits.

(* a fixed array of two pointers (`Children [2]*Node`): an index outside 0..1 panics *)
Definition arr2 := (ptr * ptr)%type.
Definition arr2_get (a : arr2) (i : Z) : option ptr :=
  if (i =? 0)%Z then Some (fst a) else if (i =? 1)%Z then Some (snd a) else None.
Definition arr2_set (a : arr2) (i : Z) (x : ptr) : option arr2 :=
  if (i =? 0)%Z then Some (x, snd a) else if (i =? 1)%Z then Some (fst a, x) else None.
