(* Scripts of iterator calls executed by GENERATED iterator functions that may fail (option: nil dereference, out of
   fuel) and whose state is RELATED to (not equal to the index of) the model's iterator state: the linked-list
   iterators in pointer mode (an address against the model's cell position), forward-only iterators
   (has_prev = false: Prev / End / Last / PrevTo are not offered, as in Model/Iter.run_call), the heap iterator.
   Generic transfer theorem: per-function simulations imply that the generated script runner computes exactly
   Model/Iter.run_script for every script.  (GenIterRun.v is the special case of total index iterators.) *)
From Coq Require Import ZArith List Bool Lia.
From Gods Require Import Common.Cmp Common.ListAux Spec.SeqSpec Model.Ops Model.Iter.
Import ListNotations.
Local Open Scope Z_scope.

Section GenIterRel.
Variable It : Type.                                   (* the generated iterator state *)
Variable St : Type.                                   (* the model's iterator state *)
Variable R : It -> St -> Prop.                        (* "the generated iterator is in the model state" *)
Variable valid : St -> Prop.                          (* holds of the state after every successful move: where Index() / Value() are read *)
(* the generated methods, container argument already applied; None = the generated code fails *)
Variables gNext gPrev gFirst gLast : It -> option (It * bool).
Variables gBegin gEnd : It -> option (It * unit).
Variables gIndex gValue : It -> option Z.
Variables gNextTo gPrevTo : It -> (Z -> Z -> bool) -> option (It * bool).
Variable has_prev : bool.
(* the model *)
Variables next prev : St -> option (St * bool).
Variables begin_ end_ : St -> St.
Variable cur : St -> option (Z * Z).
Variable fuel : nat.                                  (* the fuel of the model's NextTo / PrevTo loops *)

(* what the harness records after a moving call: Index() and Value() are read only after true *)
Definition gmoved (it : It) (b : bool) : option obs :=
  if b then match gIndex it, gValue it with
            | Some i, Some v => Some (OL [OZ 1; OZ i; OZ v])
            | _, _ => None
            end
  else Some (OL [OZ 0]).
Definition gland (r : option (It * bool)) : option (It * obs) :=
  match r with
  | Some (it', b) => match gmoved it' b with Some o => Some (it', o) | None => None end
  | None => None
  end.

Definition gen_call (it : It) (c : icall) : option (It * obs) :=
  match c with
  | CNext => gland (gNext it)
  | CBegin => match gBegin it with Some (it', _) => Some (it', ounit) | None => None end
  | CFirst => gland (gFirst it)
  | CNextTo p => gland (gNextTo it (pred_eval p))
  | CPrev => if has_prev then gland (gPrev it) else Some (it, ounsupported)
  | CEnd => if has_prev then match gEnd it with Some (it', _) => Some (it', ounit) | None => None end
            else Some (it, ounsupported)
  | CLast => if has_prev then gland (gLast it) else Some (it, ounsupported)
  | CPrevTo p => if has_prev then gland (gPrevTo it (pred_eval p)) else Some (it, ounsupported)
  end.

Fixpoint gen_script (it : It) (cs : list icall) : list obs :=
  match cs with
  | [] => []
  | c :: cs' =>
    match gen_call it c with
    | None => [ocrash]
    | Some (it', o) => o :: gen_script it' cs'
    end
  end.

(* the shape of the per-function simulations *)
Definition sim_res (g : option (It * bool)) (m : option (St * bool)) : Prop :=
  match g, m with
  | Some (it', b), Some (s', b') => R it' s' /\ b = b'
  | None, None => True
  | _, _ => False
  end.
Definition step_sim (g : It -> option (It * bool)) (m : St -> option (St * bool)) : Prop :=
  forall it s, R it s -> sim_res (g it) (m s).
Definition jump_sim (g : It -> option (It * unit)) (m : St -> St) : Prop :=
  forall it s, R it s -> exists it', g it = Some (it', tt) /\ R it' (m s).
Definition cur_sim : Prop :=
  forall it s, R it s -> valid s ->
    match cur s with
    | Some (i, v) => gIndex it = Some i /\ gValue it = Some v
    | None => gIndex it = None \/ gValue it = None
    end.

Hypothesis HNext : step_sim gNext next.
Hypothesis Vnext : forall s s', next s = Some (s', true) -> valid s'.
Hypothesis Vprev : has_prev = true -> forall s s', prev s = Some (s', true) -> valid s'.
Hypothesis HBegin : jump_sim gBegin begin_.
Hypothesis HFirst : forall it s, R it s -> sim_res (gFirst it) (next (begin_ s)).
Hypothesis HCur : cur_sim.
Hypothesis HNextTo : forall p it s, R it s -> sim_res (gNextTo it (pred_eval p)) (move_to St cur next p fuel s).
Hypothesis HPrev : has_prev = true -> step_sim gPrev prev.
Hypothesis HEnd : has_prev = true -> jump_sim gEnd end_.
Hypothesis HLast : has_prev = true -> forall it s, R it s -> sim_res (gLast it) (prev (end_ s)).
Hypothesis HPrevTo : has_prev = true -> forall p it s, R it s -> sim_res (gPrevTo it (pred_eval p)) (move_to St cur prev p fuel s).

Definition sim_call (g : option (It * obs)) (m : option (St * obs)) : Prop :=
  match g, m with
  | Some (it', o), Some (s', o') => R it' s' /\ o = o'
  | None, None => True
  | _, _ => False
  end.

Lemma move_to_valid : forall step, (forall s s', step s = Some (s', true) -> valid s') ->
  forall p m s s', move_to St cur step p m s = Some (s', true) -> valid s'.
Proof.
  intros step Hv p m. induction m as [|m IH]; intros s s' H; cbn [move_to] in H; [discriminate|].
  destruct (step s) as [[s1 [|]]|] eqn:E; try discriminate.
  destruct (cur s1) as [[i v]|]; try discriminate. destruct (pred_eval p i v).
  - injection H as <-. exact (Hv _ _ E).
  - exact (IH _ _ H).
Qed.

Lemma gland_moved : forall g m, sim_res g m -> (forall s', m = Some (s', true) -> valid s') ->
  sim_call (gland g) (match m with Some (s', b) => moved St cur s' b | None => None end).
Proof.
  intros [[it' b]|] [[s' b']|] H Hval; cbn [sim_res] in H; try contradiction; [|exact I].
  destruct H as [HR <-]. unfold gland, gmoved, moved. destruct b.
  - pose proof (HCur it' s' HR (Hval s' eq_refl)) as Hc. destruct (cur s') as [[i v]|].
    + destruct Hc as [-> ->]. split; [exact HR|reflexivity].
    + destruct Hc as [->| Hv]; [exact I|]. rewrite Hv. destruct (gIndex it'); exact I.
  - split; [exact HR|reflexivity].
Qed.

Lemma gen_call_sim : forall it s c, R it s ->
  sim_call (gen_call it c) (run_call St next prev begin_ end_ cur has_prev fuel s c).
Proof.
  intros it s c HR. destruct c as [| | | | | |p|p]; cbn [gen_call run_call].
  - apply gland_moved; [apply HNext, HR|apply Vnext].
  - destruct has_prev eqn:E; [apply gland_moved; [apply (HPrev eq_refl), HR|apply (Vprev eq_refl)]|split; [exact HR|reflexivity]].
  - destruct (HBegin it s HR) as (it' & -> & HR'). split; [exact HR'|reflexivity].
  - destruct has_prev eqn:E; [|split; [exact HR|reflexivity]].
    destruct (HEnd eq_refl it s HR) as (it' & -> & HR'). split; [exact HR'|reflexivity].
  - apply gland_moved; [apply HFirst, HR|apply Vnext].
  - destruct has_prev eqn:E; [apply gland_moved; [apply (HLast eq_refl), HR|apply (Vprev eq_refl)]|split; [exact HR|reflexivity]].
  - apply gland_moved; [apply HNextTo, HR|apply (move_to_valid next Vnext)].
  - destruct has_prev eqn:E; [apply gland_moved; [apply (HPrevTo eq_refl), HR|apply (move_to_valid prev (Vprev eq_refl))]|split; [exact HR|reflexivity]].
Qed.

Theorem gen_script_is_run_script : forall cs it s, R it s ->
  gen_script it cs = run_script St next prev begin_ end_ cur has_prev fuel s cs.
Proof.
  induction cs as [|c cs IH]; intros it s HR; cbn [gen_script run_script]; [reflexivity|].
  pose proof (gen_call_sim it s c HR) as H.
  destruct (gen_call it c) as [[it' o]|];
    destruct (run_call St next prev begin_ end_ cur has_prev fuel s c) as [[s' o']|];
    cbn [sim_call] in H; try contradiction; [|reflexivity].
  destruct H as [HR' <-]. now rewrite (IH it' s' HR').
Qed.
End GenIterRel.

(* ---------- the fuelled search loops: `for it.Step() { if f(it.Index(), it.Value()) { return true } } return false`
   as the pointer mode generates them (the loop yields (early result, iterator)), against Model/Iter.move_to ---------- *)
Section LoopSim.
Variable It St : Type.
Variable R : It -> St -> Prop.
Variable valid : St -> Prop.
Variable gstep : It -> option (It * bool).
Variables gIndex gValue : It -> option Z.
Variable step : St -> option (St * bool).
Variable cur : St -> option (Z * Z).
Variable T : St -> nat.                                (* a bound on the number of further successful steps *)
Hypothesis Hstep : step_sim It St R gstep step.
Hypothesis Hcur : cur_sim It St R valid gIndex gValue cur.
Hypothesis Vstep : forall s s', step s = Some (s', true) -> valid s'.
Hypothesis HT : forall s s', step s = Some (s', true) -> (T s' < T s)%nat.
Variable gl : nat -> It -> (Z -> Z -> bool) -> option (option (It * bool) * It).
Hypothesis gl_unfold : forall fuel it f, gl fuel it f =
  match gstep it with
  | None => None
  | Some (it1, r1) =>
    if r1 then
      match fuel with
      | O => None
      | S fuel' =>
        match gIndex it1 with
        | None => None
        | Some i =>
          match gValue it1 with
          | None => None
          | Some v => if f i v then Some (Some (it1, true), it1) else gl fuel' it1 f
          end
        end
      end
    else Some (None, it1)
  end.

Definition finish (r : option (option (It * bool) * It)) : option (It * bool) :=
  match r with
  | None => None
  | Some (Some x, _) => Some x
  | Some (None, it') => Some (it', false)
  end.

Lemma loop_sim : forall p g m it s, R it s -> (T s <= g)%nat -> (T s < m)%nat ->
  sim_res It St R (finish (gl g it (pred_eval p))) (move_to St cur step p m s).
Proof.
  intros p g. induction g as [|g IH]; intros m it s HR Hg Hm; (destruct m as [|m]; [lia|]);
    rewrite gl_unfold; cbn [move_to]; pose proof (Hstep it s HR) as H;
    destruct (gstep it) as [[it1 b]|]; destruct (step s) as [[s1 b']|] eqn:Es; cbn [sim_res] in H; try contradiction; try exact I;
    destruct H as [HR1 <-]; (destruct b; [|split; [exact HR1|reflexivity]]);
    pose proof (HT s s1 Es) as Hlt; [lia|].
  pose proof (Hcur it1 s1 HR1 (Vstep s s1 Es)) as Hc. destruct (cur s1) as [[i v]|].
  - destruct Hc as [-> ->]. destruct (pred_eval p i v).
    + split; [exact HR1|reflexivity].
    + apply IH; [exact HR1|lia|lia].
  - destruct Hc as [->| Hv]; [exact I|]. rewrite Hv. destruct (gIndex it1); exact I.
Qed.
End LoopSim.
