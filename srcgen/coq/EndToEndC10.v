(* END-TO-END COROLLARIES, property C10 (Properties/C10.v, Proofs/BidiProofs.v) about runs of GENERATED code:
   - maps/treebidimap COMPOSED with the generated red-black pointer code for BOTH trees (TreeBidiMapOverHeapProofs.gen_run_p: generated
     Put / Remove / Clear, any list, from the generated NewWith(kc, vc)), for every configuration of kind TreeBidiMap ("the same key" /
     "the same value" = the comparators kc c / vc c of the family);
   - maps/hashbidimap (HashBidiMapGenProofs.gen_run: the generated code over two hash maps; the same = Z equality).
   [get k] / [getkey v] are the answers of the GENERATED Get / GetKey in the observation format (obs_pair (v, true) = oopt (Some v),
   obs_pair (_, false) = oopt None).  Stated: Get(k) = (v, true) <-> GetKey(v) = (k, true) up to the equivalences, the sharp round
   trip, one-to-one, Size() = len(Keys()) = len(Values()) with both enumerations strictly ascending, the answers as functions of the
   HISTORY only (BidiProofs.spec: a displaced pair is never returned again), and what one more generated Put / Remove does. *)
From Coq Require Import ZArith List Lia Bool Arith Sorted.
From Gods Require Import Common.Cmp Spec.SeqSpec Spec.MapSpec Model.Ops Model.Machine.
From Gods Require Proofs.MachineMaps Proofs.BidiProofs.
From GodsGen Require TreeBidiMapGen HashBidiMapGen.
From GodsGenProofs Require Import GenIterRun WrapCommon GoCmp.
From GodsGenProofs Require TreeBidiMapGenProofs TreeBidiMapOverHeapProofs HashBidiMapGenProofs.
Import ListNotations.
Local Open Scope Z_scope.

Module TBO := TreeBidiMapOverHeapProofs. Module TB := TreeBidiMapGenProofs. Module B := TreeBidiMapGen.
Module HB := HashBidiMapGenProofs. Module H := HashBidiMapGen.
Module BP := BidiProofs.

(* the statement, for any way of answering Get / GetKey / Size / Keys / Values after a run and after one more Put / Remove *)
Section Statement.
Variables (ck cv : cmpf) (P : list MapSpec.entry).
Variables (get getkey : Z -> obs) (size : Z) (keys values : list Z).
Variables (get_put getkey_put : Z -> Z -> Z -> obs) (get_rem : Z -> Z -> obs).
Definition c10_statement : Prop :=
  (forall k v, (exists v', cv v v' = Eq /\ get k = oopt (Some v')) <-> (exists k', ck k k' = Eq /\ getkey v = oopt (Some k'))) /\
  (forall k v, get k = oopt (Some v) -> exists k0, ck k k0 = Eq /\ getkey v = oopt (Some k0) /\ get k0 = oopt (Some v)) /\
  (forall v k, getkey v = oopt (Some k) -> exists v0, cv v v0 = Eq /\ get k = oopt (Some v0) /\ getkey v0 = oopt (Some k)) /\
  (forall k1 k2 v1 v2, get k1 = oopt (Some v1) -> get k2 = oopt (Some v2) -> cv v1 v2 = Eq -> ck k1 k2 = Eq /\ v1 = v2) /\
  (zlen keys = size /\ zlen values = size /\ StronglySorted (fun a b => ck a b = Lt) keys /\ StronglySorted (fun a b => cv a b = Lt) values) /\
  ((forall k, get k = oopt (BP.sget ck P k)) /\ (forall v, getkey v = oopt (BP.sgetkey cv P v)) /\ size = zlen P /\ BP.one_to_one ck cv P) /\
  (forall k v, (forall k', ck k' k = Eq -> get_put k v k' = oopt (Some v)) /\
     (forall k' v', ck k' k <> Eq -> get k' = oopt (Some v') -> cv v' v = Eq -> get_put k v k' = oopt None) /\
     (forall k' v', ck k' k <> Eq -> get k' = oopt (Some v') -> cv v' v <> Eq -> get_put k v k' = oopt (Some v')) /\
     (forall k', ck k' k <> Eq -> get k' = oopt None -> get_put k v k' = oopt None) /\
     (forall v', cv v' v = Eq -> getkey_put k v v' = oopt (Some k))) /\
  (forall k, (forall k', ck k' k = Eq -> get_rem k k' = oopt None) /\ (forall k', ck k' k <> Eq -> get_rem k k' = get k')).
End Statement.

(* the machine satisfies it (Properties/C10.v restated at one state) *)
Lemma machine_c10 : forall c ops, BP.bidi c ->
  c10_statement (BP.bk c) (BP.bv c) (BP.spec c ops)
    (get_of c (run c ops)) (getkey_of c (run c ops)) (size_of c (run c ops)) (keys_of c (run c ops)) (values_of c (run c ops))
    (fun k v => get_of c (run c (ops ++ [Put k v]))) (fun k v => getkey_of c (run c (ops ++ [Put k v])))
    (fun k => get_of c (run c (ops ++ [Remove k]))).
Proof.
  intros c ops Hb. unfold c10_statement.
  split; [intros k v; exact (BP.C10_get_getkey_proof c ops k v Hb)|].
  split; [intros k v; exact (BP.C10_get_then_getkey_proof c ops k v Hb)|].
  split; [intros v k; exact (BP.C10_getkey_then_get_proof c ops v k Hb)|].
  split; [intros k1 k2 v1 v2; exact (BP.C10_injective_proof c ops k1 k2 v1 v2 Hb)|].
  split; [destruct (BP.C10_size_proof c ops Hb) as (_ & S2 & S3 & S4 & S5 & _); repeat split; assumption|].
  split; [destruct (BP.C10_history_proof c ops Hb) as (H1 & H2 & H3 & _ & H5); split; [exact H1|split; [exact H2|split; [exact H3|exact H5]]]|].
  split.
  - intros k v. destruct (BP.C10_put_get_proof c ops k v Hb) as (A1 & A2 & A3 & A4). destruct (BP.C10_put_getkey_proof c ops k v Hb) as (A5 & _).
    repeat split; assumption.
  - intros k. exact (BP.C10_remove_get_proof c ops k Hb).
Qed.

Require Import Setoid Morphisms.
Lemma c10_ext : forall ck cv P get getkey size keys values gp gkp gr get' getkey' gp' gkp' gr',
  (forall k, get' k = get k) -> (forall v, getkey' v = getkey v) -> (forall k v k', gp' k v k' = gp k v k') ->
  (forall k v v', gkp' k v v' = gkp k v v') -> (forall k k', gr' k k' = gr k k') ->
  c10_statement ck cv P get getkey size keys values gp gkp gr -> c10_statement ck cv P get' getkey' size keys values gp' gkp' gr'.
Proof.
  intros ck cv P get getkey size keys values gp gkp gr get' getkey' gp' gkp' gr' E1 E2 E3 E4 E5 H. unfold c10_statement in *.
  setoid_rewrite E1. setoid_rewrite E2. setoid_rewrite E3. setoid_rewrite E4. setoid_rewrite E5. exact H.
Qed.

(* OBLIGATION (C10 for the generated TreeBidiMap over the generated red-black pointer code) *)
Theorem gen_treebidimap_bijection : forall mag c ops, ckind c = TreeBidiMap ->
  let IF := TBO.IFp mag in let II := TBO.IIp mag in let run_p := TBO.gen_run_p mag (kc c) (vc c) in
  c10_statement (kc c) (vc c) (BP.spec c (map TB.to_op ops))
    (fun k => obs_pair (B.Get IF II (run_p ops) k)) (fun v => obs_pair (B.GetKey IF II (run_p ops) v))
    (B.Size IF II (run_p ops)) (B.Keys IF II (run_p ops)) (B.Values IF II (run_p ops))
    (fun k v k' => obs_pair (B.Get IF II (run_p (ops ++ [TB.GPut k v])) k'))
    (fun k v v' => obs_pair (B.GetKey IF II (run_p (ops ++ [TB.GPut k v])) v'))
    (fun k k' => obs_pair (B.Get IF II (run_p (ops ++ [TB.GRemove k])) k')).
Proof.
  intros mag c ops K IF II run_p.
  assert (Hb : BP.bidi c) by (right; exact K).
  pose proof (machine_c10 c (map TB.to_op ops) Hb) as H. destruct (BP.bidi_eq_tree c K) as (Ek & Ev). rewrite Ek, Ev in H.
  destruct (TBO.treebidimap_over_heap_run mag c K ops) as (nf & hf & trf & f & ni & hi & tri & i & _ & _ & _ & _ & _ & _ & _ & _ & _ & _ & _ & _ & _ & O1 & _ & O3 & O4 & O5).
  fold IF in O1, O3, O4, O5. fold II in O1, O3, O4, O5. fold run_p in O1, O3, O4, O5. rewrite O1, O3, O4.
  refine (c10_ext _ _ _ _ _ _ _ _ _ _ _ _ _ _ _ _ _ _ _ _ _ H).
  - intro k. exact (proj1 (O5 k)).
  - intro v. exact (proj2 (O5 v)).
  - intros k v k'. destruct (TBO.treebidimap_over_heap_run mag c K (ops ++ [TB.GPut k v])) as (? & ? & ? & ? & ? & ? & ? & ? & _ & _ & _ & _ & _ & _ & _ & _ & _ & _ & _ & _ & _ & _ & _ & _ & _ & P5).
    rewrite map_app in P5. exact (proj1 (P5 k')).
  - intros k v v'. destruct (TBO.treebidimap_over_heap_run mag c K (ops ++ [TB.GPut k v])) as (? & ? & ? & ? & ? & ? & ? & ? & _ & _ & _ & _ & _ & _ & _ & _ & _ & _ & _ & _ & _ & _ & _ & _ & _ & P5).
    rewrite map_app in P5. exact (proj2 (P5 v')).
  - intros k k'. destruct (TBO.treebidimap_over_heap_run mag c K (ops ++ [TB.GRemove k])) as (? & ? & ? & ? & ? & ? & ? & ? & _ & _ & _ & _ & _ & _ & _ & _ & _ & _ & _ & _ & _ & _ & _ & _ & _ & P5).
    rewrite map_app in P5. exact (proj1 (P5 k')).
Qed.
Print Assumptions gen_treebidimap_bijection.

(* OBLIGATION (C10 for the generated HashBidiMap) *)
Theorem gen_hashbidimap_bijection : forall c ops, ckind c = HashBidiMap ->
  let IF := HB.IF in let II := HB.II in
  c10_statement Z.compare Z.compare (BP.spec c (map HB.to_op ops))
    (fun k => obs_pair (H.Get IF II (HB.gen_run ops) k)) (fun v => obs_pair (H.GetKey IF II (HB.gen_run ops) v))
    (H.Size IF II (HB.gen_run ops)) (H.Keys IF II (HB.gen_run ops)) (H.Values IF II (HB.gen_run ops))
    (fun k v k' => obs_pair (H.Get IF II (HB.gen_run (ops ++ [HB.GPut k v])) k'))
    (fun k v v' => obs_pair (H.GetKey IF II (HB.gen_run (ops ++ [HB.GPut k v])) v'))
    (fun k k' => obs_pair (H.Get IF II (HB.gen_run (ops ++ [HB.GRemove k])) k')).
Proof.
  intros c ops K IF II.
  assert (Hb : BP.bidi c) by (left; exact K).
  pose proof (machine_c10 c (map HB.to_op ops) Hb) as H0. unfold BP.bk, BP.bv in H0. rewrite K in H0.
  assert (Hobs : forall ops' k, get_of c (run c (map HB.to_op ops')) k = obs_pair (H.Get IF II (HB.gen_run ops') k) /\
                                getkey_of c (run c (map HB.to_op ops')) k = obs_pair (H.GetKey IF II (HB.gen_run ops') k)).
  { intros ops' k. rewrite (HB.gen_run_simulates c K ops'). destruct (HB.observers_equiv c (HB.gen_run ops') k) as (G1 & G2 & _).
    split; [exact G1|]. fold IF II in G2. rewrite G2, obs_pair_opt. destruct (HB.gen_run ops') as [f i]. reflexivity. }
  destruct (HB.observers_equiv c (HB.gen_run ops) 0) as (_ & _ & G3 & _ & G5 & G6). fold IF II in G3, G5, G6.
  pose proof (HB.gen_run_simulates c K ops) as Er.
  assert (S1 : size_of c (run c (map HB.to_op ops)) = H.Size IF II (HB.gen_run ops)) by (rewrite Er; symmetry; exact G3).
  assert (S2 : keys_of c (run c (map HB.to_op ops)) = H.Keys IF II (HB.gen_run ops)) by (rewrite Er; symmetry; exact G5).
  assert (S3 : values_of c (run c (map HB.to_op ops)) = H.Values IF II (HB.gen_run ops)) by (rewrite Er; symmetry; exact G6).
  rewrite S1, S2, S3 in H0.
  refine (c10_ext _ _ _ _ _ _ _ _ _ _ _ _ _ _ _ _ _ _ _ _ _ H0).
  - intro k. symmetry. exact (proj1 (Hobs ops k)).
  - intro v. symmetry. exact (proj2 (Hobs ops v)).
  - intros k v k'. rewrite <- (proj1 (Hobs (ops ++ [HB.GPut k v]) k')), map_app. reflexivity.
  - intros k v v'. rewrite <- (proj2 (Hobs (ops ++ [HB.GPut k v]) v')), map_app. reflexivity.
  - intros k k'. rewrite <- (proj1 (Hobs (ops ++ [HB.GRemove k]) k')), map_app. reflexivity.
Qed.
Print Assumptions gen_hashbidimap_bijection.

(* a concrete run (an Example; keyword Lemma so that run.py can isolate it): keys by x/3, values by |x| over the pointer code;
   Put 4 (-10) replaces the pair of key 3 (same key class), Put 7 10 takes over the value class of -10 *)
Definition c10_mag : Z -> Z -> positive := fun _ _ => 1%positive.
Definition c10_cfg : config := {| ckind := TreeBidiMap; kcmp := CDiv3; vcmp := CAbs; ccap := 0; corder := 0; cuni := 4 |}.
Lemma ex_c10_generated_run :
  let IF := TBO.IFp c10_mag in let II := TBO.IIp c10_mag in
  let g := TBO.gen_run_p c10_mag (kc c10_cfg) (vc c10_cfg) [TB.GPut 3 5; TB.GPut 0 1; TB.GPut 4 (-10); TB.GPut 7 10; TB.GPut 9 2; TB.GRemove 1] in
  let gh := HB.gen_run [HB.GPut 1 10; HB.GPut 2 10; HB.GPut 1 20; HB.GPut 3 30; HB.GPut 4 30; HB.GRemove 9; HB.GPut 4 20] in
  (B.Keys IF II g, B.Values IF II g, B.Size IF II g, B.Get IF II g 8, B.GetKey IF II g (-10), B.Get IF II g 4, B.GetKey IF II g 5,
   H.Keys HB.IF HB.II gh, H.Values HB.IF HB.II gh, H.Get HB.IF HB.II gh 4, H.GetKey HB.IF HB.II gh 30) =
  ([7; 9], [2; 10], 2, (10, true), (7, true), (0, false), (0, false), [2; 4], [10; 20], (20, true), (0, false)).
Proof. vm_compute. reflexivity. Qed.
