(* NOT PROOFS FOR ALL INPUTS: concrete runs of the GENERATED write paths of trees/btree/btree.go -- Put (insert,
   insertIntoLeaf, insertIntoInternal, split, splitNonRoot, splitRoot, setParent) and Remove (delete, rebalance, leftSibling,
   rightSibling, prependChildren, appendChildren, deleteEntry, deleteChild) of GodsGen.BTreeHeapGen -- evaluated INSIDE Coq
   (vm_compute) and compared, after EVERY operation, with the functional model BT.put / BT.remove (Model/BTree.v): the heap
   reachable from Tree.Root is read back (entries, shape; a nil entry or a nil child fails), every Parent pointer is
   checked against the node it was reached from, the addresses are checked to be distinct, Tree.size = BT.count, and the
   number of comparator calls = BTreeCost.put_c / remove_c (property C07).  After every operation the generated Get is
   also run on three keys and compared with BT.get (value, found flag, comparator calls); after each of the five phases of
   the script the generated ITERATOR walks the whole tree forwards (Next) and backwards (Prev): the keys / values it yields
   are BT.inorder and its reverse.
   Orders 3, 4, 5 and 7 x 4 comparators x (70 insertions with repeated keys, then 90 removals incl. absent keys) = 2560
   operations.  A semantic change of the insertion / deletion code changes one of these runs with high probability.
   The read paths and the iterator have general theorems (BTreeHeapReadProofs.v, BTreeHeapIterProofs.v); for the write
   paths this run test is the ONLY check. *)
From Coq Require Import ZArith List Lia Bool Arith.
From Gods Require Import Common.Cmp Model.BTree Model.BTreeCost.
From GodsGenProofs Require Import GoCmp GoTreeHeap GoBTreeHeap BTreeHeapRep.
From GodsGen Require BTreeHeapGen.
Import ListNotations.
Local Open Scope Z_scope.

Fixpoint all_some {A} (l : list (option A)) : option (list A) :=
  match l with
  | [] => Some []
  | None :: _ => None
  | Some x :: l' => match all_some l' with Some r => Some (x :: r) | None => None end
  end.

(* read the tree back from the heap, checking the Parent pointers; also the list of addresses *)
Fixpoint readback (fuel : nat) (h : heap G.Node) (p pp : ptr) : option (BT.node * list nat) :=
  match fuel with
  | O => None
  | S f =>
    match p with
    | None => None
    | Some a =>
      match hread h a with
      | None => None
      | Some n =>
        if negb (ptr_eqb (G.Node_Parent n) pp) then None else
        match all_some (G.Node_Entries n) with
        | None => None
        | Some es =>
          match (fix go (cs : list ptr) : option (list BT.node * list nat) :=
                   match cs with
                   | [] => Some ([], [])
                   | c :: cs' =>
                     match readback f h c p, go cs' with
                     | Some (t, al), Some (ts, als) => Some (t :: ts, al ++ als)
                     | _, _ => None
                     end
                   end) (G.Node_Children n) with
          | Some (ts, als) => Some (BT.N es ts, a :: als)
          | None => None
          end
        end
      end
    end
  end.

Definition readroot (h : heap G.Node) (tr : G.Tree) : option (option BT.node * list nat) :=
  match G.Tree_Root tr with
  | None => Some (None, [])
  | Some _ => match readback 32 h (G.Tree_Root tr) None with Some (t, al) => Some (Some t, al) | None => None end
  end.

Definition eeq (a b : BT.entry) : bool := (fst a =? fst b) && (snd a =? snd b).
Fixpoint leq {A} (f : A -> A -> bool) (l l' : list A) : bool :=
  match l, l' with
  | [], [] => true
  | x :: l, y :: l' => f x y && leq f l l'
  | _, _ => false
  end.
Fixpoint neq (a b : BT.node) : bool :=
  match a, b with
  | BT.N es cs, BT.N es' cs' =>
    leq eeq es es' &&
    (fix go (l l' : list BT.node) : bool :=
       match l, l' with
       | [], [] => true
       | x :: l, y :: l' => neq x y && go l l'
       | _, _ => false
       end) cs cs'
  end.
Definition oneq (a b : option BT.node) : bool :=
  match a, b with Some x, Some y => neq x y | None, None => true | _, _ => false end.
Fixpoint nodupb (l : list nat) : bool :=
  match l with [] => true | x :: l' => negb (existsb (Nat.eqb x) l') && nodupb l' end.

Definition mag (a b : Z) : positive := Z.to_pos (1 + Z.abs (a - b)).   (* answers of varying magnitude *)

Inductive op := OPut (k v : Z) | ORemove (k : Z).

Definition FUEL : nat := 48.

(* the generated Get against BT.get on the current tree *)
Definition get_ok (cmp : cmpf) (n : nat) (h : heap G.Node) (tr : G.Tree) (t : option BT.node) (key : Z) : bool :=
  let want := match t with None => None | Some r => BT.get cmp FUEL key r end in
  let cost := match t with None => O | Some r => get_c cmp FUEL key r end in
  match G.Get mag FUEL n h tr key with
  | Some (n', v, b) =>
    Nat.eqb n' (n + cost) && match want with Some (_, v') => b && (v =? v') | None => negb b && (v =? 0) end
  | None => false
  end.

(* the generated iterator walks the tree the generated writers built: First / Next ... collects BT.inorder, Last / Prev ...
   its reverse (this also exercises every Parent pointer and the re-search of the separator keys) *)
Fixpoint walk (step : nat -> G.Iterator -> option (nat * G.Iterator * bool)) (gas n : nat) (h : heap G.Node) (it : G.Iterator)
  (acc : list BT.entry) : option (list BT.entry) :=
  match gas with
  | O => None
  | S g =>
    match step n it with
    | Some (n', it', true) =>
      match G.Key h it', G.Value h it' with
      | Some k, Some v => walk step g n' h it' ((k, v) :: acc)
      | _, _ => None
      end
    | Some (_, _, false) => Some (rev acc)
    | None => None
    end
  end.
Definition iter_ok (h : heap G.Node) (tr : G.Tree) (t : option BT.node) : bool :=
  let xs := match t with None => [] | Some r => BT.inorder r end in
  match G.Tree_Iterator h tr with
  | Some it0 =>
    match walk (fun n it => G.Next mag FUEL n h tr it) 200 O h it0 [],
          G.End h it0 with
    | Some fw, Some itE =>
      match walk (fun n it => G.Prev mag FUEL n h tr it) 200 O h itE [] with
      | Some bw => leq eeq fw xs && leq eeq bw (rev xs)
      | None => false
      end
    | _, _ => false
    end
  | None => false
  end.

(* one operation on both sides; None = disagreement *)
Definition step (m : nat) (cmp : cmpf) (st : option (nat * heap G.Node * G.Tree * option BT.node)) (o : op)
  : option (nat * heap G.Node * G.Tree * option BT.node) :=
  match st with
  | None => None
  | Some (n, h, tr, t) =>
    let res := match o with
               | OPut k v => (G.Put mag FUEL n h tr k v, option_map fst (BT.put m cmp FUEL (k, v) t), put_c m cmp FUEL (k, v) t, k)
               | ORemove k => (G.Remove mag FUEL n h tr k, option_map fst (BT.remove m cmp FUEL k t), remove_c m cmp FUEL k t, k)
               end in
    match res with
    | (Some (n', h', tr'), Some t', cost, k) =>
      match readroot h' tr' with
      | Some (t'', ads) =>
          if oneq t'' t' && nodupb ads && (G.Tree_size tr' =? Z.of_nat (bcount t')) && Nat.eqb n' (n + cost) &&
             get_ok cmp n' h' tr' t' k && get_ok cmp n' h' tr' t' (k + 1) && get_ok cmp n' h' tr' t' (7 - k)
          then Some (n', h', tr', t') else None
      | None => None
      end
    | _ => None
    end
  end.

Definition puts (a b : nat) : list op := map (fun i => OPut ((i * 37) mod 53 - 26) i) (map Z.of_nat (seq a b)).
Definition removes (a b : nat) : list op := map (fun i => ORemove ((i * 29) mod 59 - 29)) (map Z.of_nat (seq a b)).
(* 70 insertions with repeated keys, then 90 removals incl. absent keys; the iterator walks after each of the five phases *)
Definition phases : list (list op) := [puts 0 35; puts 35 35; removes 0 30; removes 30 30; removes 60 30].

Definition phase (m : nat) (cmp : cmpf) (st : option (nat * heap G.Node * G.Tree * option BT.node)) (ops : list op) :=
  match fold_left (step m cmp) ops st with
  | Some (n, h, tr, t) => if iter_ok h tr t then Some (n, h, tr, t) else None
  | None => None
  end.

Definition run_ok (m : nat) (c : cmp_id) : bool :=
  match G.NewWith (@empty_heap G.Node) (Z.of_nat m) (cmp_of c) with
  | Some tr0 =>
    match fold_left (phase m (cmp_of c)) phases (Some (O, @empty_heap G.Node, tr0, None)) with
    | Some _ => true
    | None => false
    end
  | None => false
  end.

(* the order check of the constructor: NewWith panics below 3 *)
Definition new_ok : bool :=
  match G.NewWith (@empty_heap G.Node) 2 (cmp_of CNat), G.New (@empty_heap G.Node) 3 with
  | None, Some tr => (G.Tree_m tr =? 3) && (G.Tree_size tr =? 0) && is_nil (G.Tree_Root tr)
  | _, _ => false
  end.

(* OBLIGATION *)
Theorem put_remove_runs_agree :
  forallb (fun m => forallb (run_ok m) [CNat; CRev; CDiv3; CAbs]) [3; 4; 5; 7]%nat = true /\ new_ok = true.
Proof. split; vm_compute; reflexivity. Qed.
Print Assumptions put_remove_runs_agree.
