(* DELETION path of trees/btree/btree.go, bottom-up pass, case MERGE WITH THE RIGHT SIBLING of the GENERATED rebalance
   (see BTreeHeapRebalanceProofs.v): no obligations. *)
From Coq Require Import ZArith List Lia Bool Arith Permutation ZifyBool ZifyNat.
From Gods Require Import Common.Cmp Model.BTree Model.BTreeCost Proofs.BTreeInd Proofs.BTreeMap.
From Gods Require Proofs.BTreeInv.
From GodsGenProofs Require Import GoCmp GoTreeHeap GoBTreeHeap BTreeHeapRep BTreeHeapReadProofs BTreeHeapInsertModel BTreeHeapRemoveModel
  BTreeHeapWriteLemmas BTreeHeapRemoveLemmas BTreeHeapRebCommon.
From GodsGen Require BTreeHeapGen.
Import ListNotations.
Local Open Scope Z_scope.

Section Step.
Variable mag : Z -> Z -> positive.
Variable m : nat.
Hypothesis H3 : (3 <= m)%nat.
Variables (h : heap G.Node) (tr : G.Tree) (a : nat) (es : list BT.entry) (cs : list pnode)
          (b : nat) (pes : list BT.entry) (ls rs : list pnode) (c : pctx) (key : Z) (f n : nat).
Hypothesis Hz : zrep h tr (PF b pes ls rs :: c) (PN a es cs).
Hypothesis Hm : G.Tree_m tr = Z.of_nat m.
Hypothesis Hwf : (length ls + length rs = length pes)%nat.
Hypothesis Hpos : fst (BT.search (G.Tree_Comparator tr) key pes) = length ls.
Hypothesis Hu : (length es < BT.minEntries m)%nat.
Hypothesis Hfuel : (search_c (G.Tree_Comparator tr) key pes <= S f)%nat.

Let sc := search_c (G.Tree_Comparator tr) key pes.
Let rb := G.mkNode (cparent c) (eptrs pes) (cptrs ls ++ Some a :: cptrs rs).

Lemma step_a : hread h a = Some (node_of (Some b) es cs).
Proof. destruct Hz as (Hrep & _). exact (rep_deref _ _ _ _ _ Hrep). Qed.
Lemma step_b : hread h b = Some rb.
Proof. destruct Hz as (_ & Hcr & _). cbn [crep paddr] in Hcr. exact (proj1 Hcr). Qed.
Lemma step_ok : heap_ok h.
Proof. destruct Hz as (_ & _ & _ & Hok & _). exact Hok. Qed.
Lemma step_nd : NoDup ((a :: flat_map addrs cs) ++ b :: flat_map addrs ls ++ flat_map addrs rs ++ caddrs c).
Proof. destruct Hz as (_ & _ & Hnd & _). exact Hnd. Qed.
Lemma step_ab : a <> b.
Proof. pose proof step_nd as H. cbn [app] in H. apply NoDup_cons_iff in H. destruct H as [H _]. intro E. apply H. apply in_or_app. right. subst. now left. Qed.

Lemma step_under : (Z.of_nat (BT.minEntries m) <=? sl_len (eptrs es)) = false.
Proof. rewrite sl_len_eptrs. lia. Qed.

(* ---------- merge with the right sibling ---------- *)
Ltac disj_contra := match goal with D : disj ?l1 ?l2, H1 : In ?x ?l1, H2 : In ?x ?l2 |- _ => exact (D x H1 H2) end.

Lemma merge_right_step : forall ar res rcs rs' sep,
  pno_bl m ls -> rs = PN ar res rcs :: rs' -> (length res <= BT.minEntries m)%nat ->
  nth_error pes (length ls) = Some sep ->
  exists hM,
    zrep hM tr c (PN b (remove_at (length ls) pes) (ls ++ PN a (es ++ sep :: res) (cs ++ rcs) :: rs')) /\
    G.rebalance mag (S f) n h tr (Some a) key =
      match (if ptr_eqb (Some b) (G.Tree_Root tr) then Some (sl_len (eptrs (remove_at (length ls) pes)) =? 0) else Some false) with
      | Some true => Some ((n + sc + sc)%nat, hset hM a (G.mkNode None (eptrs (es ++ sep :: res)) (cptrs (cs ++ rcs))),
                           G.Tree_set_Root tr (Some a))
      | Some false => match G.rebalance mag f (n + sc + sc)%nat hM tr (Some b) (fst sep) with
                      | Some (x, y, z) => Some (x, y, z) | None => None end
      | None => None
      end.
Proof.
  intros ar res rcs rs' sep Hnl Ers Hnospare Hsep.
  pose proof step_a as Ha. pose proof step_b as Hb. pose proof step_ok as Hok. pose proof step_nd as Hnd. pose proof step_ab as Hab.
  pose proof Hz as (Hrep & Hcr & _ & _ & Hroot). cbn [crep paddr cparent croot] in Hcr, Hroot. destruct Hcr as (_ & Hl & Hr & Hc).
  pose proof (rep_children _ _ _ _ _ Hrep) as Hch.
  assert (HR : rep h (Some b) (PN ar res rcs)).
  { rewrite Forall_forall in Hr. apply Hr. rewrite Ers. now left. }
  pose proof (rep_deref _ _ _ _ _ HR) as Har. unfold deref in Har. pose proof (rep_children _ _ _ _ _ HR) as Hrch.
  assert (Hr' : Forall (rep h (Some b)) rs') by (rewrite Ers in Hr; inversion Hr; assumption).
  assert (HN := Hnd). rewrite Ers in HN. nd_facts HN.
  assert (Haar : a <> ar) by nd_auto. assert (Hbar : b <> ar) by nd_auto.
  assert (Hlslt : (length ls < length pes)%nat) by (pose proof Hwf as Hwf'; rewrite Ers in Hwf'; cbn [length] in Hwf'; lia).
  assert (Hrl : forall q, In q (roots rcs) -> alloced h q).
  { intros q Hq. apply roots_in in Hq. exact (Forall_rep_alloc _ _ _ _ Hrch Hq). }
  assert (Hrna : ~ In a (roots rcs)) by (intro Hq; apply roots_in in Hq; contradiction).
  assert (Hrnb : ~ In b (roots rcs)) by (intro Hq; apply roots_in in Hq; contradiction).
  (* execution: the prefix *)
  cbn [G.rebalance]. fold (G.rebalance mag). cbn [is_nil]. unfold deref. rewrite Ha. cbn [node_of G.Node_Entries].
  rewrite (minEntries_Z h tr m Hm ltac:(lia)), step_under. cbv iota.
  rewrite (leftSibling_spec mag h tr a _ b rb pes key (S f) n Ha eq_refl Hb eq_refl Hfuel). fold sc. rewrite Hpos.
  match goal with |- context [if negb (is_nil ?LS) then ?T else Some false] =>
    assert (Hr8 : (if negb (is_nil LS) then T else Some false) = Some false) end.
  { destruct Hnl as [El|(ls' & al & les & lcs & El & Hle)]; rewrite El.
    - reflexivity.
    - rewrite app_length. cbn [length]. replace (length ls' + 1)%nat with (S (length ls')) by lia.
      assert (Enl : nth_error (G.Node_Children rb) (length ls') = Some (Some al)).
      { unfold rb. cbn [G.Node_Children]. rewrite El, cptrs_app. cbn [cptrs map]. rewrite <- app_assoc. cbn [app].
        rewrite <- (len_cptrs ls'). apply nth_error_app_mid. }
      rewrite Enl. cbn [is_nil negb paddr].
      assert (HL : rep h (Some b) (PN al les lcs)).
      { rewrite Forall_forall in Hl. apply Hl. rewrite El. apply in_or_app. right. now left. }
      pose proof (rep_deref _ _ _ _ _ HL) as Hal. unfold deref in Hal. rewrite Hal. cbn [node_of G.Node_Entries]. rewrite sl_len_eptrs.
      assert (Hsp : (Z.of_nat (BT.minEntries m) <? Z.of_nat (length les)) = false) by lia. now rewrite Hsp. }
  rewrite Hr8. cbv iota.
  rewrite (rightSibling_spec mag h tr a _ b rb pes key (S f) (n + sc)%nat Ha eq_refl Hb eq_refl Hfuel). fold sc. rewrite Hpos.
  assert (Enr : nth_error (G.Node_Children rb) (S (length ls)) = Some (Some ar)).
  { unfold rb. cbn [G.Node_Children]. rewrite Ers. cbn [cptrs map paddr]. rewrite <- (len_cptrs ls). apply nth_S_mid. }
  rewrite Enr. cbv iota beta. cbn [is_nil negb].
  rewrite Har. cbn [node_of G.Node_Entries]. rewrite sl_len_eptrs.
  assert (Hsp : (Z.of_nat (BT.minEntries m) <? Z.of_nat (length res)) = false) by lia. rewrite Hsp. cbv iota.
  replace (Z.of_nat (S (length ls)) - 1) with (Z.of_nat (length ls)) by lia.
  Ltac rd Ha Hb Har rb := repeat (progress (try hh; rewrite ?Ha, ?Hb, ?Har; try unfold rb;
    cbn [node_of G.Node_with_Entries G.Node_with_Children G.Node_with_Parent G.Node_Entries G.Node_Children G.Node_Parent])).
  rd Ha Hb Har rb.
  rewrite sl_get_nat, nth_eptrs, Hsep. cbn [option_map].
  erewrite store_hset by exact Ha. rd Ha Hb Har rb.
  erewrite store_hset by (hsimp; reflexivity). rd Ha Hb Har rb. unfold Entry_Key.
  match goal with |- context [G.deleteEntry ?H _ _ _] => set (h2 := H) end.
  assert (H2a : hread h2 a = Some (G.mkNode (Some b) ((eptrs es ++ [Some sep]) ++ eptrs res) (cptrs cs))) by (unfold h2; hsimp; reflexivity).
  assert (H2b : hread h2 b = Some rb) by (unfold h2; hsimp; exact Hb).
  assert (H2o : forall x, x <> a -> hread h2 x = hread h x) by (intros x Hxa; unfold h2; hsimp; reflexivity).
  assert (Hok2 : heap_ok h2).
  { unfold h2. apply heap_ok_hset; [apply heap_ok_hset; [exact Hok|congruence]|]. hsimp. congruence. }
  clearbody h2.
  destruct (deleteEntry_spec h2 tr b _ (length ls) H2b) as (h3 & -> & Hu3); [unfold rb; cbn [G.Node_Entries]; rewrite len_eptrs; lia|].
  unfold rb in Hu3. cbn [G.Node_Parent G.Node_Entries G.Node_Children] in Hu3. rewrite eptrs_remove_at in Hu3.
  assert (Hok3 : heap_ok h3) by (eapply hupd_ok; [exact Hu3|exact Hok2|unfold alloced; congruence]).
  hh. rewrite H2a. nsimp. hh.
  assert (Enr3 : nth_error (cptrs ls ++ Some a :: cptrs rs) (S (length ls)) = Some (Some ar)).
  { rewrite Ers. cbn [cptrs map paddr]. rewrite <- (len_cptrs ls). apply nth_S_mid. }
  rewrite sl_get_nat, nth_eptrs, Hsep. cbn [option_map].
  rewrite sl_get_nat. match goal with |- context [@nth_error ?A ?L (S (length ls))] => change (@nth_error A L (S (length ls))) with (nth_error (cptrs ls ++ Some a :: cptrs rs) (S (length ls))) end.
  rewrite Enr3.
  assert (H3a : hread h3 a = Some (G.mkNode (Some b) ((eptrs es ++ [Some sep]) ++ eptrs res) (cptrs cs))) by (hup; exact H2a).
  assert (H3r : hread h3 ar = Some (node_of (Some b) res rcs)) by (hup; rewrite H2o by neq; exact Har).
  rewrite (appendChildren_spec h3 tr ar a _ _ (roots rcs) (not_eq_sym Haar) H3a H3r).
  2:{ cbn [node_of G.Node_Children]. apply cptrs_roots. }
  2:{ intros q Hq. eapply hupd_alloced; [exact Hu3|]. unfold alloced. rewrite H2o by (intro; subst q; contradiction). now apply Hrl. }
  nsimp.
  match goal with |- context [G.deleteChild ?H _ _ _] => set (h4 := H) end.
  assert (Hal4 : forall q, In q (roots rcs) -> hread (hset h3 a (G.mkNode (Some b) ((eptrs es ++ [Some sep]) ++ eptrs res) (cptrs cs ++ map (@Some nat) (roots rcs)))) q <> None).
  { intros q Hq. apply alloced_hset. eapply hupd_alloced; [exact Hu3|]. unfold alloced. rewrite H2o by (intro; subst q; contradiction). now apply Hrl. }
  assert (H4a : hread h4 a = Some (G.mkNode (Some b) (eptrs (es ++ sep :: res)) (cptrs (cs ++ rcs)))).
  { unfold h4. rewrite (hread_setpar _ _ _ _ Hal4). rewrite (existsb_eqb_notIn _ _ Hrna). hsimp.
    rewrite cptrs_app, <- cptrs_roots. rewrite <- app_assoc. cbn [app]. now rewrite !eptrs_app. }
  assert (H4b : hread h4 b = Some (G.mkNode (cparent c) (eptrs (remove_at (length ls) pes)) (cptrs ls ++ Some a :: cptrs rs))).
  { unfold h4. rewrite (hread_setpar _ _ _ _ Hal4). rewrite (existsb_eqb_notIn _ _ Hrnb). hsimp. hup. reflexivity. }
  assert (H4q : forall q, In q (roots rcs) -> hread h4 q = option_map (G.Node_with_Parent (Some a)) (hread h q)).
  { intros q Hq. unfold h4. rewrite (hread_setpar _ _ _ _ Hal4). rewrite (proj2 (existsb_eqb_In _ _) Hq).
    assert (q <> a) by (intro; subst q; contradiction). assert (q <> b) by (intro; subst q; contradiction).
    hsimp. hup. now rewrite H2o. }
  assert (H4o : forall x, x <> a -> x <> b -> ~ In x (roots rcs) -> hread h4 x = hread h x).
  { intros x Hxa Hxb Hxr. unfold h4. rewrite (hread_setpar _ _ _ _ Hal4). rewrite (existsb_eqb_notIn _ _ Hxr). hsimp. hup. now apply H2o. }
  assert (Hok4 : heap_ok h4).
  { unfold h4. apply heap_ok_setpar. apply heap_ok_hset; [exact Hok3|congruence]. }
  clearbody h4. rewrite H4a. nsimp.
  destruct (deleteChild_spec h4 tr b _ (S (length ls)) H4b) as (h5 & -> & Hu5);
    [nsimp; rewrite app_length, len_cptrs, Ers; cbn [length cptrs map]; lia|].
  cbn [G.Node_Parent G.Node_Entries G.Node_Children] in Hu5.
  match type of Hu5 with context [@remove_at ?A ?i ?L] =>
    assert (Erm : @remove_at A i L = cptrs (ls ++ PN a (es ++ sep :: res) (cs ++ rcs) :: rs'))
      by (rewrite Ers, cptrs_app; cbn [cptrs map paddr]; rewrite <- (len_cptrs ls); apply remove_at_adj_hi) end.
  rewrite Erm in Hu5. cbv iota beta.
  assert (Hok5 : heap_ok h5) by (eapply hupd_ok; [exact Hu5|exact Hok4|unfold alloced; congruence]).
  assert (F1 : hread h5 a = Some (G.mkNode (Some b) (eptrs (es ++ sep :: res)) (cptrs (cs ++ rcs)))) by (hup; exact H4a).
  exists h5. split.
  - (* the new state *)
    assert (F5 : forall x, x <> a -> x <> b -> ~ In x (roots rcs) -> hread h5 x = hread h x) by (intros; hup; now apply H4o).
    eapply (zrep_rebuild h h5 tr b pes ls rs c (PN a es cs)); [exact Hz|exact Hok5| |exact (proj1 Hu5)| | |].
    + intros x Hx. apply F5; [intro; subst x; contradiction|intro; subst x; contradiction|].
      intro Hq. apply roots_in in Hq. disj_contra.
    + apply Forall_app. split; [|constructor].
      * eapply Forall_rep_frame; [|exact Hl]. intros x Hx. apply F5; [intro; subst x; contradiction|intro; subst x; contradiction|].
        intro Hq. apply roots_in in Hq. disj_contra.
      * apply rep_unfold. split; [exact F1|]. apply Forall_app. split.
        -- eapply Forall_rep_frame; [|exact Hch]. intros x Hx. apply F5; [intro; subst x; contradiction|intro; subst x; contradiction|].
           intro Hq. apply roots_in in Hq. disj_contra.
        -- rewrite Forall_forall in Hrch |- *. intros rc Hrc.
           assert (Hrq : In (paddr rc) (roots rcs)) by (unfold roots; now apply in_map).
           apply (rep_reparent h h5 (Some ar)); [apply (NoDup_flat_nth' rcs rc); [nd_auto|exact Hrc]|apply Hrch; exact Hrc| |].
           ++ assert (Hqb : paddr rc <> b) by (intro E; rewrite E in Hrq; contradiction).
              rewrite (proj1 (proj2 Hu5) _ Hqb). exact (H4q _ Hrq).
           ++ intros x Hx Hne. assert (Hxf : In x (flat_map addrs rcs)) by (apply in_flat_map; eauto).
              apply F5; [intro; subst x; contradiction|intro; subst x; contradiction|].
              intro Hq. apply Hne. apply (root_of_child rcs rc x); [nd_auto|exact Hrc|exact Hx|exact Hq].
      * eapply Forall_rep_frame; [|exact Hr']. intros x Hx. apply F5; [intro; subst x; contradiction|intro; subst x; contradiction|].
        intro Hq. apply roots_in in Hq. disj_contra.
    + nd_goal; try nd_auto; try exact I.
    + intros x Hx. rewrite Ers. autorewrite with ndb in Hx |- *. cbn [In] in Hx |- *. rewrite !in_app_iff in *. cbn [In] in *. rewrite ?in_app_iff in *. cbn [In] in *. first [exact Hx | clear - Hx; tauto].
  - refine (eq_trans (merge_tail mag h5 tr a b _ f (n + sc + sc)%nat (fst sep) F1 eq_refl) _).
    rewrite (proj1 Hu5). nsimp. reflexivity.
Qed.
End Step.
