(* lists/{arraylist,singlylinkedlist,doublylinkedlist}/enumerable.go (GodsGen.*EnumGen): the list is an OPAQUE receiver
   (abstract interface: Add, Iterator() = the enumeration, the literal &List{}), instantiated with the sequence
   models of Model/Lists.v (al_add / sll_add / dll_add, [indexed l], []).  Any / All / Find / Select / Map against
   Model/Machine.v existsb / forallb / find_first / select_of / map_of over the enumeration. *)
From Coq Require Import ZArith List Lia Bool Arith.
From Gods Require Import Common.Cmp Common.ListAux Spec.SeqSpec Model.Ops Model.Lists Model.Machine.
From Gods Require Import Proofs.IterLinear.
From GodsGen Require ArrayListEnumGen SinglyLinkedListEnumGen DoublyLinkedListEnumGen.
From GodsGenProofs Require Import GenIterRun WrapCommon.
Import ListNotations.
Local Open Scope Z_scope.

Lemma sll_add_one_by_one : forall xs l, fold_left (fun l x => sll_add [x] l) xs l = sll_add xs l.
Proof. induction xs as [|x xs IH]; intros l; [reflexivity|]. cbn [fold_left]. rewrite IH. reflexivity. Qed.
Lemma al_add_one_by_one : forall xs l, fold_left (fun l x => al_add [x] l) xs l = al_add xs l.
Proof.
  unfold al_add. induction xs as [|x xs IH]; intros l; cbn [fold_left]; [now rewrite app_nil_r|].
  rewrite IH, <- app_assoc. reflexivity.
Qed.

(* ====================== ArrayList ====================== *)
Module AE := ArrayListEnumGen.
Definition IA : AE.List_iface := AE.mk_List_iface (list Z) (fun l vs => (al_add vs l, tt)) indexed [].

Module AENames.
Import Coq.Strings.String.
(* OBLIGATION *)
Theorem AL_translated_functions :
  AE.translated = ["All"; "Any"; "Find"; "Map"; "Select"]%string /\ AE.skipped = ["Each"]%string /\ AE.not_selected = [].
Proof. repeat split. Qed.
Print Assumptions AL_translated_functions.
End AENames.

Section ALEnum.
Variable c : config.
Hypothesis Hk : ckind c = ArrayList.
Variable l : list Z.
Notation es := (indexed l).

(* OBLIGATION *)
Theorem AL_Any_All_equiv : forall f,
  AE.Any IA l f = existsb (fun e => f (fst e) (snd e)) es /\ AE.All IA l f = forallb (fun e => f (fst e) (snd e)) es.
Proof.
  intros f. unfold AE.Any, AE.All. cbv zeta. cbn [AE.List_Iterator_enum IA]. generalize es as xs. split.
  - induction xs as [|e xs IH]; cbn [AE.Any_loop1 existsb]; [reflexivity|]. destruct (f (fst e) (snd e)); cbn [orb]; auto.
  - induction xs as [|e xs IH]; cbn [AE.All_loop1 forallb]; [reflexivity|]. destruct (f (fst e) (snd e)); cbn [negb andb]; auto.
Qed.

(* OBLIGATION *)
Theorem AL_Find_equiv : forall p,
  AE.Find IA l (pred_eval p) = match find_first p es with Some (i, v) => (i, v) | None => (-1, 0) end.
Proof.
  intros p. unfold AE.Find, find_first. cbv zeta. cbn [AE.List_Iterator_enum IA]. generalize es as xs.
  induction xs as [|[i v] xs IH]; cbn [AE.Find_loop1 find fst snd]; [reflexivity|]. destruct (pred_eval p i v); auto.
Qed.

Lemma AL_fold_add : forall (P : Z * Z -> bool) (F : Z * Z -> Z) (body : list Z -> Z * Z -> list Z) xs r,
  (forall r kv, body r kv = if P kv then al_add [F kv] r else r) ->
  fold_left body xs r = al_add (map F (filter P xs)) r.
Proof.
  intros P F body xs r Hbody. rewrite <- al_add_one_by_one. revert r.
  induction xs as [|kv xs IH]; intros r; cbn [fold_left filter map]; [reflexivity|].
  rewrite IH, Hbody. destruct (P kv); reflexivity.
Qed.

(* OBLIGATION *)
Theorem AL_Select_equiv : forall p, StSeq (AE.Select IA l (pred_eval p)) = select_of c p es.
Proof.
  intros p. unfold AE.Select, select_of, add_values, init. rewrite Hk. cbn [is_kv]. cbv zeta.
  cbn [AE.List_T AE.List_Iterator_enum AE.List_lit_empty AE.List_Add IA].
  match goal with |- context [fold_left ?B es ?R] =>
    rewrite (AL_fold_add (fun e => pred_eval p (fst e) (snd e)) snd B es R)
      by (intros r kv; destruct (pred_eval p (fst kv) (snd kv)); reflexivity) end.
  reflexivity.
Qed.

(* OBLIGATION *)
Theorem AL_Map_equiv : forall mf, StSeq (AE.Map IA l (fun i v => snd (mapf_eval mf i v))) = map_of c mf es.
Proof.
  intros mf. unfold AE.Map, map_of, add_values, init. rewrite Hk. cbn [is_kv]. cbv zeta.
  cbn [AE.List_T AE.List_Iterator_enum AE.List_lit_empty AE.List_Add IA].
  match goal with |- context [fold_left ?B es ?R] =>
    rewrite (AL_fold_add (fun _ => true) (fun e => snd (mapf_eval mf (fst e) (snd e))) B es R) by (intros r kv; reflexivity) end.
  rewrite filter_true_pairs, map_map. reflexivity.
Qed.
End ALEnum.

Print Assumptions AL_Any_All_equiv.
Print Assumptions AL_Find_equiv.
Print Assumptions AL_Select_equiv.
Print Assumptions AL_Map_equiv.

(* ====================== SinglyLinkedList ====================== *)
Module SE := SinglyLinkedListEnumGen.
Definition IS : SE.List_iface := SE.mk_List_iface (list Z) (fun l vs => (sll_add vs l, tt)) (fun _ => ([], tt)) (fun l => l) indexed [].

Module SENames.
Import Coq.Strings.String.
(* OBLIGATION *)
Theorem SLL_translated_functions :
  SE.translated = ["All"; "Any"; "Find"; "FromJSON"; "Map"; "MarshalJSON"; "Select"; "ToJSON"; "UnmarshalJSON"]%string /\ SE.skipped = ["Each"]%string /\ SE.not_selected = [].
Proof. repeat split. Qed.
Print Assumptions SLL_translated_functions.
End SENames.

Section SLLEnum.
Variable c : config.
Hypothesis Hk : ckind c = SinglyLinkedList.
Variable l : list Z.
Notation es := (indexed l).

(* OBLIGATION *)
Theorem SLL_Any_All_equiv : forall f,
  SE.Any IS l f = existsb (fun e => f (fst e) (snd e)) es /\ SE.All IS l f = forallb (fun e => f (fst e) (snd e)) es.
Proof.
  intros f. unfold SE.Any, SE.All. cbv zeta. cbn [SE.List_Iterator_enum IS]. generalize es as xs. split.
  - induction xs as [|e xs IH]; cbn [SE.Any_loop1 existsb]; [reflexivity|]. destruct (f (fst e) (snd e)); cbn [orb]; auto.
  - induction xs as [|e xs IH]; cbn [SE.All_loop1 forallb]; [reflexivity|]. destruct (f (fst e) (snd e)); cbn [negb andb]; auto.
Qed.

(* OBLIGATION *)
Theorem SLL_Find_equiv : forall p,
  SE.Find IS l (pred_eval p) = match find_first p es with Some (i, v) => (i, v) | None => (-1, 0) end.
Proof.
  intros p. unfold SE.Find, find_first. cbv zeta. cbn [SE.List_Iterator_enum IS]. generalize es as xs.
  induction xs as [|[i v] xs IH]; cbn [SE.Find_loop1 find fst snd]; [reflexivity|]. destruct (pred_eval p i v); auto.
Qed.

Lemma SLL_fold_add : forall (P : Z * Z -> bool) (F : Z * Z -> Z) (body : list Z -> Z * Z -> list Z) xs r,
  (forall r kv, body r kv = if P kv then sll_add [F kv] r else r) ->
  fold_left body xs r = sll_add (map F (filter P xs)) r.
Proof.
  intros P F body xs r Hbody. rewrite <- sll_add_one_by_one. revert r.
  induction xs as [|kv xs IH]; intros r; cbn [fold_left filter map]; [reflexivity|].
  rewrite IH, Hbody. destruct (P kv); reflexivity.
Qed.

(* OBLIGATION *)
Theorem SLL_Select_equiv : forall p, StSeq (SE.Select IS l (pred_eval p)) = select_of c p es.
Proof.
  intros p. unfold SE.Select, select_of, add_values, init. rewrite Hk. cbn [is_kv]. cbv zeta.
  cbn [SE.List_T SE.List_Iterator_enum SE.List_lit_empty SE.List_Add IS].
  match goal with |- context [fold_left ?B es ?R] =>
    rewrite (SLL_fold_add (fun e => pred_eval p (fst e) (snd e)) snd B es R)
      by (intros r kv; destruct (pred_eval p (fst kv) (snd kv)); reflexivity) end.
  reflexivity.
Qed.

(* OBLIGATION *)
Theorem SLL_Map_equiv : forall mf, StSeq (SE.Map IS l (fun i v => snd (mapf_eval mf i v))) = map_of c mf es.
Proof.
  intros mf. unfold SE.Map, map_of, add_values, init. rewrite Hk. cbn [is_kv]. cbv zeta.
  cbn [SE.List_T SE.List_Iterator_enum SE.List_lit_empty SE.List_Add IS].
  match goal with |- context [fold_left ?B es ?R] =>
    rewrite (SLL_fold_add (fun _ => true) (fun e => snd (mapf_eval mf (fst e) (snd e))) B es R) by (intros r kv; reflexivity) end.
  rewrite filter_true_pairs, map_map. reflexivity.
Qed.
End SLLEnum.

Print Assumptions SLL_Any_All_equiv.
Print Assumptions SLL_Find_equiv.
Print Assumptions SLL_Select_equiv.
Print Assumptions SLL_Map_equiv.

(* ====================== DoublyLinkedList ====================== *)
Module DE := DoublyLinkedListEnumGen.
Definition ID : DE.List_iface := DE.mk_List_iface (list Z) (fun l vs => (dll_add vs l, tt)) (fun _ => ([], tt)) (fun l => l) indexed [].

Module DENames.
Import Coq.Strings.String.
(* OBLIGATION *)
Theorem DLL_translated_functions :
  DE.translated = ["All"; "Any"; "Find"; "FromJSON"; "Map"; "MarshalJSON"; "Select"; "ToJSON"; "UnmarshalJSON"]%string /\ DE.skipped = ["Each"]%string /\ DE.not_selected = [].
Proof. repeat split. Qed.
Print Assumptions DLL_translated_functions.
End DENames.

Section DLLEnum.
Variable c : config.
Hypothesis Hk : ckind c = DoublyLinkedList.
Variable l : list Z.
Notation es := (indexed l).

(* OBLIGATION *)
Theorem DLL_Any_All_equiv : forall f,
  DE.Any ID l f = existsb (fun e => f (fst e) (snd e)) es /\ DE.All ID l f = forallb (fun e => f (fst e) (snd e)) es.
Proof.
  intros f. unfold DE.Any, DE.All. cbv zeta. cbn [DE.List_Iterator_enum ID]. generalize es as xs. split.
  - induction xs as [|e xs IH]; cbn [DE.Any_loop1 existsb]; [reflexivity|]. destruct (f (fst e) (snd e)); cbn [orb]; auto.
  - induction xs as [|e xs IH]; cbn [DE.All_loop1 forallb]; [reflexivity|]. destruct (f (fst e) (snd e)); cbn [negb andb]; auto.
Qed.

(* OBLIGATION *)
Theorem DLL_Find_equiv : forall p,
  DE.Find ID l (pred_eval p) = match find_first p es with Some (i, v) => (i, v) | None => (-1, 0) end.
Proof.
  intros p. unfold DE.Find, find_first. cbv zeta. cbn [DE.List_Iterator_enum ID]. generalize es as xs.
  induction xs as [|[i v] xs IH]; cbn [DE.Find_loop1 find fst snd]; [reflexivity|]. destruct (pred_eval p i v); auto.
Qed.

Lemma DLL_fold_add : forall (P : Z * Z -> bool) (F : Z * Z -> Z) (body : list Z -> Z * Z -> list Z) xs r,
  (forall r kv, body r kv = if P kv then dll_add [F kv] r else r) ->
  fold_left body xs r = dll_add (map F (filter P xs)) r.
Proof.
  intros P F body xs r Hbody. rewrite <- sll_add_one_by_one. revert r.
  induction xs as [|kv xs IH]; intros r; cbn [fold_left filter map]; [reflexivity|].
  rewrite IH, Hbody. destruct (P kv); reflexivity.
Qed.

(* OBLIGATION *)
Theorem DLL_Select_equiv : forall p, StSeq (DE.Select ID l (pred_eval p)) = select_of c p es.
Proof.
  intros p. unfold DE.Select, select_of, add_values, init. rewrite Hk. cbn [is_kv]. cbv zeta.
  cbn [DE.List_T DE.List_Iterator_enum DE.List_lit_empty DE.List_Add ID].
  match goal with |- context [fold_left ?B es ?R] =>
    rewrite (DLL_fold_add (fun e => pred_eval p (fst e) (snd e)) snd B es R)
      by (intros r kv; destruct (pred_eval p (fst kv) (snd kv)); reflexivity) end.
  reflexivity.
Qed.

(* OBLIGATION *)
Theorem DLL_Map_equiv : forall mf, StSeq (DE.Map ID l (fun i v => snd (mapf_eval mf i v))) = map_of c mf es.
Proof.
  intros mf. unfold DE.Map, map_of, add_values, init. rewrite Hk. cbn [is_kv]. cbv zeta.
  cbn [DE.List_T DE.List_Iterator_enum DE.List_lit_empty DE.List_Add ID].
  match goal with |- context [fold_left ?B es ?R] =>
    rewrite (DLL_fold_add (fun _ => true) (fun e => snd (mapf_eval mf (fst e) (snd e))) B es R) by (intros r kv; reflexivity) end.
  rewrite filter_true_pairs, map_map. reflexivity.
Qed.
End DLLEnum.

Print Assumptions DLL_Any_All_equiv.
Print Assumptions DLL_Find_equiv.
Print Assumptions DLL_Select_equiv.
Print Assumptions DLL_Map_equiv.
