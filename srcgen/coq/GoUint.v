(* Go's unsigned int (uint, 64 bits) in translated code (hand-written once; see /verif/srcgen/loops.go): a Z that is
   never negative.  Addition and subtraction WRAP AROUND modulo 2^64, as in Go (`numOfBits(0) - 1` is 2^64 - 1, not -1).
   A shift of a (signed, unbounded Z) int by an unsigned count: as Z.shiftl / Z.shiftr while the count is below the
   width 64, and 0 (for >>: the sign, 0 or -1) from there on -- Go's rule for counts that reach the width.  (Overflow of
   the signed result is, as everywhere in this translation, not modelled.) *)
From Coq Require Import ZArith.
Local Open Scope Z_scope.

Definition width : Z := 64.
Definition modulus : Z := 2 ^ width.
Definition add (a b : Z) : Z := (a + b) mod modulus.
Definition sub (a b : Z) : Z := (a - b) mod modulus.
Definition shl (x count : Z) : Z := if count <? width then Z.shiftl x count else 0.
Definition shr (x count : Z) : Z := if count <? width then Z.shiftr x count else (if x <? 0 then -1 else 0).
