(* Hand-written support for the B-TREE EXTENSIONS of the tree pointer mode of srcgen (btreeheap.go): Go slices of
   pointers as LISTS and entries as PAIRS.

   - an `*Entry[K, V]` is an [option (Z * Z)] (nil = None): entries are immutable after their creation and their
     identity is never observed in the translated functions (the translator refuses assignments to their fields and
     comparisons of entry pointers), so the pair is all there is to know;
   - a `[]*Entry` / `[]*Node` is a list (nil slice = empty list: the two are not distinguished, `s == nil` is refused).
     Capacities and the sharing of backing arrays are NOT modelled.  Everything that panics in Go is None:
     an index outside 0 .. len-1, a slice expression s[lo:hi] unless 0 <= lo <= hi <= len (Go allows hi up to the
     capacity: not modelled);
   - copy(dst[lo:hi], src) copies min(hi - lo, len src) elements of the VALUE src (Go's copy is a memmove: the result
     for overlapping slices is that of copying a snapshot). *)
From Coq Require Import ZArith List Bool Arith Lia.
Import ListNotations.
Local Open Scope Z_scope.

Definition Entry_Key (e : Z * Z) : Z := fst e.
Definition Entry_Value (e : Z * Z) : Z := snd e.

Section Slices.
Context {A : Type}.

Definition sl_len (l : list A) : Z := Z.of_nat (length l).

(* s[i] *)
Definition sl_get (l : list A) (i : Z) : option A :=
  if i <? 0 then None else nth_error l (Z.to_nat i).

(* s[i] = x *)
Definition sl_set (l : list A) (i : Z) (x : A) : option (list A) :=
  if (i <? 0) || (sl_len l <=? i) then None
  else Some (firstn (Z.to_nat i) l ++ x :: skipn (S (Z.to_nat i)) l).

(* s[lo:hi] *)
Definition sl_slice (l : list A) (lo hi : Z) : option (list A) :=
  if (0 <=? lo) && (lo <=? hi) && (hi <=? sl_len l)
  then Some (firstn (Z.to_nat (hi - lo)) (skipn (Z.to_nat lo) l))
  else None.

(* copy(s[lo:hi], src): the new value of s *)
Definition sl_copy (l : list A) (lo hi : Z) (src : list A) : option (list A) :=
  if (0 <=? lo) && (lo <=? hi) && (hi <=? sl_len l)
  then let n := Nat.min (Z.to_nat (hi - lo)) (length src) in
       Some (firstn (Z.to_nat lo) l ++ firstn n src ++ skipn (Z.to_nat lo + n) l)
  else None.

Lemma sl_get_nat : forall l (i : nat), sl_get l (Z.of_nat i) = nth_error l i.
Proof.
  intros l i. unfold sl_get. destruct (Z.ltb_spec (Z.of_nat i) 0); [lia|]. now rewrite Nat2Z.id.
Qed.

Lemma sl_get_Some : forall l i x, sl_get l i = Some x -> 0 <= i < sl_len l /\ nth_error l (Z.to_nat i) = Some x.
Proof.
  intros l i x H. unfold sl_get in H. destruct (Z.ltb_spec i 0); [discriminate|]. split; [|exact H].
  assert (Hn : (Z.to_nat i < length l)%nat) by (apply nth_error_Some; congruence). unfold sl_len. lia.
Qed.

Lemma sl_get_None : forall l i, sl_get l i = None <-> (i < 0 \/ sl_len l <= i).
Proof.
  intros l i. unfold sl_get, sl_len. destruct (Z.ltb_spec i 0); [split; auto|].
  rewrite nth_error_None. split; intro; [right|]; lia.
Qed.

Lemma sl_slice_all : forall l, sl_slice l 0 (sl_len l) = Some l.
Proof.
  intros l. unfold sl_slice, sl_len.
  replace ((0 <=? 0) && (0 <=? Z.of_nat (length l)) && (Z.of_nat (length l) <=? Z.of_nat (length l))) with true
    by (symmetry; rewrite !andb_true_iff, !Z.leb_le; lia).
  rewrite Z.sub_0_r, Nat2Z.id. cbn [Z.to_nat skipn]. now rewrite firstn_all.
Qed.
End Slices.
