(* The GENERATED POINTER CODE of trees/redblacktree/redblacktree.go (GodsGen.RedBlackTreeHeapGen) packaged as the functions the
   tree-backed wrappers (treemap, treeset) expect from their abstract red-black tree interface: the tree state is
   (comparator-call counter, heap of Node records, Tree header), or None after a panic / fuel exhaustion; every function runs the
   generated one with fuel 3 * size + 6 computed from the header.  [R] relates such a pointer state to the state of the MODEL
   instantiation used in TreeMapGenProofs.v / TreeSetGenProofs.v (comparator, option (RB.tree * size)): the heap represents the
   model tree (RBTreeHeapRep.tree_repr), the tree is red-black, size = count.  Every mutator preserves R and every observer answers as
   the model.  No obligation here: the lemmas are used by TreeMapOverHeapProofs.v and TreeSetOverHeapProofs.v. *)
From Coq Require Import ZArith List Lia Bool Arith.
From Gods Require Import Common.Cmp Common.ListAux Model.Ops Model.Machine Model.RBTree Proofs.RBInv.
From GodsGen Require RedBlackTreeHeapGen.
From GodsGenProofs Require Import GenIterRun GoCmp GoTreeHeap RBTreeHeapRep.
From GodsGenProofs Require Import RedBlackTreeHeapReadProofs RedBlackTreeHeapKeysProofs RedBlackTreeHeapInsertProofs RedBlackTreeHeapRemoveProofs.
Import ListNotations.
Local Open Scope Z_scope.

Definition pstate := option (nat * heap G.Node * G.Tree).
Definition mstate := (cmpf * option rbs)%type.
Definition fuel_of (tr : G.Tree) : nat := (3 * Z.to_nat (G.Tree_size tr) + 6)%nat.
(* a *Node result as the wrappers see it: nil, or the key and value read from the heap *)
Definition node_at (h : heap G.Node) (p : ptr) : GoCmp.node :=
  match deref h p with Some nd => Some (G.Node_Key nd, G.Node_Value nd) | None => None end.
Definition on_p {A} (s : pstate) (d : A) (f : nat -> heap G.Node -> G.Tree -> A) : A :=
  match s with Some (n, h, tr) => f n h tr | None => d end.

Section Ops.
Variable mag : Z -> Z -> positive.
Definition p_Ceiling (s : pstate) (k : Z) : GoCmp.node * bool := on_p s (None, false) (fun n h tr =>
  match G.Ceiling mag (fuel_of tr) n h tr k with Some (_, p, b) => (node_at h p, b) | None => (None, false) end).
Definition p_Floor (s : pstate) (k : Z) : GoCmp.node * bool := on_p s (None, false) (fun n h tr =>
  match G.Floor mag (fuel_of tr) n h tr k with Some (_, p, b) => (node_at h p, b) | None => (None, false) end).
Definition p_Clear (s : pstate) : pstate * unit :=
  (on_p s None (fun n h tr => match G.Clear h tr with Some tr' => Some (n, h, tr') | None => None end), tt).
Definition p_Empty (s : pstate) : bool := on_p s true (fun _ h tr => match G.Empty h tr with Some b => b | None => true end).
Definition p_Get (s : pstate) (k : Z) : Z * bool := on_p s (0, false) (fun n h tr =>
  match G.Get mag (fuel_of tr) n h tr k with Some (_, v, b) => (v, b) | None => (0, false) end).
Definition p_Keys (s : pstate) : list Z := on_p s [] (fun _ h tr => match G.Keys (fuel_of tr) h tr with Some l => l | None => [] end).
Definition p_Values (s : pstate) : list Z := on_p s [] (fun _ h tr => match G.Values (fuel_of tr) h tr with Some l => l | None => [] end).
Definition p_Left (s : pstate) : GoCmp.node := on_p s None (fun _ h tr => match G.Left (fuel_of tr) h tr with Some p => node_at h p | None => None end).
Definition p_Right (s : pstate) : GoCmp.node := on_p s None (fun _ h tr => match G.Right (fuel_of tr) h tr with Some p => node_at h p | None => None end).
Definition p_Put (s : pstate) (k v : Z) : pstate * unit := (on_p s None (fun n h tr => G.Put mag (fuel_of tr) n h tr k v), tt).
Definition p_Remove (s : pstate) (k : Z) : pstate * unit := (on_p s None (fun n h tr => G.Remove mag (fuel_of tr) n h tr k), tt).
Definition p_Size (s : pstate) : Z := on_p s 0 (fun _ h tr => match G.Tree_Size h tr with Some z => z | None => 0 end).
Definition p_Comparator (s : pstate) : GoCmp.comparator := on_p s GoCmp.compare (fun _ _ tr => G.Tree_Comparator tr).
Definition p_New : pstate := match G.New empty_heap with Some tr => Some (O, empty_heap, tr) | None => None end.
Definition p_NewWith (cmp : GoCmp.comparator) : pstate := match G.NewWith empty_heap cmp with Some tr => Some (O, empty_heap, tr) | None => None end.
End Ops.

(* the pointer state represents the model's state *)
Definition R (ps : pstate) (ms : mstate) : Prop :=
  exists n h tr t, ps = Some (n, h, tr) /\ ms = (G.Tree_Comparator tr, Some (t, G.Tree_size tr)) /\
    tree_repr h tr t /\ heap_ok h /\ RBInv.rbt t /\ G.Tree_size tr = Z.of_nat (RB.count t).

(* the model side of the mutators, as in TreeMapGenProofs.upd_tree / TreeSetGenProofs.upd_tree *)
Definition m_upd (s : mstate) (f : cmpf -> rbs -> option rbs) : mstate := (fst s, match snd s with Some r => f (fst s) r | None => None end).

Lemma node_at_is : forall h p o, node_is h p o -> node_at h p = o.
Proof.
  intros h p [[k v]|] H; unfold node_at.
  - destruct H as (nd & -> & <- & <-). reflexivity.
  - cbn in H. subst p. reflexivity.
Qed.

Lemma fuel_ok : forall tr t, G.Tree_size tr = Z.of_nat (RB.count t) ->
  (3 * RB.height t + 3 <= fuel_of tr)%nat /\ (RB.count t + RB.height t < fuel_of tr)%nat /\ (RB.height t < fuel_of tr)%nat.
Proof. intros tr t H. unfold fuel_of. rewrite H, Nat2Z.id. pose proof (height_le_count t). lia. Qed.

Section Rel.
Variable mag : Z -> Z -> positive.
Variables (ps : pstate) (ms : mstate).
Hypothesis HR : R ps ms.

Lemma Put_rel : forall k v, R (fst (p_Put mag ps k v)) (m_upd ms (fun cmp r => rbs_put cmp k v r)).
Proof.
  intros k v. destruct HR as (n & h & tr & t & -> & -> & Hrepr & Hok & Hrbt & Hsz).
  unfold p_Put, m_upd. cbn -[G.Put fuel_of RB.put]. destruct (RBInv.put_rbt (G.Tree_Comparator tr) k v t Hrbt) as (t' & b & Hput & Hrbt').
  destruct (Put_correct mag h tr t k v (fuel_of tr) n t' b Hrepr Hok Hput (proj1 (fuel_ok tr t Hsz))) as (h1 & tr1 & Hrun & Hrepr1 & Hok1 & Hsz1 & Hcmp1 & _).
  rewrite Hrun. unfold rbs_put. cbn [fst snd]. rewrite Hput. pose proof (put_count _ _ _ _ _ _ Hput) as Hc.
  exists (n + RB.put_cost (G.Tree_Comparator tr) k t)%nat, h1, tr1, t'. rewrite Hcmp1. split; [reflexivity|]. split; [rewrite Hsz1; destruct b; f_equal; f_equal; f_equal; lia|].
  split; [exact Hrepr1|]. split; [exact Hok1|]. split; [exact Hrbt'|]. rewrite Hsz1, Hsz, Hc. destruct b; lia.
Qed.

Lemma Remove_rel : forall k, R (fst (p_Remove mag ps k)) (m_upd ms (fun cmp r => rbs_remove cmp k r)).
Proof.
  intros k. destruct HR as (n & h & tr & t & -> & -> & Hrepr & Hok & Hrbt & Hsz).
  unfold p_Remove, m_upd. cbn -[G.Remove fuel_of RB.remove]. destruct (RBInv.remove_rbt (G.Tree_Comparator tr) k t Hrbt) as (t' & b & Hrem & Hrbt').
  destruct (Remove_correct mag h tr t k (fuel_of tr) n t' b Hrepr Hok (proj1 Hrbt) Hrem (proj1 (fuel_ok tr t Hsz))) as (h1 & tr1 & Hrun & Hrepr1 & Hok1 & Hsz1 & Hcmp1 & _).
  rewrite Hrun. unfold rbs_remove. cbn [fst snd]. rewrite Hrem. pose proof (remove_count _ _ _ _ _ Hrem) as Hc.
  exists (n + RB.remove_cost (G.Tree_Comparator tr) k t)%nat, h1, tr1, t'. rewrite Hcmp1. split; [reflexivity|]. split; [rewrite Hsz1; destruct b; f_equal; f_equal; f_equal; lia|].
  split; [exact Hrepr1|]. split; [exact Hok1|]. split; [exact Hrbt'|]. rewrite Hsz1, Hsz. destruct b; lia.
Qed.

Lemma Clear_rel : R (fst (p_Clear ps)) (m_upd ms (fun _ _ => Some rbs_empty)).
Proof.
  destruct HR as (n & h & tr & t & -> & -> & Hrepr & Hok & Hrbt & Hsz).
  unfold p_Clear, m_upd. cbn. exists n, h, (G.Tree_set_size (G.Tree_set_Root tr None) 0), RB.E. split; [reflexivity|]. split; [reflexivity|].
  split; [exists PE; split; [reflexivity|]; split; [reflexivity|]; split; [exact I|constructor]|]. split; [exact Hok|]. split; [exact RBInv.rbt_E|reflexivity].
Qed.

(* the observers answer as the model: ms = (cmp, Some (t, n)) *)
Lemma observers_rel : exists t n, ms = (p_Comparator ps, Some (t, n)) /\ forall k,
  p_Get mag ps k = opt_pair (rbs_get (fst ms) k (t, n)) /\ p_Size ps = n /\ p_Empty ps = (n =? 0) /\
  p_Keys ps = RB.keys t /\ p_Values ps = RB.values t /\ p_Left ps = RB.leftmost t /\ p_Right ps = RB.rightmost t /\
  p_Floor mag ps k = (RB.floor (fst ms) k t, node_nonnil (RB.floor (fst ms) k t)) /\
  p_Ceiling mag ps k = (RB.ceiling (fst ms) k t, node_nonnil (RB.ceiling (fst ms) k t)).
Proof.
  destruct HR as (n & h & tr & t & -> & -> & Hrepr & Hok & Hrbt & Hsz). exists t, (G.Tree_size tr). split; [reflexivity|]. intro k.
  destruct (fuel_ok tr t Hsz) as (F1 & F2 & F3).
  unfold p_Get, p_Size, p_Empty, p_Keys, p_Values, p_Left, p_Right, p_Floor, p_Ceiling.
  cbn -[RB.floor RB.ceiling RB.leftmost RB.rightmost RB.lookup RB.keys RB.values G.Get G.Floor G.Ceiling G.Left G.Right G.Keys G.Values G.Tree_Size G.Empty fuel_of].
  rewrite (Get_correct mag h tr t k (fuel_of tr) n Hrepr F3).
  destruct (Size_Empty_correct h tr t Hsz) as (S1 & S2). rewrite S1, S2.
  destruct (Keys_Values_correct h tr t (fuel_of tr) Hrepr Hsz F2) as (K1 & K2). rewrite K1, K2.
  destruct (Left_Right_correct h tr t (fuel_of tr) Hrepr F3) as ((pl & L1 & L2) & (pr & R1 & R2)). rewrite L1, R1, (node_at_is _ _ _ L2), (node_at_is _ _ _ R2).
  destruct (Floor_correct mag h tr t k (fuel_of tr) n Hrepr F3) as (pf & Fl1 & Fl2). rewrite Fl1, (node_at_is _ _ _ Fl2).
  destruct (Ceiling_correct mag h tr t k (fuel_of tr) n Hrepr F3) as (pc & C1 & C2). rewrite C1, (node_at_is _ _ _ C2).
  unfold rbs_get. cbn [fst snd].
  repeat split.
  - destruct (RB.lookup (G.Tree_Comparator tr) k t) as [[k' v']|]; reflexivity.
  - now rewrite Hsz.
  - rewrite Hsz. destruct t; reflexivity.
Qed.
End Rel.

Lemma NewWith_rel : forall cmp, R (p_NewWith cmp) (cmp, Some rbs_empty).
Proof.
  intros cmp. exists O, empty_heap, (G.mkTree None 0 cmp), RB.E. split; [reflexivity|]. split; [reflexivity|].
  split; [exists PE; split; [reflexivity|]; split; [reflexivity|]; split; [exact I|constructor]|]. split; [apply heap_ok_empty|]. split; [exact RBInv.rbt_E|reflexivity].
Qed.
