(* lists/singlylinkedlist/iterator.go regenerated in POINTER MODE (GodsGen.SinglyLinkedListIterGen: the iterator is
   (index, ADDRESS of the current cell), every method is in the option monad, it reads the list through the heap of
   cells and calls the generated withinRange of GodsGen.SinglyLinkedListCellsGen) against the linked iterator of
   Model/Iter.v (ll_next, ll_begin, ll_cur: index and POSITION of the current cell), which Machine.run_iter runs for
   kind SinglyLinkedList.  For every heap that represents a sequence (repr_al of Proofs/LinkedCellsProofs.v, the
   addresses of the cells exposed): each generated method simulates the model's (same result, related states, and it
   fails -- nil dereference -- exactly when the model does); the fuelled NextTo loop is Iter.move_to; corollary: every
   script run by the generated functions from the generated Iterator() is run_iter = the C08 cursor over the values. *)
From Coq Require Import ZArith List Lia Bool Arith.
From Gods Require Import Common.Cmp Common.ListAux Spec.SeqSpec Model.Ops Model.Lists Model.LinkedCells Model.Iter Model.Machine.
From Gods Require Import Proofs.C03Proofs Proofs.LinkedCellsProofs Proofs.IterLinear.
From GodsGen Require SinglyLinkedListCellsGen SinglyLinkedListIterGen.
From GodsGenProofs Require Import GenIterRunRel LinkedIterCommon.
Import ListNotations.
Local Open Scope Z_scope.

Module S := SinglyLinkedListCellsGen.
Module I := SinglyLinkedListIterGen.

Module Names.
Import Coq.Strings.String.
(* OBLIGATION *)
Theorem translated_functions :
  I.translated = ["Begin"; "First"; "Index"; "List_Iterator"; "Next"; "NextTo"; "Value"]%string /\ I.skipped = [] /\ I.not_selected = [].
Proof. repeat split. Qed.
Print Assumptions translated_functions.
End Names.

(* ---------- the generated methods in closed form (for every heap, well-formed or not) ---------- *)
(* OBLIGATION *)
Theorem Next_spec : forall it d, I.Next it d =
  let i' := if I.index it <? lsize d then I.index it + 1 else I.index it in
  if negb (c_within d i') then Some (I.mkIterator i' None, false)
  else if i' =? 0 then Some (I.mkIterator i' (lfirst d), true)
  else match deref (lheap d) (I.element it) with
       | None => None
       | Some c => Some (I.mkIterator i' (cnext c), true)
       end.
Proof.
  intros [i e] d. unfold I.Next, S.withinRange, c_within, I.set_index, I.set_element. cbn [I.index I.element].
  destruct (i <? lsize d); cbn [I.index I.element];
    (destruct ((0 <=? _) && (_ <? lsize d)); cbn [negb]; [|reflexivity]);
    (destruct (_ =? 0); [reflexivity|]); destruct (deref (lheap d) e); reflexivity.
Qed.
Print Assumptions Next_spec.

(* OBLIGATION *)
Theorem simple_specs : forall it d,
  I.Value it d = match deref (lheap d) (I.element it) with Some c => Some (cval c) | None => None end /\
  I.Index it = Some (I.index it) /\ I.Begin it = Some (I.mkIterator (-1) None, tt) /\
  I.List_Iterator d = Some (I.mkIterator (-1) None) /\
  I.First it d = I.Next (I.mkIterator (-1) None) d.
Proof.
  intros [i e] d. repeat split. unfold I.First. cbn [I.Begin I.set_index I.set_element I.index I.element].
  destruct (I.Next _ d) as [[it' b]|]; reflexivity.
Qed.
Print Assumptions simple_specs.

Section WithList.
Variable d : llist.
Variable al : list nat.
Variable l : list Z.
Hypothesis Hrep : repr_al false d al l.

Definition R (it : I.Iterator) (s : Z * Iter.cell) : Prop := irel al l (I.index it) (I.element it) s.
Notation St := (Z * Iter.cell)%type.

Let Hsize : lsize d = zlen l := proj1 (repr_al_header _ _ _ _ Hrep).
Let Hlen : length al = length l := proj1 (proj2 (repr_al_header _ _ _ _ Hrep)).
Let Hfirst : lfirst d = nth_error al 0 := proj1 (proj2 (proj2 (repr_al_header _ _ _ _ Hrep))).

Lemma within_c : forall i, c_within d i = within i l.
Proof. intros i. unfold c_within, within. now rewrite Hsize. Qed.

(* OBLIGATION: Next simulates ll_next (and dereferences nil exactly when the model does) *)
Theorem Next_sim : step_sim I.Iterator St R (fun it => I.Next it d) (ll_next l).
Proof.
  intros [i e] [i0 c] (Hi & Hr & Hv & He). cbn [fst snd I.index I.element] in *. subst i0.
  rewrite Next_spec. unfold ll_next. cbn [I.index I.element]. cbv zeta. rewrite Hsize. unfold ln.
  set (i' := if i <? zlen l then i + 1 else i).
  assert (Hr' : -1 <= i' <= zlen l) by (unfold i'; destruct (i <? zlen l) eqn:E; lia).
  rewrite within_c. destruct (within i' l) eqn:W; cbn [negb].
  - assert (Hw : 0 <= i' < zlen l) by (unfold within in W; lia).
    destruct (i' =? 0) eqn:E0.
    + cbn [sim_res]. split; [|reflexivity]. unfold R, irel. cbn [I.index I.element fst snd].
      assert (Hne : l <> []) by (intros ->; unfold zlen in Hw; cbn in Hw; lia).
      unfold first_cell. destruct l as [|x t]; [congruence|]. cbn [cell_valid addr_of].
      repeat split; try lia; [rewrite Hlen; cbn [length]; lia|exact Hfirst].
    + destruct c as [j|]; cbn [addr_of cell_valid] in *.
      * destruct (nth_error al j) as [a|] eqn:Ea; [|apply nth_error_None in Ea; lia].
        destruct (cell_at _ _ _ _ _ _ Hrep Ea) as (cc & Hc & _ & Hn & _).
        subst e. cbn [deref]. rewrite Hc. cbn [sim_res]. split; [|reflexivity].
        unfold R, irel, cell_next. cbn [I.index I.element fst snd]. unfold ln.
        destruct (Z.of_nat j + 1 <? zlen l) eqn:E1; cbn [cell_valid addr_of].
        -- repeat split; try lia; [unfold zlen in E1; rewrite Hlen; lia|exact Hn].
        -- repeat split; try lia. rewrite Hn. apply nth_error_None. unfold zlen in E1. lia.
      * subst e. cbn [deref sim_res]. exact I.
  - cbn [sim_res]. split; [|reflexivity]. unfold R, irel. cbn [I.index I.element fst snd cell_valid addr_of]. repeat split; lia.
Qed.

(* OBLIGATION: Index / Value read what ll_cur reads; Value fails exactly when the current cell is nil *)
Theorem Value_sim : cur_sim I.Iterator St R (fun _ => True) I.Index (fun it => I.Value it d) (ll_cur l).
Proof.
  intros [i e] [i0 c] (Hi & Hr & Hv & He) _. cbn [fst snd I.index I.element] in *. subst i0.
  unfold ll_cur. cbn [fst snd]. destruct c as [j|]; cbn [addr_of cell_valid] in *.
  - destruct (nth_error al j) as [a|] eqn:Ea; [|apply nth_error_None in Ea; lia].
    destruct (cell_at _ _ _ _ _ _ Hrep Ea) as (cc & Hc & Hval & _). rewrite Hval.
    split; [reflexivity|]. unfold I.Value. cbn [I.element]. subst e. cbn [deref]. now rewrite Hc.
  - right. subst e. reflexivity.
Qed.

(* OBLIGATION *)
Theorem Begin_sim : jump_sim I.Iterator St R I.Begin ll_begin.
Proof.
  intros it s _. eexists. split; [reflexivity|]. unfold R, irel, ll_begin, I.set_index, I.set_element. cbn [I.index I.element fst snd cell_valid addr_of].
  pose proof (Zle_0_nat (length l)). unfold zlen. repeat split; lia.
Qed.

(* OBLIGATION *)
Theorem First_sim : forall it s, R it s -> sim_res I.Iterator St R (I.First it d) (ll_next l (ll_begin s)).
Proof.
  intros it s HR. rewrite (proj2 (proj2 (proj2 (proj2 (simple_specs it d))))).
  destruct (Begin_sim it s HR) as (it' & E & HR'). injection E as <-. exact (Next_sim _ _ HR').
Qed.

(* the fuelled loop of NextTo *)
Lemma NextTo_unfold : forall fuel it f, I.NextTo_loop1 fuel it d f =
  match I.Next it d with
  | None => None
  | Some (it1, r1) =>
    if r1 then
      match fuel with
      | O => None
      | S fuel' =>
        match I.Index it1 with
        | None => None
        | Some i =>
          match I.Value it1 d with
          | None => None
          | Some v => if f i v then Some (Some (it1, true), it1) else I.NextTo_loop1 fuel' it1 d f
          end
        end
      end
    else Some (None, it1)
  end.
Proof. intros fuel it f. destruct fuel; cbn [I.NextTo_loop1]; destruct (I.Next it d) as [[it1 [|]]|]; reflexivity. Qed.

(* OBLIGATION: NextTo (its own fuel: size + 1) is Iter.move_to with the machine's fuel (size + 2) *)
Theorem NextTo_sim : forall p it s, R it s ->
  sim_res I.Iterator St R (I.NextTo it d (pred_eval p)) (move_to St (ll_cur l) (ll_next l) p (S (S (Z.to_nat (zlen l)))) s).
Proof.
  intros p it s HR.
  replace (I.NextTo it d (pred_eval p)) with (finish I.Iterator (I.NextTo_loop1 (S (Z.to_nat (lsize d))) it d (pred_eval p)))
    by (unfold I.NextTo, finish; destruct (I.NextTo_loop1 _ it d _) as [[[r|] it']|]; reflexivity).
  assert (HT : forall s0 s1, ll_next l s0 = Some (s1, true) -> (Z.to_nat (zlen l - 1 - fst s1) < Z.to_nat (zlen l - 1 - fst s0))%nat)
    by (intros s0 s1 H; destruct (ll_next_true l s0 s1 H); lia).
  pose proof (loop_sim I.Iterator St R (fun _ => True) (fun it => I.Next it d) I.Index (fun it => I.Value it d) (ll_next l) (ll_cur l)
           (fun s => Z.to_nat (zlen l - 1 - fst s)) Next_sim Value_sim (fun _ _ _ => Logic.I) HT (fun fuel it f => I.NextTo_loop1 fuel it d f) NextTo_unfold
           p (S (Z.to_nat (lsize d))) (S (S (Z.to_nat (zlen l)))) it s HR) as H.
  cbn beta in H. destruct HR as (Hi & Hr & _). apply H; [rewrite Hsize|]; lia.
Qed.

Definition gen_iter_script (it : I.Iterator) (cs : list icall) : list obs :=
  gen_script I.Iterator (fun it => I.Next it d) (fun _ => None) (fun it => I.First it d) (fun _ => None)
    I.Begin (fun _ => None) I.Index (fun it => I.Value it d) (fun it f => I.NextTo it d f) (fun _ _ => None) false it cs.

(* OBLIGATION: every script, run by the generated functions on the generated Iterator() of a list that represents l,
   is the machine's run_iter for kind SinglyLinkedList = the C08 cursor over l; in particular it never dereferences
   nil and never runs out of fuel where the model does not *)
Theorem gen_iter_is_cursor : forall c cs it0, ckind c = SinglyLinkedList -> I.List_Iterator d = Some it0 ->
  gen_iter_script it0 cs = run_iter c (StSeq l) cs /\
  gen_iter_script it0 cs = cursor_script (indexed l) false cs.
Proof.
  intros c cs it0 Hk H0. injection H0 as <-.
  assert (E : gen_iter_script (I.mkIterator (-1) None) cs = run_iter c (StSeq l) cs).
  { unfold run_iter, script_fuel. cbn [size_of]. rewrite Hk. unfold gen_iter_script.
    apply (gen_script_is_run_script I.Iterator St R (fun _ => True)).
    - exact Next_sim.
    - intros; exact Logic.I.
    - intros; exact Logic.I.
    - exact Begin_sim.
    - exact First_sim.
    - exact Value_sim.
    - exact NextTo_sim.
    - discriminate.
    - discriminate.
    - discriminate.
    - discriminate.
    - unfold R, irel. cbn [I.index I.element fst snd cell_valid addr_of]. pose proof (Zle_0_nat (length l)). unfold zlen. repeat split; lia. }
  split; [exact E|]. rewrite E, (iter_SinglyLinkedList c l cs Hk). unfold values_of. now rewrite Hk.
Qed.
End WithList.

Print Assumptions Next_sim.
Print Assumptions Value_sim.
Print Assumptions Begin_sim.
Print Assumptions First_sim.
Print Assumptions NextTo_sim.
Print Assumptions gen_iter_is_cursor.

(* ---------- on every list reached by the GENERATED list operations ---------- *)
From GodsGenProofs Require SinglyLinkedListCellsProofs.

(* OBLIGATION: after any run of the generated Add / Append / Prepend / Insert / Set / Remove / Swap / Clear from the
   generated New(), every script run by the generated iterator functions is the C08 cursor over the sequence-level
   content *)
Theorem gen_iter_reachable : forall ops c cs, ckind c = SinglyLinkedList ->
  exists d it0, SinglyLinkedListCellsProofs.gen_run ops = Some d /\ I.List_Iterator d = Some it0 /\
    gen_iter_script d it0 cs = cursor_script (indexed (seq_run (map SinglyLinkedListCellsProofs.to_op ops))) false cs.
Proof.
  intros ops c cs Hk. destruct (SinglyLinkedListCellsProofs.gen_cells_run_ok ops) as [_ (d & Hd & (al & Hrep))].
  exists d, (I.mkIterator (-1) None). split; [exact Hd|]. split; [reflexivity|].
  exact (proj2 (gen_iter_is_cursor d al _ Hrep c cs _ Hk eq_refl)).
Qed.
Print Assumptions gen_iter_reachable.
