(* READ PATHS of trees/avltree/avltree.go in TREE POINTER MODE (GodsGen.AVLTreeHeapGen: heap of Node records with the
   `Children [2]*Node` array, comparator CALLS counted in ncmp, loops on explicit fuel) against the functional model
   Model/AVLTree.v, for EVERY heap h, tree header tr, model tree t with [tree_repr h tr t] (AVLTreeHeapRep.v), every key,
   comparator, magnitude function and every fuel above the height of t:
     GetNode / Get = AVL.lookup, Floor / Ceiling = AVL.floor / AVL.ceiling, Left / Right (bottom(0) / bottom(1)) =
     AVL.leftmost / AVL.rightmost, Node.Size = AVL.count, comparator calls = AVL.lookup_cost (C07); never None.
   The readers do not return a heap ([readers_signature]). *)
From Coq Require Import ZArith List Lia Bool Arith ZifyBool ZifyNat.
From Gods Require Import Common.Cmp Model.AVLTree.
From GodsGenProofs Require Import GoCmp GoTreeHeap AVLTreeHeapRep.
From GodsGen Require AVLTreeHeapGen.
Import ListNotations.
Local Open Scope Z_scope.

Module Names.
Import Coq.Strings.String.
(* OBLIGATION *)
Theorem translated_functions :
  G.translated = ["Begin"; "Ceiling"; "Clear"; "Empty"; "End"; "First"; "Floor"; "Get"; "GetNode"; "Iterator_Next"; "Iterator_Node"; "Iterator_Prev"; "Key"; "Keys"; "Last"; "Left"; "New"; "NewWith"; "NextTo"; "Node_Next"; "Node_Prev"; "Node_Size"; "PrevTo"; "Put"; "Remove"; "Right"; "Tree_Iterator"; "Tree_Size"; "Value"; "Values"; "bottom"; "doublerot"; "put"; "putFix"; "remove"; "removeFix"; "removeMin"; "rotate"; "singlerot"; "walk1"]%string
  /\ G.skipped = ["String"; "output"]%string.
Proof. repeat split. Qed.
Print Assumptions translated_functions.
End Names.

Definition is_some {A} (o : option A) : bool := match o with Some _ => true | None => false end.

(* OBLIGATION *)
Theorem readers_signature : forall mag : Z -> Z -> positive,
  (G.GetNode mag : nat -> nat -> heap G.Node -> G.Tree -> Z -> option (nat * ptr)) = G.GetNode mag /\
  (G.Get mag : nat -> nat -> heap G.Node -> G.Tree -> Z -> option (nat * Z * bool)) = G.Get mag /\
  (G.Floor mag : nat -> nat -> heap G.Node -> G.Tree -> Z -> option (nat * ptr * bool)) = G.Floor mag /\
  (G.Ceiling mag : nat -> nat -> heap G.Node -> G.Tree -> Z -> option (nat * ptr * bool)) = G.Ceiling mag /\
  (G.Left : nat -> heap G.Node -> G.Tree -> option ptr) = G.Left /\
  (G.Right : nat -> heap G.Node -> G.Tree -> option ptr) = G.Right /\
  (G.bottom : nat -> heap G.Node -> G.Tree -> Z -> option ptr) = G.bottom /\
  (G.Node_Size : nat -> heap G.Node -> ptr -> option Z) = G.Node_Size /\
  (G.Tree_Size : heap G.Node -> G.Tree -> option Z) = G.Tree_Size /\
  (G.Empty : heap G.Node -> G.Tree -> option bool) = G.Empty.
Proof. intros. repeat split. Qed.
Print Assumptions readers_signature.


(* ---------- lookup ---------- *)
Lemma GetNode_loop_spec : forall mag (tr : G.Tree) key h pt pp fuel n,
  rep h pp pt -> (AVL.height (erase pt) < fuel)%nat ->
  exists p, node_is h p (AVL.lookup (G.Tree_Comparator tr) key (erase pt)) /\
  G.GetNode_loop1 mag fuel n h tr key (root_ptr pt) =
    Some (match AVL.lookup (G.Tree_Comparator tr) key (erase pt) with
          | Some _ => Some ((n + AVL.lookup_cost (G.Tree_Comparator tr) key (erase pt))%nat, p)
          | None => None end,
          ((n + AVL.lookup_cost (G.Tree_Comparator tr) key (erase pt))%nat, p)).
Proof.
  intros mag tr key h. induction pt as [|a c l IHl k v r IHr]; intros pp fuel n Hrep Hf.
  - exists None. split; [reflexivity|]. destruct fuel; cbn [G.GetNode_loop1 root_ptr is_nil negb erase AVL.lookup AVL.lookup_cost]; now rewrite Nat.add_0_r.
  - destruct fuel as [|fuel]; [simpl in Hf; lia|].
    pose proof (rep_root_deref _ _ _ _ _ _ _ _ Hrep) as Hd. simpl in Hrep. destruct Hrep as (_ & Hl & Hr).
    cbn [G.GetNode_loop1 root_ptr is_nil negb erase AVL.lookup AVL.lookup_cost AVL.height] in *.
    rewrite Hd. cbn [node_of G.Node_Key G.Node_Children]. rewrite ?arr2_get_0, ?arr2_get_1.
    destruct (G.Tree_Comparator tr key k) eqn:E.
    + rewrite (call_cmp_Eq mag _ _ _ E). exists (Some a). split.
      * cbn [node_is]. eexists. split; [exact Hd|]. split; reflexivity.
      * now rewrite Nat.add_1_r.
    + destruct (call_cmp_Lt mag _ _ _ E) as (E0 & E1 & E2). rewrite E0, E1.
      destruct (IHl (Some a) fuel (S n) Hl ltac:(lia)) as (p & Hp & Hrun). exists p. split; [exact Hp|].
      rewrite Hrun. rewrite <- Nat.add_succ_comm. reflexivity.
    + destruct (call_cmp_Gt mag _ _ _ E) as (E0 & E1 & E2). rewrite E0, E1, E2.
      destruct (IHr (Some a) fuel (S n) Hr ltac:(lia)) as (p & Hp & Hrun). exists p. split; [exact Hp|].
      rewrite Hrun. rewrite <- Nat.add_succ_comm. reflexivity.
Qed.

(* OBLIGATION *)
Theorem GetNode_correct : forall mag h tr t key fuel n,
  tree_repr h tr t -> (AVL.height t < fuel)%nat ->
  exists p, G.GetNode mag fuel n h tr key = Some ((n + AVL.lookup_cost (G.Tree_Comparator tr) key t)%nat, p) /\
            node_is h p (AVL.lookup (G.Tree_Comparator tr) key t).
Proof.
  intros mag h tr t key fuel n (pt & <- & Hroot & Hrep & _) Hf. unfold G.GetNode. rewrite <- Hroot.
  destruct (GetNode_loop_spec mag tr key h pt None fuel n Hrep Hf) as (p & Hp & ->).
  destruct (AVL.lookup (G.Tree_Comparator tr) key (erase pt)) as [[k v]|] eqn:E.
  - exists p. split; [reflexivity|exact Hp].
  - exists p. split; [reflexivity|exact Hp].
Qed.
Print Assumptions GetNode_correct.


(* OBLIGATION *)
Theorem Get_correct : forall mag h tr t key fuel n,
  tree_repr h tr t -> (AVL.height t < fuel)%nat ->
  G.Get mag fuel n h tr key =
    Some ((n + AVL.lookup_cost (G.Tree_Comparator tr) key t)%nat,
          match AVL.lookup (G.Tree_Comparator tr) key t with Some (_, v) => v | None => 0 end,
          is_some (AVL.lookup (G.Tree_Comparator tr) key t)).
Proof.
  intros mag h tr t key fuel n Hr Hf. destruct (GetNode_correct mag h tr t key fuel n Hr Hf) as (p & Hrun & Hp).
  unfold G.Get. rewrite Hrun. destruct (AVL.lookup (G.Tree_Comparator tr) key t) as [[k v]|].
  - destruct Hp as (nd & Hd & Hk & Hv). destruct p as [a|]; [|discriminate]. cbn [is_nil negb]. rewrite Hd. now rewrite Hv.
  - cbn [node_is] in Hp. subst p. reflexivity.
Qed.
Print Assumptions Get_correct.

(* ---------- Floor / Ceiling ---------- *)
Definition cand_is (h : heap G.Node) (p : ptr) (found : bool) (o : option (Z * Z)) : Prop :=
  found = is_some o /\ (found = true -> node_is h p o).

Lemma Floor_loop_spec : forall mag (tr : G.Tree) key h pt pp fuel n fl fd cand,
  rep h pp pt -> (AVL.height (erase pt) < fuel)%nat -> cand_is h fl fd cand ->
  exists er fl' fd' p',
    G.Floor_loop1 mag fuel n h tr key fl fd (root_ptr pt) =
      Some (er, ((n + AVL.lookup_cost (G.Tree_Comparator tr) key (erase pt))%nat, fl', fd', p')) /\
    match er with
    | Some (n', p, b) => n' = (n + AVL.lookup_cost (G.Tree_Comparator tr) key (erase pt))%nat /\ b = true /\
        is_some (AVL.floor_from (G.Tree_Comparator tr) key (erase pt) cand) = true /\
        node_is h p (AVL.floor_from (G.Tree_Comparator tr) key (erase pt) cand)
    | None => cand_is h fl' fd' (AVL.floor_from (G.Tree_Comparator tr) key (erase pt) cand)
    end.
Proof.
  intros mag tr key h. induction pt as [|a c l IHl k v r IHr]; intros pp fuel n fl fd cand Hrep Hf Hc.
  - exists None, fl, fd, None. split; [|exact Hc].
    destruct fuel; cbn [G.Floor_loop1 root_ptr is_nil negb erase AVL.lookup_cost]; now rewrite Nat.add_0_r.
  - destruct fuel as [|fuel]; [simpl in Hf; lia|].
    pose proof (rep_root_deref _ _ _ _ _ _ _ _ Hrep) as Hd. simpl in Hrep. destruct Hrep as (_ & Hl & Hr).
    cbn [G.Floor_loop1 root_ptr is_nil negb erase AVL.floor_from AVL.lookup_cost AVL.height] in *.
    rewrite Hd. cbn [node_of G.Node_Key G.Node_Children]. rewrite ?arr2_get_0, ?arr2_get_1.
    destruct (G.Tree_Comparator tr key k) eqn:E.
    + rewrite (call_cmp_Eq mag _ _ _ E). exists (Some ((n + 1)%nat, Some a, true)), fl, fd, (Some a).
      split; [now rewrite Nat.add_1_r|]. repeat split. cbn [node_is]. eexists. split; [exact Hd|]. split; reflexivity.
    + destruct (call_cmp_Lt mag _ _ _ E) as (E0 & E1 & E2). rewrite E0, E1.
      destruct (IHl (Some a) fuel (S n) fl fd cand Hl ltac:(lia) Hc) as (er & fl' & fd' & p' & Hrun & Hres).
      exists er, fl', fd', p'. rewrite Hrun, <- Nat.add_succ_comm. split; [reflexivity|].
      exact Hres.
    + destruct (call_cmp_Gt mag _ _ _ E) as (E0 & E1 & E2). rewrite E0, E1, E2.
      assert (Hc' : cand_is h (Some a) true (Some (k, v))).
      { split; [reflexivity|]. intros _. cbn [node_is]. eexists. split; [exact Hd|]. split; reflexivity. }
      destruct (IHr (Some a) fuel (S n) (Some a) true (Some (k, v)) Hr ltac:(lia) Hc') as (er & fl' & fd' & p' & Hrun & Hres).
      exists er, fl', fd', p'. rewrite Hrun, <- Nat.add_succ_comm. split; [reflexivity|].
      exact Hres.
Qed.

Lemma Ceiling_loop_spec : forall mag (tr : G.Tree) key h pt pp fuel n fl fd cand,
  rep h pp pt -> (AVL.height (erase pt) < fuel)%nat -> cand_is h fl fd cand ->
  exists er fl' fd' p',
    G.Ceiling_loop1 mag fuel n h tr key fl fd (root_ptr pt) =
      Some (er, ((n + AVL.lookup_cost (G.Tree_Comparator tr) key (erase pt))%nat, fl', fd', p')) /\
    match er with
    | Some (n', p, b) => n' = (n + AVL.lookup_cost (G.Tree_Comparator tr) key (erase pt))%nat /\ b = true /\
        is_some (AVL.ceiling_from (G.Tree_Comparator tr) key (erase pt) cand) = true /\
        node_is h p (AVL.ceiling_from (G.Tree_Comparator tr) key (erase pt) cand)
    | None => cand_is h fl' fd' (AVL.ceiling_from (G.Tree_Comparator tr) key (erase pt) cand)
    end.
Proof.
  intros mag tr key h. induction pt as [|a c l IHl k v r IHr]; intros pp fuel n fl fd cand Hrep Hf Hc.
  - exists None, fl, fd, None. split; [|exact Hc].
    destruct fuel; cbn [G.Ceiling_loop1 root_ptr is_nil negb erase AVL.lookup_cost]; now rewrite Nat.add_0_r.
  - destruct fuel as [|fuel]; [simpl in Hf; lia|].
    pose proof (rep_root_deref _ _ _ _ _ _ _ _ Hrep) as Hd. simpl in Hrep. destruct Hrep as (_ & Hl & Hr).
    cbn [G.Ceiling_loop1 root_ptr is_nil negb erase AVL.ceiling_from AVL.lookup_cost AVL.height] in *.
    rewrite Hd. cbn [node_of G.Node_Key G.Node_Children]. rewrite ?arr2_get_0, ?arr2_get_1.
    destruct (G.Tree_Comparator tr key k) eqn:E.
    + rewrite (call_cmp_Eq mag _ _ _ E). exists (Some ((n + 1)%nat, Some a, true)), fl, fd, (Some a).
      split; [now rewrite Nat.add_1_r|]. repeat split. cbn [node_is]. eexists. split; [exact Hd|]. split; reflexivity.
    + destruct (call_cmp_Lt mag _ _ _ E) as (E0 & E1 & E2). rewrite E0, E1.
      assert (Hc' : cand_is h (Some a) true (Some (k, v))).
      { split; [reflexivity|]. intros _. cbn [node_is]. eexists. split; [exact Hd|]. split; reflexivity. }
      destruct (IHl (Some a) fuel (S n) (Some a) true (Some (k, v)) Hl ltac:(lia) Hc') as (er & fl' & fd' & p' & Hrun & Hres).
      exists er, fl', fd', p'. rewrite Hrun, <- Nat.add_succ_comm. split; [reflexivity|].
      exact Hres.
    + destruct (call_cmp_Gt mag _ _ _ E) as (E0 & E1 & E2). rewrite E0, E1, E2.
      destruct (IHr (Some a) fuel (S n) fl fd cand Hr ltac:(lia) Hc) as (er & fl' & fd' & p' & Hrun & Hres).
      exists er, fl', fd', p'. rewrite Hrun, <- Nat.add_succ_comm. split; [reflexivity|].
      exact Hres.
Qed.

Lemma cand_none : forall h, cand_is h None false None.
Proof. intros h. split; [reflexivity|discriminate]. Qed.

(* OBLIGATION *)
Theorem Floor_correct : forall mag h tr t key fuel n,
  tree_repr h tr t -> (AVL.height t < fuel)%nat ->
  exists p, G.Floor mag fuel n h tr key =
              Some ((n + AVL.lookup_cost (G.Tree_Comparator tr) key t)%nat, p, is_some (AVL.floor (G.Tree_Comparator tr) key t)) /\
            node_is h p (AVL.floor (G.Tree_Comparator tr) key t).
Proof.
  intros mag h tr t key fuel n (pt & <- & Hroot & Hrep & _) Hf. unfold G.Floor, AVL.floor. rewrite <- Hroot.
  destruct (Floor_loop_spec mag tr key h pt None fuel n None false None Hrep Hf (cand_none h)) as (er & fl' & fd' & p' & -> & Hres).
  destruct er as [[[n' p] b]|].
  - destruct Hres as (-> & -> & Hs & Hp). exists p. rewrite Hs. split; [reflexivity|exact Hp].
  - destruct Hres as (Hfd & Hp). destruct fd'.
    + exists fl'. rewrite <- Hfd. split; [reflexivity|]. now apply Hp.
    + exists None. rewrite <- Hfd. split; [reflexivity|].
      destruct (AVL.floor_from (G.Tree_Comparator tr) key (erase pt) None); [discriminate|reflexivity].
Qed.
Print Assumptions Floor_correct.

(* OBLIGATION *)
Theorem Ceiling_correct : forall mag h tr t key fuel n,
  tree_repr h tr t -> (AVL.height t < fuel)%nat ->
  exists p, G.Ceiling mag fuel n h tr key =
              Some ((n + AVL.lookup_cost (G.Tree_Comparator tr) key t)%nat, p, is_some (AVL.ceiling (G.Tree_Comparator tr) key t)) /\
            node_is h p (AVL.ceiling (G.Tree_Comparator tr) key t).
Proof.
  intros mag h tr t key fuel n (pt & <- & Hroot & Hrep & _) Hf. unfold G.Ceiling, AVL.ceiling. rewrite <- Hroot.
  destruct (Ceiling_loop_spec mag tr key h pt None fuel n None false None Hrep Hf (cand_none h)) as (er & fl' & fd' & p' & -> & Hres).
  destruct er as [[[n' p] b]|].
  - destruct Hres as (-> & -> & Hs & Hp). exists p. rewrite Hs. split; [reflexivity|exact Hp].
  - destruct Hres as (Hfd & Hp). destruct fd'.
    + exists fl'. rewrite <- Hfd. split; [reflexivity|]. now apply Hp.
    + exists None. rewrite <- Hfd. split; [reflexivity|].
      destruct (AVL.ceiling_from (G.Tree_Comparator tr) key (erase pt) None); [discriminate|reflexivity].
Qed.
Print Assumptions Ceiling_correct.

(* ---------- Left / Right = bottom(0) / bottom(1) ---------- *)
Lemma leftmost_T : forall c l k v r, exists kv, AVL.leftmost (AVL.T c l k v r) = Some kv.
Proof.
  intros c l. revert c. induction l as [|c' l' IH k' v' r' _]; intros c k v r; [now eexists|].
  destruct (IH c' k' v' r') as (kv & E). exists kv. cbn [AVL.leftmost] in *. exact E.
Qed.
Lemma rightmost_T : forall c l k v r, exists kv, AVL.rightmost (AVL.T c l k v r) = Some kv.
Proof.
  intros c l k v r. revert c l k v. induction r as [|c' l' _ k' v' r' IH]; intros c l k v; [now eexists|].
  destruct (IH c' l' k' v') as (kv & E). exists kv. cbn [AVL.rightmost] in *. exact E.
Qed.

(* the loop of bottom(0), entered with n = a node and c = its left child *)
Lemma bottom0_loop_spec : forall (tr : G.Tree) h l a b k v r pp fuel,
  rep h pp (PT a b l k v r) -> (AVL.height (erase l) < fuel)%nat ->
  exists p, G.bottom_loop1 fuel h tr 0 (Some a) (root_ptr l) = Some p /\ node_is h p (AVL.leftmost (erase (PT a b l k v r))).
Proof.
  intros tr h. induction l as [|a' b' l' IHl k' v' r' _]; intros a b k v r pp fuel Hrep Hf.
  - pose proof (rep_root_deref _ _ _ _ _ _ _ _ Hrep) as Hd. exists (Some a). split; [destruct fuel; reflexivity|].
    cbn [erase AVL.leftmost node_is]. eexists. split; [exact Hd|]. split; reflexivity.
  - destruct fuel as [|fuel]; [simpl in Hf; lia|].
    simpl in Hrep. destruct Hrep as (_ & Hl & _). pose proof (rep_root_deref _ _ _ _ _ _ _ _ Hl) as Hd'.
    cbn [G.bottom_loop1 root_ptr is_nil negb]. rewrite Hd'. cbn [node_of G.Node_Children]. rewrite arr2_get_0.
    cbn [erase AVL.height] in Hf.
    destruct (IHl a' b' k' v' r' (Some a) fuel Hl ltac:(cbn [erase]; lia)) as (p & Hrun & Hp). exists p. split; [exact Hrun|].
    exact Hp.
Qed.
Lemma bottom1_loop_spec : forall (tr : G.Tree) h r a b l k v pp fuel,
  rep h pp (PT a b l k v r) -> (AVL.height (erase r) < fuel)%nat ->
  exists p, G.bottom_loop1 fuel h tr 1 (Some a) (root_ptr r) = Some p /\ node_is h p (AVL.rightmost (erase (PT a b l k v r))).
Proof.
  intros tr h. induction r as [|a' b' l' _ k' v' r' IHr]; intros a b l k v pp fuel Hrep Hf.
  - pose proof (rep_root_deref _ _ _ _ _ _ _ _ Hrep) as Hd. exists (Some a). split; [destruct fuel; reflexivity|].
    cbn [erase AVL.rightmost node_is]. eexists. split; [exact Hd|]. split; reflexivity.
  - destruct fuel as [|fuel]; [simpl in Hf; lia|].
    simpl in Hrep. destruct Hrep as (_ & _ & Hr). pose proof (rep_root_deref _ _ _ _ _ _ _ _ Hr) as Hd'.
    cbn [G.bottom_loop1 root_ptr is_nil negb]. rewrite Hd'. cbn [node_of G.Node_Children]. rewrite arr2_get_1.
    cbn [erase AVL.height] in Hf.
    destruct (IHr a' b' l' k' v' (Some a) fuel Hr ltac:(cbn [erase]; lia)) as (p & Hrun & Hp). exists p. split; [exact Hrun|].
    exact Hp.
Qed.

(* OBLIGATION *)
Theorem Left_Right_correct : forall h tr t fuel,
  tree_repr h tr t -> (AVL.height t < fuel)%nat ->
  (exists p, G.Left fuel h tr = Some p /\ node_is h p (AVL.leftmost t)) /\
  (exists p, G.Right fuel h tr = Some p /\ node_is h p (AVL.rightmost t)).
Proof.
  intros h tr t fuel (pt & <- & Hroot & Hrep & _) Hf. unfold G.Left, G.Right, G.bottom. rewrite <- Hroot.
  destruct pt as [|a b l k v r]; [split; exists None; split; reflexivity|].
  pose proof (rep_root_deref _ _ _ _ _ _ _ _ Hrep) as Hd. cbn [root_ptr is_nil]. rewrite Hd. cbn [node_of G.Node_Children].
  rewrite arr2_get_0, arr2_get_1. cbn [erase AVL.height] in Hf. split.
  - destruct (bottom0_loop_spec tr h l a b k v r None fuel Hrep ltac:(lia)) as (p & -> & Hp). exists p. split; [reflexivity|exact Hp].
  - destruct (bottom1_loop_spec tr h r a b l k v None fuel Hrep ltac:(lia)) as (p & -> & Hp). exists p. split; [reflexivity|exact Hp].
Qed.
Print Assumptions Left_Right_correct.

(* ---------- sizes ---------- *)
(* OBLIGATION *)
Theorem Node_Size_correct : forall h p pp t fuel,
  repr h p pp t -> (AVL.height t < fuel)%nat ->
  G.Node_Size fuel h p = Some (Z.of_nat (AVL.count t)).
Proof.
  intros h p pp t fuel (pt & <- & <- & Hrep & _). revert pp fuel Hrep.
  induction pt as [|a c l IHl k v r IHr]; intros pp fuel Hrep Hf.
  - destruct fuel; [simpl in Hf; lia|]. reflexivity.
  - destruct fuel as [|fuel]; [simpl in Hf; lia|].
    pose proof (rep_root_deref _ _ _ _ _ _ _ _ Hrep) as Hd. simpl in Hrep. destruct Hrep as (_ & Hl & Hr).
    cbn [erase AVL.height] in Hf. cbn [G.Node_Size root_ptr is_nil]. rewrite Hd. cbn [node_of G.Node_Children]. rewrite !arr2_get_0, !arr2_get_1.
    assert (HL : (if negb (is_nil (root_ptr l)) then
                    match G.Node_Size fuel h (root_ptr l) with Some r3 => Some (1 + r3) | None => None end
                  else Some 1) = Some (1 + Z.of_nat (AVL.count (erase l)))).
    { destruct l as [|la lc ll lk lv lr]; [reflexivity|]. cbn [root_ptr is_nil negb]. cbn [root_ptr] in IHl. rewrite (IHl (Some a) fuel Hl ltac:(lia)). reflexivity. }
    rewrite HL.
    assert (HR : (if negb (is_nil (root_ptr r)) then
                    match G.Node_Size fuel h (root_ptr r) with Some r7 => Some (1 + Z.of_nat (AVL.count (erase l)) + r7) | None => None end
                  else Some (1 + Z.of_nat (AVL.count (erase l)))) = Some (1 + Z.of_nat (AVL.count (erase l)) + Z.of_nat (AVL.count (erase r)))).
    { destruct r as [|ra rc rl rk rv rr]; [cbn; f_equal; lia|]. cbn [root_ptr is_nil negb]. cbn [root_ptr] in IHr. rewrite (IHr (Some a) fuel Hr ltac:(lia)). reflexivity. }
    rewrite HR. cbn [erase AVL.count]. f_equal. lia.
Qed.
Print Assumptions Node_Size_correct.

(* the header's size field counts the nodes: an invariant of the writers (not of the heap representation) *)
(* OBLIGATION *)
Theorem Size_Empty_correct : forall h tr t,
  G.Tree_size tr = Z.of_nat (AVL.count t) ->
  G.Tree_Size h tr = Some (Z.of_nat (AVL.count t)) /\
  G.Empty h tr = Some (match t with AVL.E => true | _ => false end).
Proof.
  intros h tr t Hs. unfold G.Tree_Size, G.Empty. rewrite Hs. split; [reflexivity|].
  destruct t; reflexivity.
Qed.
Print Assumptions Size_Empty_correct.
