(* The GENERATED capacity-aware ArrayList core (GodsGen.ArrayListCoreGen: lists/arraylist/arraylist.go with GoSlice slices) packaged
   as the functions the wrappers built on an arraylist (arraystack, arrayqueue, binaryheap) expect from their abstract list
   interface.  The state is the generated record A.List (every generated function is total).  ADAPTERS, because the interfaces
   were read from the Go signatures with []T as a plain list: Add(values ...T) / New(values ...T) receive the variadic arguments as
   the slice literal []T{...} (sl_of_list), Values() is read off the returned (cloned) slice (sl_list).  The relation to the
   sequence model is ArrayListCoreProofs.al_rel (the slice is well-formed and its live prefix is the sequence); every mutator
   preserves it and every observer answers as Model/Lists.v -- for EVERY allocation policy alloc_cap.  No obligation here: the
   lemmas are used by ArrayStackOverArrayListProofs.v, ArrayQueueOverArrayListProofs.v, BinaryHeapOverArrayListProofs.v. *)
From Coq Require Import ZArith List Lia Bool.
From Gods Require Import Common.ListAux Spec.SeqSpec Model.Lists.
From GodsGen Require ArrayListCoreGen.
From GodsGenProofs Require Import GoSlice GenIterRun.
From GodsGenProofs Require GoJson ArrayListCoreProofs.
Import ListNotations.
Local Open Scope Z_scope.

Module A := ArrayListCoreGen.
Module AP := ArrayListCoreProofs.
Notation al_rel := AP.al_rel.

Section Ops.
Variable alloc : Z -> Z.                                                 (* the runtime's allocation policy *)
Variable marshal_slice : list Z -> GoJson.bytes * bool.                  (* encoding/json, abstract *)
Variable unmarshal_cslice : GoJson.bytes -> slice -> slice * bool.
Variable slice_is_nil : slice -> bool.

Definition c_Add (g : A.List) (vs : list Z) : A.List * unit := A.Add g (sl_of_list vs).
Definition c_New (vs : list Z) : A.List := A.New (sl_of_list vs).
Definition c_Values (g : A.List) : list Z := sl_list (A.Values alloc g).
Definition c_ToJSON (g : A.List) : GoJson.bytes * bool := A.ToJSON marshal_slice slice_is_nil g.
Definition c_FromJSON (g : A.List) (d : GoJson.bytes) : A.List * bool := A.FromJSON unmarshal_cslice g d.

Lemma c_Add_rel : forall g l vs, al_rel g l -> al_rel (fst (c_Add g vs)) (al_add vs l).
Proof.
  intros g l vs H. unfold c_Add. destruct (sl_of_list_list vs) as [E W].
  pose proof (AP.Add_refines g l (sl_of_list vs) H W) as HA. now rewrite E in HA.
Qed.
Lemma c_New_rel : forall vs, al_rel (c_New vs) vs.
Proof. intros vs. unfold c_New. destruct (sl_of_list_list vs) as [E W]. pose proof (AP.New_refines _ W) as H. now rewrite E in H. Qed.
Lemma c_Values_rel : forall g l, al_rel g l -> c_Values g = l.
Proof. intros g l H. exact (proj2 (AP.Values_refines alloc g l H)). Qed.
End Ops.

Definition c_Remove_rel := AP.Remove_refines.
Definition c_Clear_rel := AP.Clear_refines.
Definition c_Swap_rel := AP.Swap_refines.
Definition c_Get_rel := AP.Get_equiv.
Definition c_Size_rel := AP.Size_equiv.
Definition c_Empty_rel := AP.Empty_equiv.
