(* Go slices with capacity, as VALUES (hand-written once; used by the capacity-aware generated units).
   A slice is its backing array from the slice's first element up to its capacity, plus its length:
     sarr s  : the cap(s) slots reachable through s (the live elements first, then the hidden ones);
     slen s  : len(s).
   What is modelled: len, cap, s[i], s[i] = v, make, s[:n] (also BEYOND the length, exposing hidden slots),
   copy, clear, append, slices.Insert / Delete (Go >= 1.22: the vacated tail is zeroed) / Clone / Contains / Index.
   What is NOT modelled:
   - ALIASING: two slices never share a backing array here.  Whether an append / Insert reallocates is
     therefore not observable, and bugs that consist in handing out the internal array are out of scope
     (they are covered by the effect table and the aliasing probes of the framework);
   - the panics (index out of range, s[:n] with n > cap, make with len > cap): the functions are total;
   - the capacity the runtime chooses when IT allocates (Clone, reallocating append / Insert): a parameter
     [alloc : Z -> Z] (needed length -> capacity); no theorem may depend on it. *)
From Coq Require Import ZArith List Lia Bool Arith.
From Gods Require Import Common.ListAux Spec.SeqSpec.
Import ListNotations.

Record slice := mkslice { sarr : list Z; slen : nat }.

Definition sl_wf (s : slice) : Prop := slen s <= length (sarr s).     (* len <= cap *)
Definition sl_list (s : slice) : list Z := firstn (slen s) (sarr s).   (* the live elements *)
Definition sl_len (s : slice) : Z := Z.of_nat (slen s).
Definition sl_cap (s : slice) : Z := Z.of_nat (length (sarr s)).

Definition sl_nil : slice := mkslice [] 0.                                           (* nil slice *)
Definition sl_of_list (l : list Z) : slice := mkslice l (length l).                  (* []T{a, b, ...} *)
Definition sl_make (n c : Z) : slice := mkslice (repeat 0%Z (Z.to_nat c)) (Z.to_nat n).   (* make([]T, n, c) *)
Definition sl_get (s : slice) (i : Z) : Z := get (sarr s) (Z.to_nat i).              (* s[i] *)
Definition sl_set (s : slice) (i v : Z) : slice := mkslice (set (sarr s) (Z.to_nat i) v) (slen s).   (* s[i] = v *)
Definition sl_reslice (s : slice) (n : Z) : slice := mkslice (sarr s) (Z.to_nat n).  (* s[:n], n <= cap *)
(* copy(dst, src): min(len dst, len src) elements *)
Definition sl_copy (dst src : slice) : slice :=
  let k := Nat.min (slen dst) (slen src) in mkslice (firstn k (sarr src) ++ skipn k (sarr dst)) (slen dst).
(* clear(s[:n]): the first n slots become zero; s itself keeps its length *)
Definition sl_clear_upto (s : slice) (n : Z) : slice :=
  mkslice (repeat 0%Z (Z.to_nat n) ++ skipn (Z.to_nat n) (sarr s)) (slen s).
(* slices.Delete(s, i, j): s[j:] moves down to i, the vacated slots are zeroed, the length shrinks by j - i *)
Definition sl_delete (s : slice) (i j : Z) : slice :=
  let l := sl_list s in
  let kept := firstn (Z.to_nat i) l ++ skipn (Z.to_nat j) l in
  mkslice (kept ++ repeat 0%Z (slen s - length kept) ++ skipn (slen s) (sarr s)) (length kept).
Section Alloc.
Variable alloc : Z -> Z.
Definition fresh (l : list Z) : slice :=
  mkslice (l ++ repeat 0%Z (Z.to_nat (alloc (Z.of_nat (length l))) - length l)) (length l).
(* slices.Insert(s, i, vs...): in place when the capacity suffices, else a fresh array *)
Definition sl_insert (s : slice) (i : Z) (vs : slice) : slice :=
  let l := sl_list s in
  let new := firstn (Z.to_nat i) l ++ sl_list vs ++ skipn (Z.to_nat i) l in
  if length new <=? length (sarr s) then mkslice (new ++ skipn (length new) (sarr s)) (length new)
  else fresh new.
Definition sl_append (s vs : slice) : slice := sl_insert s (sl_len s) vs.            (* append(s, vs...) *)
Definition sl_clone (s : slice) : slice := fresh (sl_list s).                        (* slices.Clone(s) *)
End Alloc.
Definition sl_contains (s : slice) (v : Z) : bool := existsb (Z.eqb v) (sl_list s).  (* slices.Contains(s, v) *)
Definition sl_index (s : slice) (v : Z) : Z := index_from v (sl_list s) 0%Z.         (* slices.Index(s, v) *)

(* ====================== lemmas ====================== *)
Lemma set_length' : forall (l : list Z) i x, length (set l i x) = length l.
Proof. induction l as [|a l IH]; intros [|i] x; cbn [set length]; auto. Qed.

Lemma firstn_set : forall (l : list Z) n i x, firstn n (set l i x) = set (firstn n l) i x.
Proof.
  induction l as [|a l IH]; intros n i x; [now destruct n, i|].
  destruct n as [|n]; [now destruct i|]. destruct i as [|i]; cbn [set firstn]; [reflexivity|]. now rewrite IH.
Qed.

Lemma set_upd : forall (l : list Z) n v, n < length l -> set l n v = upd n v l.
Proof.
  unfold upd. induction l as [|a l IH]; intros n v H; cbn [length] in H; [lia|].
  destruct n as [|n]; cbn [set firstn skipn app]; [reflexivity|]. rewrite IH by lia. reflexivity.
Qed.

Lemma set_app_r : forall (a b : list Z) i v, set (a ++ b) (length a + i) v = a ++ set b i v.
Proof. induction a as [|x a IH]; intros b i v; cbn [app length Nat.add set]; [reflexivity|]. now rewrite IH. Qed.

Lemma get_firstn : forall (l : list Z) n i, i < n -> get (firstn n l) i = get l i.
Proof.
  unfold get. induction l as [|a l IH]; intros n i H; [now destruct n, i|].
  destruct n as [|n]; [lia|]. destruct i as [|i]; cbn [firstn nth]; [reflexivity|]. apply IH. lia.
Qed.

Lemma sl_list_length : forall s, sl_wf s -> length (sl_list s) = slen s.
Proof. intros s H. unfold sl_list. rewrite firstn_length. unfold sl_wf in H. lia. Qed.

Lemma sl_len_zlen : forall s, sl_wf s -> sl_len s = zlen (sl_list s).
Proof. intros s H. unfold sl_len, zlen. now rewrite sl_list_length. Qed.

Lemma sl_nil_list : sl_list sl_nil = [] /\ sl_wf sl_nil.
Proof. split; [reflexivity|unfold sl_wf; cbn; lia]. Qed.

Lemma sl_of_list_list : forall l, sl_list (sl_of_list l) = l /\ sl_wf (sl_of_list l).
Proof. intros l. split; [unfold sl_list; cbn; apply firstn_all|unfold sl_wf; cbn; lia]. Qed.

Lemma sl_get_nth : forall s i, (0 <= i < sl_len s)%Z -> sl_get s i = nth (Z.to_nat i) (sl_list s) 0%Z.
Proof.
  intros s i H. unfold sl_get, sl_list, sl_len in *. symmetry. apply (get_firstn (sarr s) (slen s)). lia.
Qed.

Lemma sl_set_spec : forall s i v, sl_wf s ->
  sl_wf (sl_set s i v) /\ sl_list (sl_set s i v) = set (sl_list s) (Z.to_nat i) v /\
  slen (sl_set s i v) = slen s /\ sl_cap (sl_set s i v) = sl_cap s.
Proof.
  intros s i v H. unfold sl_wf, sl_list, sl_set, sl_cap in *. cbn [sarr slen].
  rewrite set_length', firstn_set. auto.
Qed.

Lemma sl_make_spec : forall n c, (0 <= n <= c)%Z ->
  sl_wf (sl_make n c) /\ sl_list (sl_make n c) = repeat 0%Z (Z.to_nat n) /\ sl_cap (sl_make n c) = c /\ slen (sl_make n c) = Z.to_nat n.
Proof.
  intros n c H. unfold sl_wf, sl_list, sl_make, sl_cap. cbn [sarr slen]. rewrite repeat_length.
  repeat split; try lia.
  replace (Z.to_nat c) with (Z.to_nat n + (Z.to_nat c - Z.to_nat n)) by lia.
  rewrite repeat_app, firstn_app, repeat_length, Nat.sub_diag, firstn_O, app_nil_r.
  apply firstn_all2. rewrite repeat_length. lia.
Qed.

Lemma sl_reslice_spec : forall s n, (0 <= n <= sl_cap s)%Z ->
  sl_wf (sl_reslice s n) /\ sl_list (sl_reslice s n) = firstn (Z.to_nat n) (sarr s) /\
  sl_cap (sl_reslice s n) = sl_cap s /\ slen (sl_reslice s n) = Z.to_nat n.
Proof. intros s n H. unfold sl_wf, sl_list, sl_reslice, sl_cap in *. cbn [sarr slen]. repeat split; lia. Qed.

(* reslicing below the length keeps a prefix; beyond it exposes hidden slots *)
Lemma sl_reslice_shorter : forall s n, (0 <= n <= sl_len s)%Z -> sl_list (sl_reslice s n) = firstn (Z.to_nat n) (sl_list s).
Proof.
  intros s n H. unfold sl_list, sl_reslice, sl_len in *. cbn [sarr slen].
  rewrite firstn_firstn. f_equal. lia.
Qed.
Lemma sl_reslice_longer : forall s n, sl_wf s -> (sl_len s <= n <= sl_cap s)%Z ->
  exists tail, length tail = Z.to_nat n - slen s /\ sl_list (sl_reslice s n) = sl_list s ++ tail.
Proof.
  intros s n Hw H. unfold sl_list, sl_reslice, sl_len, sl_cap, sl_wf in *. cbn [sarr slen].
  exists (firstn (Z.to_nat n - slen s) (skipn (slen s) (sarr s))). split.
  - rewrite firstn_length, skipn_length. lia.
  - rewrite <- (firstn_skipn (slen s) (sarr s)) at 1.
    rewrite firstn_app, firstn_length. replace (Nat.min (slen s) (length (sarr s))) with (slen s) by lia.
    f_equal. rewrite firstn_firstn. f_equal. lia.
Qed.

(* copy into a slice at least as long as the source: the source's elements, then the rest of the target *)
Lemma sl_copy_spec : forall dst src, sl_wf dst -> sl_wf src -> slen src <= slen dst ->
  sl_wf (sl_copy dst src) /\ sl_list (sl_copy dst src) = sl_list src ++ skipn (slen src) (sl_list dst) /\
  sl_cap (sl_copy dst src) = sl_cap dst /\ slen (sl_copy dst src) = slen dst.
Proof.
  intros dst src Hd Hs Hle. unfold sl_wf, sl_list, sl_copy, sl_cap in *. cbn [sarr slen].
  replace (Nat.min (slen dst) (slen src)) with (slen src) by lia.
  assert (Hlen : length (firstn (slen src) (sarr src) ++ skipn (slen src) (sarr dst)) = length (sarr dst)).
  { rewrite app_length, firstn_length, skipn_length. lia. }
  rewrite Hlen. repeat split; try lia.
  rewrite firstn_app, firstn_length. replace (Nat.min (slen src) (length (sarr src))) with (slen src) by lia.
  rewrite firstn_firstn. replace (Nat.min (slen dst) (slen src)) with (slen src) by lia. f_equal.
  rewrite firstn_skipn_comm. do 2 f_equal. lia.
Qed.

Lemma sl_clear_upto_spec : forall s n, sl_wf s -> (0 <= n <= sl_cap s)%Z ->
  sl_wf (sl_clear_upto s n) /\ sl_cap (sl_clear_upto s n) = sl_cap s /\ slen (sl_clear_upto s n) = slen s.
Proof.
  intros s n Hw H. unfold sl_wf, sl_clear_upto, sl_cap in *. cbn [sarr slen].
  rewrite app_length, repeat_length, skipn_length. repeat split; lia.
Qed.

Lemma sl_delete_spec : forall s i j, sl_wf s -> (0 <= i <= j)%Z -> (j <= sl_len s)%Z ->
  sl_wf (sl_delete s i j) /\
  sl_list (sl_delete s i j) = firstn (Z.to_nat i) (sl_list s) ++ skipn (Z.to_nat j) (sl_list s) /\
  sl_cap (sl_delete s i j) = sl_cap s.
Proof.
  intros s i j Hw Hij Hj. pose proof (sl_list_length s Hw) as HL.
  unfold sl_wf, sl_delete, sl_cap, sl_len in *. cbn [sarr slen].
  set (kept := firstn (Z.to_nat i) (sl_list s) ++ skipn (Z.to_nat j) (sl_list s)).
  assert (Hk : length kept <= slen s).
  { subst kept. rewrite app_length, firstn_length, skipn_length. lia. }
  rewrite !app_length, repeat_length, skipn_length.
  repeat split; try lia.
  unfold sl_list at 1. cbn [sarr slen]. rewrite firstn_app, Nat.sub_diag, firstn_O, app_nil_r. apply firstn_all.
Qed.

Section AllocLemmas.
Variable alloc : Z -> Z.
Lemma fresh_spec : forall l, sl_wf (fresh alloc l) /\ sl_list (fresh alloc l) = l.
Proof.
  intros l. unfold sl_wf, sl_list, fresh. cbn [sarr slen]. rewrite app_length. split; [lia|].
  rewrite firstn_app, Nat.sub_diag, firstn_O, app_nil_r. apply firstn_all.
Qed.

Lemma sl_insert_spec : forall s i vs,
  sl_wf (sl_insert alloc s i vs) /\
  sl_list (sl_insert alloc s i vs) = firstn (Z.to_nat i) (sl_list s) ++ sl_list vs ++ skipn (Z.to_nat i) (sl_list s).
Proof.
  intros s i vs. unfold sl_insert.
  set (new := firstn (Z.to_nat i) (sl_list s) ++ sl_list vs ++ skipn (Z.to_nat i) (sl_list s)).
  destruct (Nat.leb_spec (length new) (length (sarr s))) as [H|H]; [|apply fresh_spec].
  unfold sl_wf, sl_list at 1. cbn [sarr slen]. rewrite app_length, skipn_length. split; [lia|].
  rewrite firstn_app, Nat.sub_diag, firstn_O, app_nil_r. apply firstn_all.
Qed.

(* in place (no reallocation, same capacity) when the capacity suffices *)
Lemma sl_insert_cap : forall s i vs, sl_wf s -> (0 <= i <= sl_len s)%Z -> (sl_len s + Z.of_nat (length (sl_list vs)) <= sl_cap s)%Z ->
  sl_cap (sl_insert alloc s i vs) = sl_cap s.
Proof.
  intros s i vs Hw Hi Hc. pose proof (sl_list_length s Hw) as HL. unfold sl_insert, sl_cap, sl_len in *.
  set (new := firstn (Z.to_nat i) (sl_list s) ++ sl_list vs ++ skipn (Z.to_nat i) (sl_list s)).
  assert (Hn : length new = slen s + length (sl_list vs)).
  { subst new. rewrite !app_length, firstn_length, skipn_length. lia. }
  destruct (Nat.leb_spec (length new) (length (sarr s))) as [H|H]; [|lia].
  cbn [sarr]. rewrite app_length, skipn_length. lia.
Qed.

Lemma sl_clone_spec : forall s, sl_wf (sl_clone alloc s) /\ sl_list (sl_clone alloc s) = sl_list s.
Proof. intros s. apply fresh_spec. Qed.
End AllocLemmas.
