(* DELETION path of trees/btree/btree.go, bottom-up pass, case BORROW FROM THE LEFT SIBLING of the GENERATED rebalance
   (see BTreeHeapRebalanceProofs.v): no obligations. *)
From Coq Require Import ZArith List Lia Bool Arith Permutation ZifyBool ZifyNat.
From Gods Require Import Common.Cmp Model.BTree Model.BTreeCost Proofs.BTreeInd Proofs.BTreeMap.
From Gods Require Proofs.BTreeInv.
From GodsGenProofs Require Import GoCmp GoTreeHeap GoBTreeHeap BTreeHeapRep BTreeHeapReadProofs BTreeHeapInsertModel BTreeHeapRemoveModel
  BTreeHeapWriteLemmas BTreeHeapRemoveLemmas BTreeHeapRebCommon.
From GodsGen Require BTreeHeapGen.
Import ListNotations.
Local Open Scope Z_scope.

Section Step.
Variable mag : Z -> Z -> positive.
Variable m : nat.
Hypothesis H3 : (3 <= m)%nat.
Variables (h : heap G.Node) (tr : G.Tree) (a : nat) (es : list BT.entry) (cs : list pnode)
          (b : nat) (pes : list BT.entry) (ls rs : list pnode) (c : pctx) (key : Z) (f n : nat).
Hypothesis Hz : zrep h tr (PF b pes ls rs :: c) (PN a es cs).
Hypothesis Hm : G.Tree_m tr = Z.of_nat m.
Hypothesis Hwf : (length ls + length rs = length pes)%nat.
Hypothesis Hpos : fst (BT.search (G.Tree_Comparator tr) key pes) = length ls.
Hypothesis Hu : (length es < BT.minEntries m)%nat.
Hypothesis Hfuel : (search_c (G.Tree_Comparator tr) key pes <= S f)%nat.

Let sc := search_c (G.Tree_Comparator tr) key pes.
Let rb := G.mkNode (cparent c) (eptrs pes) (cptrs ls ++ Some a :: cptrs rs).

Lemma step_a : hread h a = Some (node_of (Some b) es cs).
Proof. destruct Hz as (Hrep & _). exact (rep_deref _ _ _ _ _ Hrep). Qed.
Lemma step_b : hread h b = Some rb.
Proof. destruct Hz as (_ & Hcr & _). cbn [crep paddr] in Hcr. exact (proj1 Hcr). Qed.
Lemma step_ok : heap_ok h.
Proof. destruct Hz as (_ & _ & _ & Hok & _). exact Hok. Qed.
Lemma step_nd : NoDup ((a :: flat_map addrs cs) ++ b :: flat_map addrs ls ++ flat_map addrs rs ++ caddrs c).
Proof. destruct Hz as (_ & _ & Hnd & _). exact Hnd. Qed.
Lemma step_ab : a <> b.
Proof. pose proof step_nd as H. cbn [app] in H. apply NoDup_cons_iff in H. destruct H as [H _]. intro E. apply H. apply in_or_app. right. subst. now left. Qed.

Lemma step_under : (Z.of_nat (BT.minEntries m) <=? sl_len (eptrs es)) = false.
Proof. rewrite sl_len_eptrs. lia. Qed.

(* ---------- borrow from the left sibling ---------- *)
Lemma borrow_left_step : forall ls' al les lcs sep le,
  ls = ls' ++ [PN al les lcs] -> (BT.minEntries m < length les)%nat ->
  nth_error pes (length ls') = Some sep -> BT.last_opt les = Some le ->
  exists h',
    G.rebalance mag (S f) n h tr (Some a) key = Some ((n + sc)%nat, h', tr) /\
    zrep h' tr c (PN b (replace_at (length ls') le pes)
                     (ls' ++ PN al (removelast les) (fst (pbl_pair lcs cs)) :: PN a (sep :: es) (snd (pbl_pair lcs cs)) :: rs)).
Proof.
  intros ls' al les lcs sep le Els Hspare Hsep Hle.
  pose proof step_a as Ha. pose proof step_b as Hb. pose proof step_ok as Hok. pose proof step_nd as Hnd. pose proof step_ab as Hab.
  pose proof Hz as (Hrep & Hcr & _ & _ & Hroot). cbn [crep paddr cparent croot] in Hcr, Hroot. destruct Hcr as (_ & Hl & Hr & Hc).
  pose proof (rep_children _ _ _ _ _ Hrep) as Hch.
  assert (HL : rep h (Some b) (PN al les lcs)).
  { rewrite Forall_forall in Hl. apply Hl. rewrite Els. apply in_or_app. right. now left. }
  pose proof (rep_deref _ _ _ _ _ HL) as Hal. unfold deref in Hal. pose proof (rep_children _ _ _ _ _ HL) as Hlch.
  assert (Hlen' : length ls = S (length ls')) by (rewrite Els, app_length; cbn [length]; lia).
  assert (Hles : (1 <= length les)%nat) by lia.
  (* distinct addresses *)
  assert (Hnd2 := Hnd). cbn [app] in Hnd2. apply NoDup_cons_iff in Hnd2. destruct Hnd2 as [Hna Hnd2].
  apply NoDup_app_iff in Hnd2. destruct Hnd2 as (Hndc & Hndb & Hdisj).
  apply NoDup_cons_iff in Hndb. destruct Hndb as [Hnb Hndb].
  assert (Hinal : In al (flat_map addrs ls)) by (rewrite Els, flat_map_app; apply in_or_app; right; cbn [flat_map addrs]; now left).
  assert (Haal : a <> al) by (intro E; apply Hna; apply in_or_app; right; right; apply in_or_app; left; subst; exact Hinal).
  assert (Hbal : b <> al) by (intro E; apply Hnb; apply in_or_app; left; subst; exact Hinal).
  (* execution *)
  cbn [G.rebalance]. fold (G.rebalance mag). cbn [is_nil]. unfold deref. rewrite Ha. cbn [node_of G.Node_Entries].
  rewrite (minEntries_Z h tr m Hm ltac:(lia)), step_under. cbv iota.
  rewrite (leftSibling_spec mag h tr a _ b rb pes key (S f) n Ha eq_refl Hb eq_refl Hfuel). fold sc.
  assert (Enl : nth_error (G.Node_Children rb) (length ls') = Some (Some al)).
  { unfold rb. cbn [G.Node_Children]. rewrite Els, cptrs_app. cbn [cptrs map]. rewrite <- app_assoc. cbn [app].
    rewrite <- (len_cptrs ls'). apply nth_error_app_mid. }
  rewrite Hpos, Hlen', Enl. cbv iota beta. cbn [is_nil negb paddr].
  rewrite Hal. cbn [node_of G.Node_Entries]. rewrite sl_len_eptrs.
  assert (Hsp : (Z.of_nat (BT.minEntries m) <? Z.of_nat (length les)) = true) by lia. rewrite Hsp. cbv iota.
  set (RD := True).
  Ltac rd Ha Hb Hal rb := repeat (progress (try hh; rewrite ?Ha, ?Hb, ?Hal; try unfold rb;
    cbn [node_of G.Node_with_Entries G.Node_with_Children G.Node_with_Parent G.Node_Entries G.Node_Children G.Node_Parent])).
  rd Ha Hb Hal rb.
  rewrite sl_get_nat, nth_eptrs, Hsep. cbn [option_map].
  erewrite store_hset by exact Ha. rd Ha Hb Hal rb.
  rewrite sl_get_last, last_eptrs, Hle. cbn [option_map].
  rewrite sl_set_nat by (rewrite len_eptrs; lia). rewrite eptrs_replace_at.
  erewrite store_hset by (hsimp; exact Hb). rd Ha Hb Hal rb. rewrite sl_len_eptrs.
  replace (Z.of_nat (length les) - 1) with (Z.of_nat (length les - 1)) by lia.
  match goal with |- context [G.deleteEntry ?H _ _ _] => set (h2 := H) end.
  assert (Hal2 : hread h2 al = Some (node_of (Some b) les lcs)) by (unfold h2; hsimp; exact Hal).
  assert (H2a : hread h2 a = Some (G.mkNode (Some b) (eptrs (sep :: es)) (cptrs cs))) by (unfold h2; hsimp; reflexivity).
  assert (H2b : hread h2 b = Some (G.mkNode (cparent c) (eptrs (replace_at (length ls') le pes)) (cptrs ls ++ Some a :: cptrs rs)))
    by (unfold h2; hsimp; reflexivity).
  assert (H2o : forall x, x <> a -> x <> b -> hread h2 x = hread h x) by (intros x Hxa Hxb; unfold h2; hsimp; reflexivity).
  assert (Hok2 : heap_ok h2).
  { unfold h2. apply heap_ok_hset; [apply heap_ok_hset; [exact Hok|congruence]|]. hsimp. congruence. }
  clearbody h2.
  destruct (deleteEntry_spec h2 tr al _ (length les - 1)%nat Hal2) as (h3 & -> & Hu3); [cbn [node_of G.Node_Entries]; rewrite len_eptrs; lia|].
  cbn [node_of G.Node_Parent G.Node_Entries G.Node_Children] in Hu3.
  rewrite isLeaf_unfold. unfold deref. rd Ha Hb Hal rb. rewrite sl_len_cptrs.
  (* the final heap *)
  match goal with |- exists h', match ?B with _ => _ end = _ /\ _ =>
    assert (HF : exists hF, B = Some hF /\
      hread hF a = Some (G.mkNode (Some b) (eptrs (sep :: es)) (cptrs (snd (pbl_pair lcs cs)))) /\
      hread hF b = Some (G.mkNode (cparent c) (eptrs (replace_at (length ls') le pes)) (cptrs ls ++ Some a :: cptrs rs)) /\
      hread hF al = Some (G.mkNode (Some b) (eptrs (removelast les)) (cptrs (fst (pbl_pair lcs cs)))) /\
      (forall mc, BT.last_opt lcs = Some mc -> hread hF (paddr mc) = option_map (G.Node_with_Parent (Some a)) (hread h (paddr mc))) /\
      (forall x, x <> a -> x <> b -> x <> al -> (forall mc, BT.last_opt lcs = Some mc -> x <> paddr mc) -> hread hF x = hread h x) /\
      heap_ok hF)
  end.
  { assert (Hok3 : heap_ok h3) by (eapply hupd_ok; [exact Hu3|exact Hok2|unfold alloced; congruence]).
    assert (Hles' : remove_at (length les - 1) (eptrs les) = eptrs (removelast les)).
    { rewrite <- (len_eptrs les). rewrite remove_at_last by (destruct les; [cbn in Hles; lia|discriminate]). unfold eptrs. now rewrite removelast_map. }
    destruct (BTreeInv.list_rev_case _ lcs) as [->|(lcs0 & lc & ->)].
    - (* the sibling is a leaf *)
      cbn [length Z.of_nat Z.eqb negb pbl_pair fst snd]. eexists. split; [reflexivity|]. repeat split.
      + hup. exact H2a.
      + hup. exact H2b.
      + hup. now rewrite Hles'.
      + intros mc Hmc. discriminate.
      + intros x Hxa Hxb Hxl _. hup. now apply H2o.
      + exact Hok3.
    - (* the last child of the sibling moves over *)
      rewrite app_length. cbn [length]. assert (Hz0 : (Z.of_nat (length lcs0 + 1) =? 0) = false) by lia. rewrite Hz0. cbn [negb].
      replace (Z.of_nat (length lcs0 + 1) - 1) with (Z.of_nat (length lcs0)) by lia.
      rewrite cptrs_app. cbn [cptrs map]. rewrite sl_get_nat.
      match goal with |- context [@nth_error ?A ?L (length lcs0)] =>
        assert (E23 : @nth_error A L (length lcs0) = Some (Some (paddr lc))) by (rewrite <- (len_cptrs lcs0); apply nth_error_app_mid) end.
      rewrite E23.
      assert (Hlc : rep h (Some al) lc) by (rewrite Forall_forall in Hlch; apply Hlch; apply in_or_app; right; now left).
      destruct lc as [q qes qcs]. cbn [paddr] in *.
      assert (HN := Hnd). rewrite Els in HN. nd_facts HN.
      assert (Hqa : q <> a) by nd_auto. assert (Hqb : q <> b) by nd_auto. assert (Hqal : q <> al) by nd_auto.
      pose proof (rep_deref _ _ _ _ _ Hlc) as Hdq. unfold deref in Hdq.
      assert (T1 : hread h3 q = Some (node_of (Some al) qes qcs)) by (hup; rewrite H2o by neq; exact Hdq).
      rewrite (store_hset h3 q _ _ T1). hh. rewrite H2a. nsimp.
      match goal with |- context [store ?H (Some a) ?F] =>
        assert (T2 : hread H a = Some (G.mkNode (Some b) (eptrs (sep :: es)) (cptrs cs))) by (hsimp; hup; exact H2a);
        rewrite (store_hset H a _ F T2)
      end. hh.
      rewrite sl_len_cptrs.
      match goal with |- context [G.deleteChild ?H _ _ _] => set (h5 := H) end.
      assert (Hal5 : hread h5 al = Some (G.mkNode (Some b) (remove_at (length les - 1) (eptrs les)) (cptrs lcs0 ++ [Some q]))).
      { unfold h5. hsimp. hup. rewrite cptrs_app. reflexivity. }
      rewrite app_length. cbn [length]. replace (Z.of_nat (length lcs0 + 1) - 1) with (Z.of_nat (length lcs0)) by lia.
      destruct (deleteChild_spec h5 tr al _ (length lcs0) Hal5) as (h6 & -> & Hu6); [nsimp; rewrite app_length, len_cptrs; cbn [length]; lia|].
      nsimp. cbn [G.Node_Parent G.Node_Entries G.Node_Children] in Hu6.
      match type of Hu6 with context [@remove_at ?A ?i ?L] =>
        assert (Erm : @remove_at A i L = cptrs lcs0) by (rewrite <- (len_cptrs lcs0); rewrite remove_at_app; apply app_nil_r) end.
      rewrite Erm in Hu6.
      assert (Epair : pbl_pair (lcs0 ++ [PN q qes qcs]) cs = (lcs0, PN q qes qcs :: cs)).
      { unfold pbl_pair. rewrite BTreeInd.last_opt_app, removelast_last. destruct (lcs0 ++ [PN q qes qcs]) eqn:E; [destruct lcs0; discriminate|reflexivity]. }
      rewrite Epair. cbn [fst snd].
      assert (Hok5 : heap_ok h5).
      { unfold h5. apply heap_ok_hset; [apply heap_ok_hset; [exact Hok3|rewrite T1; discriminate]|rewrite T2; discriminate]. }
      eexists. split; [reflexivity|]. repeat split.
      * hup. unfold h5. hsimp. reflexivity.
      * hup. unfold h5. hsimp. hup. exact H2b.
      * hup. now rewrite Hles'.
      * intros mc Hmc. rewrite BTreeInd.last_opt_app in Hmc. injection Hmc as <-. cbn [paddr].
        hup. unfold h5. hsimp. now rewrite Hdq.
      * intros x Hxa Hxb Hxl Hxq. specialize (Hxq _ (BTreeInd.last_opt_app _ _ _)). cbn [paddr] in Hxq.
        hup. unfold h5. hsimp. hup. now apply H2o.
      * eapply hupd_ok; [exact Hu6|exact Hok5|unfold alloced; congruence]. }
  destruct HF as (hF & -> & F1 & F2 & F3 & F4 & F5 & F6). exists hF. split; [reflexivity|].
  assert (F2' : hread hF b = Some (G.mkNode (cparent c) (eptrs (replace_at (length ls') le pes))
                  (cptrs (ls' ++ PN al (removelast les) (fst (pbl_pair lcs cs)) :: PN a (sep :: es) (snd (pbl_pair lcs cs)) :: rs)))).
  { rewrite F2, Els. rewrite !cptrs_app. cbn [cptrs map paddr]. now rewrite <- app_assoc. }
  assert (HN := Hnd). rewrite Els in HN.
  destruct (BTreeInv.list_rev_case _ lcs) as [Elcs|(lcs0 & mc & Elcs)]; subst lcs.
  - (* no child moves *)
    cbn [pbl_pair fst snd] in *. nd_facts HN.
    assert (Hfr : forall x, x <> a -> x <> b -> x <> al -> hread hF x = hread h x) by (intros; apply F5; try assumption; intros; discriminate).
    eapply (zrep_rebuild h hF tr b pes ls rs c (PN a es cs)); [exact Hz|exact F6| |exact F2'| | |].
    + intros x Hx. apply Hfr; intro; subst x; contradiction.
    + rewrite Els in Hl. apply Forall_app in Hl. destruct Hl as [Hl' _].
      apply Forall_app. split; [|constructor; [|constructor]].
      * eapply Forall_rep_frame; [|exact Hl']. intros x Hx. apply Hfr; intro; subst x; contradiction.
      * apply rep_unfold. split; [exact F3|constructor].
      * apply rep_unfold. split; [exact F1|]. eapply Forall_rep_frame; [|exact Hch]. intros x Hx. apply Hfr; intro; subst x; contradiction.
      * eapply Forall_rep_frame; [|exact Hr]. intros x Hx. apply Hfr; intro; subst x; contradiction.
    + nd_goal; try nd_auto; try exact I.
    + intros x Hx. rewrite Els. rewrite !flat_map_app in *. cbn [flat_map addrs app] in *. rewrite <- !app_assoc. exact Hx.
  - (* the last child mc of the sibling has moved to the front of the node's children *)
    assert (Epair : pbl_pair (lcs0 ++ [mc]) cs = (lcs0, mc :: cs)).
    { unfold pbl_pair. rewrite BTreeInd.last_opt_app, removelast_last. destruct (lcs0 ++ [mc]) eqn:E; [destruct lcs0; discriminate|reflexivity]. }
    rewrite Epair in *. cbn [fst snd] in *.
    specialize (F4 mc (BTreeInd.last_opt_app _ _ _)).
    assert (F5' : forall x, x <> a -> x <> b -> x <> al -> x <> paddr mc -> hread hF x = hread h x).
    { intros x H1 H2 H3' H4. apply F5; try assumption. intros mc0 Hmc0. rewrite BTreeInd.last_opt_app in Hmc0. injection Hmc0 as <-. exact H4. }
    destruct mc as [q qes qcs]. cbn [paddr] in *. nd_facts HN.
    assert (Hmc : rep h (Some al) (PN q qes qcs)) by (rewrite Forall_forall in Hlch; apply Hlch; apply in_or_app; right; now left).
    apply Forall_app in Hlch. destruct Hlch as [Hlch0 _].
    eapply (zrep_rebuild h hF tr b pes ls rs c (PN a es cs)); [exact Hz|exact F6| |exact F2'| | |].
    + intros x Hx. apply F5'; intro; subst x; contradiction.
    + rewrite Els in Hl. apply Forall_app in Hl. destruct Hl as [Hl' _].
      apply Forall_app. split; [|constructor; [|constructor]].
      * eapply Forall_rep_frame; [|exact Hl']. intros x Hx. apply F5'; intro; subst x; contradiction.
      * apply rep_unfold. split; [exact F3|]. eapply Forall_rep_frame; [|exact Hlch0]. intros x Hx. apply F5'; intro; subst x; contradiction.
      * apply rep_unfold. split; [exact F1|]. constructor.
        -- apply (rep_reparent h hF (Some al)); [nd_goal; nd_auto|exact Hmc|exact F4|].
           cbn [paddr addrs]. intros x [<-|Hx] Hne; [congruence|]. apply F5'; intro; subst x; contradiction.
        -- eapply Forall_rep_frame; [|exact Hch]. intros x Hx. apply F5'; intro; subst x; contradiction.
      * eapply Forall_rep_frame; [|exact Hr]. intros x Hx. apply F5'; intro; subst x; contradiction.
    + nd_goal; try nd_auto; try exact I.
    + intros x Hx. rewrite Els. autorewrite with ndb in Hx |- *. clear - Hx. repeat (progress (cbn [In app] in Hx; rewrite ?in_app_iff, ?app_nil_r in Hx)). repeat (progress (cbn [In app]; rewrite ?in_app_iff, ?app_nil_r)). tauto.
Qed.
End Step.
