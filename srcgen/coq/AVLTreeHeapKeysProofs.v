(* Keys() / Values() of trees/avltree/avltree.go in TREE POINTER MODE (GodsGen.AVLTreeHeapGen): the slice made with
   make([]K, tree.size) and filled through a local ITERATOR OBJECT (`it := tree.Iterator(); for i := 0; it.Next(); i++ {
   keys[i] = it.Key() }`) is AVL.keys t / AVL.values t, for every represented tree whose size field is its node count; no
   index-out-of-range, no nil dereference, no fuel exhaustion with fuel > count + height. *)
From Coq Require Import ZArith List Lia Bool Arith ZifyBool ZifyNat.
From Gods Require Import Common.Cmp Model.AVLTree Proofs.IterTreeRB Proofs.IterTreeAVL.
From GodsGenProofs Require Import GoCmp GoTreeHeap AVLTreeHeapRep AVLTreeHeapIterProofs.
From GodsGenProofs Require GoHeap.
From GodsGen Require AVLTreeHeapGen.
Import ListNotations.
Local Open Scope Z_scope.

(* writing the j-th element of a partially filled slice *)
Lemma fill_step : forall (A : Type) (f : A -> Z) (L : list A) (j : nat) (e : A),
  nth_error L j = Some e ->
  GoHeap.hs_set (map f (firstn j L) ++ repeat 0 (length L - j)) (Z.of_nat j) (f e)
  = Some (map f (firstn (S j) L) ++ repeat 0 (length L - S j)).
Proof.
  intros A f L j e Hn. assert (Hj : (j < length L)%nat) by (apply nth_error_Some; congruence).
  assert (Hlen : length (map f (firstn j L)) = j) by (rewrite map_length, firstn_length; lia).
  unfold GoHeap.hs_set, GoHeap.hs_in, GoHeap.hs_len. rewrite app_length, Hlen, repeat_length.
  replace ((0 <=? Z.of_nat j) && (Z.of_nat j <? Z.of_nat (j + (length L - j)))) with true by (symmetry; apply andb_true_iff; split; [apply Z.leb_le|apply Z.ltb_lt]; lia).
  f_equal. rewrite Nat2Z.id. replace (Z.to_nat (Z.of_nat j + 1)) with (S j) by lia.
  rewrite firstn_app, Hlen, Nat.sub_diag, firstn_O, app_nil_r, firstn_all2 by lia.
  rewrite skipn_app, Hlen, skipn_all2 by lia. cbn [app].
  replace (S j - j)%nat with 1%nat by lia. replace (length L - j)%nat with (S (length L - S j)) by lia. cbn [repeat skipn].
  rewrite (firstn_S_nth A L j e Hn), map_app. cbn [map]. rewrite <- app_assoc. reflexivity.
Qed.

Lemma c_step : forall (L : list (Z * Z)) (j : nat), (j <= length L)%nat ->
  c_next L (Z.of_nat j - 1) = Z.of_nat j /\ c_in L (Z.of_nat j) = (j <? length L)%nat.
Proof.
  intros L j Hj. unfold c_next, c_in, cn. split.
  - replace (Z.of_nat j - 1 <? Z.of_nat (length L)) with true by (symmetry; apply Z.ltb_lt; lia). lia.
  - replace (0 <=? Z.of_nat j) with true by (symmetry; apply Z.leb_le; lia). cbn [andb].
    destruct (Nat.ltb_spec j (length L)); [apply Z.ltb_lt|apply Z.ltb_ge]; lia.
Qed.

Section Walk.
Variables (h : heap G.Node) (tr : G.Tree) (pt : ptree).
Hypothesis Hrep : rep h None pt.
Hypothesis Hnd : NoDup (addrs pt).
Hypothesis Hroot : G.Tree_Root tr = root_ptr pt.
Let t := erase pt.
Let L := AVL.inorder t.

Lemma Next_step : forall it ip fuel, irep pt it ip -> (AVL.height t < fuel)%nat ->
  let q := c_next L (AI.pos_of t ip) in
  exists it' ip', G.Iterator_Next fuel h tr it = Some (it', c_in L q) /\ irep pt it' ip' /\ AI.pos_of t ip' = q /\
    (c_in L q = true -> exists k v, nth_error L (Z.to_nat q) = Some (k, v) /\ G.Key h it' = Some k /\ G.Value h it' = Some v).
Proof.
  intros it ip fuel Hir Hf q.
  destruct (Next_Prev_inorder h tr pt it ip fuel Hrep Hnd Hroot Hir Hf) as ((it' & ip' & Hrun & Hir' & Hpos) & _).
  fold t L q in Hrun, Hpos. exists it', ip'. split; [exact Hrun|]. split; [exact Hir'|]. split; [exact Hpos|].
  intros Hin. pose proof (irep_valid _ _ _ Hir') as Hv'. fold t in Hv'. rewrite <- Hpos in Hin.
  pose proof (AI.ikv_ok t ip' Hv' Hin) as Hkv. rewrite Hpos in Hkv. fold L in Hkv.
  pose proof (Key_Value_correct h pt it' ip' Hrep Hir') as HKV. fold t in HKV. rewrite Hkv in HKV.
  destruct (nth_error L (Z.to_nat q)) as [[k v]|] eqn:En.
  - exists k, v. destruct HKV as (HK & HV). repeat split; assumption.
  - exfalso. rewrite Hpos in Hin. unfold c_in, cn in Hin. apply andb_true_iff in Hin. destruct Hin as (H0 & H1).
    apply Z.leb_le in H0. apply Z.ltb_lt in H1. apply nth_error_None in En. lia.
Qed.

Lemma Keys_loop_spec : forall rem j it ip fuel,
  irep pt it ip -> AI.pos_of t ip = Z.of_nat j - 1 -> (j + rem = length L)%nat -> (rem + AVL.height t < fuel)%nat ->
  exists it', G.Keys_loop1 fuel h tr (map fst (firstn j L) ++ repeat 0 (length L - j)) it (Z.of_nat j) = Some (map fst L, it').
Proof.
  induction rem as [|rem IH]; intros j it ip fuel Hir Hpos Hj Hf.
  - destruct (Next_step it ip fuel Hir ltac:(lia)) as (it' & ip' & Hrun & _).
    rewrite Hpos in Hrun. destruct (c_step L j ltac:(lia)) as (E1 & E2). rewrite E1, E2 in Hrun.
    replace (j <? length L)%nat with false in Hrun by (symmetry; apply Nat.ltb_ge; lia).
    exists it'. destruct fuel; cbn [G.Keys_loop1]; rewrite Hrun; replace j with (length L) by lia;
      rewrite firstn_all, Nat.sub_diag; cbn [repeat]; rewrite app_nil_r; reflexivity.
  - destruct (Next_step it ip fuel Hir ltac:(lia)) as (it' & ip' & Hrun & Hir' & Hpos' & Hkv).
    rewrite Hpos in Hrun, Hpos', Hkv. destruct (c_step L j ltac:(lia)) as (E1 & E2). rewrite E1, E2 in *.
    replace (j <? length L)%nat with true in * by (symmetry; apply Nat.ltb_lt; lia).
    destruct (Hkv eq_refl) as (k & v & Hnth & HK & _). rewrite Nat2Z.id in Hnth.
    destruct fuel as [|fuel]; [lia|]. cbn [G.Keys_loop1]. rewrite Hrun, HK.
    pose proof (fill_step _ fst L j (k, v) Hnth) as Hfill. cbn [fst] in Hfill. rewrite Hfill. replace (Z.of_nat j + 1) with (Z.of_nat (S j)) by lia.
    apply (IH (S j) it' ip' fuel Hir'); [rewrite Hpos'; lia|lia|lia].
Qed.

Lemma Values_loop_spec : forall rem j it ip fuel,
  irep pt it ip -> AI.pos_of t ip = Z.of_nat j - 1 -> (j + rem = length L)%nat -> (rem + AVL.height t < fuel)%nat ->
  exists it', G.Values_loop1 fuel h tr (map snd (firstn j L) ++ repeat 0 (length L - j)) it (Z.of_nat j) = Some (map snd L, it').
Proof.
  induction rem as [|rem IH]; intros j it ip fuel Hir Hpos Hj Hf.
  - destruct (Next_step it ip fuel Hir ltac:(lia)) as (it' & ip' & Hrun & _).
    rewrite Hpos in Hrun. destruct (c_step L j ltac:(lia)) as (E1 & E2). rewrite E1, E2 in Hrun.
    replace (j <? length L)%nat with false in Hrun by (symmetry; apply Nat.ltb_ge; lia).
    exists it'. destruct fuel; cbn [G.Values_loop1]; rewrite Hrun; replace j with (length L) by lia;
      rewrite firstn_all, Nat.sub_diag; cbn [repeat]; rewrite app_nil_r; reflexivity.
  - destruct (Next_step it ip fuel Hir ltac:(lia)) as (it' & ip' & Hrun & Hir' & Hpos' & Hkv).
    rewrite Hpos in Hrun, Hpos', Hkv. destruct (c_step L j ltac:(lia)) as (E1 & E2). rewrite E1, E2 in *.
    replace (j <? length L)%nat with true in * by (symmetry; apply Nat.ltb_lt; lia).
    destruct (Hkv eq_refl) as (k & v & Hnth & _ & HV). rewrite Nat2Z.id in Hnth.
    destruct fuel as [|fuel]; [lia|]. cbn [G.Values_loop1]. rewrite Hrun, HV.
    pose proof (fill_step _ snd L j (k, v) Hnth) as Hfill. cbn [snd] in Hfill. rewrite Hfill. replace (Z.of_nat j + 1) with (Z.of_nat (S j)) by lia.
    apply (IH (S j) it' ip' fuel Hir'); [rewrite Hpos'; lia|lia|lia].
Qed.
End Walk.

(* OBLIGATION *)
Theorem Keys_Values_correct : forall h tr t fuel,
  tree_repr h tr t -> G.Tree_size tr = Z.of_nat (AVL.count t) -> (AVL.count t + AVL.height t < fuel)%nat ->
  G.Keys fuel h tr = Some (AVL.keys t) /\ G.Values fuel h tr = Some (AVL.values t).
Proof.
  intros h tr t fuel (pt & <- & Hroot & Hrep & Hnd) Hsz Hf.
  assert (Hlen : length (AVL.inorder (erase pt)) = AVL.count (erase pt)) by apply AI.length_inorder.
  assert (Hmake : GoHeap.hs_make (G.Tree_size tr) (G.Tree_size tr) = Some (repeat 0 (length (AVL.inorder (erase pt))))).
  { unfold GoHeap.hs_make. rewrite Hsz, Hlen, Nat2Z.id. 
    replace ((Z.of_nat (AVL.count (erase pt)) <? 0) || (Z.of_nat (AVL.count (erase pt)) <? Z.of_nat (AVL.count (erase pt)))) with false; [reflexivity|].
    symmetry. apply orb_false_iff. split; apply Z.ltb_ge; lia. }
  split.
  - unfold G.Keys. rewrite Hmake. cbn [G.Tree_Iterator].
    destruct (Keys_loop_spec h tr pt Hrep Hnd (eq_sym Hroot) (length (AVL.inorder (erase pt))) O (G.mkIterator None G.begin) AVL.IBegin fuel (conj eq_refl eq_refl) eq_refl eq_refl ltac:(lia)) as (it' & Hrun).
    cbn [firstn map app] in Hrun. rewrite Nat.sub_0_r in Hrun. change (Z.of_nat 0) with 0 in Hrun. rewrite Hrun. reflexivity.
  - unfold G.Values. rewrite Hmake. cbn [G.Tree_Iterator].
    destruct (Values_loop_spec h tr pt Hrep Hnd (eq_sym Hroot) (length (AVL.inorder (erase pt))) O (G.mkIterator None G.begin) AVL.IBegin fuel (conj eq_refl eq_refl) eq_refl eq_refl ltac:(lia)) as (it' & Hrun).
    cbn [firstn map app] in Hrun. rewrite Nat.sub_0_r in Hrun. change (Z.of_nat 0) with 0 in Hrun. rewrite Hrun. reflexivity.
Qed.
Print Assumptions Keys_Values_correct.
