(* maps/treebidimap/serialization.go (in GodsGen.TreeBidiMapGen), encoding/json abstract: FromJSON decodes into a fresh map;
   on an error the receiver is unchanged; on success Clear, then the PUBLIC Put for every decoded entry (in the order
   `range` visits them) = Machine.put_entries (tbidi_puts) from init; ToJSON delegates to forwardMap.ToJSON(). *)
From Coq Require Import ZArith List Lia Bool Arith.
From Gods Require Import Common.Cmp Common.ListAux Spec.SeqSpec Model.Ops Model.Machine.
From Gods Require Model.RBTree.
From GodsGen Require TreeBidiMapGen.
From GodsGenProofs Require Import GenIterRun WrapCommon GoMap GoCmp GoJson TreeBidiMapGenProofs TreeBidiMapEnumProofs.
Import ListNotations.
Local Open Scope Z_scope.

Section Json.
Variable umm : bytes -> gmap -> gmap * bool.
Variable mo : gmap -> list (Z * Z).
Variable c : config.
Hypothesis Hk : ckind c = TreeBidiMap.
Variables (f : RB.tree) (fn : Z) (i : RB.tree) (inn : Z).
Notation g := (B.mkMap IF II (kc c, Some (f, fn)) (vc c, Some (i, inn))).

(* OBLIGATION *)
Theorem FromJSON_equiv : forall data,
  if snd (umm data gm_empty) then B.FromJSON umm mo IF II g data = (g, true)
  else st2 (fst (B.FromJSON umm mo IF II g data)) = put_entries c (mo (fst (umm data gm_empty))) (init c) /\
       snd (B.FromJSON umm mo IF II g data) = false.
Proof.
  intros data. unfold B.FromJSON. destruct (umm data gm_empty) as [m' e]. destruct e; cbn [fst snd]; [reflexivity|].
  destruct (B.Clear IF II g) as [g1 u1] eqn:EC.
  assert (Hg1 : g1 = B.NewWith IF II (kc c) (vc c)) by (unfold B.Clear in EC; cbn in EC; now injection EC as <- _).
  subst g1. cbn [fst snd]. cbv zeta. split; [|reflexivity].
  match goal with |- context [fold_left ?Bd (mo m') ?R] =>
    rewrite (fold_left_ext_in _ _ Bd put1)
      by (intros a kv _; unfold put1; destruct (B.Put IF II a (fst kv) (snd kv)); reflexivity) end.
  apply (entries_st c Hk).
Qed.

(* OBLIGATION *)
Theorem ToJSON_equiv : forall JF JI g0,
  B.ToJSON JF JI g0 = B.forwardMap_ToJSON JF (B.forwardMap JF JI g0) /\ B.MarshalJSON JF JI g0 = B.ToJSON JF JI g0 /\
  (forall data, B.UnmarshalJSON umm mo JF JI g0 data = B.FromJSON umm mo JF JI g0 data).
Proof.
  intros JF JI g0. unfold B.ToJSON, B.MarshalJSON, B.UnmarshalJSON. repeat split.
  - now destruct (B.forwardMap_ToJSON JF (B.forwardMap JF JI g0)).
  - unfold B.ToJSON. now destruct (B.forwardMap_ToJSON JF (B.forwardMap JF JI g0)).
  - intros data. now destruct (B.FromJSON umm mo JF JI g0 data).
Qed.
End Json.

Print Assumptions FromJSON_equiv.
Print Assumptions ToJSON_equiv.
