(* sets/hashset/hashset.go regenerated over GoMap.v (GodsGen.HashSetGen) against Model/Machine.v for a StHSet
   state (the model's set l is the key list of the Go map: items = [(x, 0) | x in l]): Add / Remove / Clear =
   step, Contains = contains_of, Size = size_of; Values() and the set algebra range over the map in the order
   of the parameter map_order: for ANY enumeration that is a permutation of the entries, Values() is a
   permutation of the model's values and Intersection / Union / Difference have the MEMBERSHIP of the model's
   hs_inter / hs_union / hs_diff. *)
From Coq Require Import ZArith List Lia Bool Arith Permutation.
From Gods Require Import Common.Cmp Common.ListAux Spec.SeqSpec Spec.MapSpec Model.Ops Model.Machine.
From Gods Require Import Proofs.C05Proofs.
From GodsGen Require HashSetGen.
From GodsGenProofs Require Import GenIterRun WrapCommon GoMap.
From GodsGenProofs Require HashMapGenProofs.
Import ListNotations.
Local Open Scope Z_scope.

Module S := HashSetGen.

Module Names.
Import Coq.Strings.String.
(* OBLIGATION *)
Theorem translated_functions :
  S.translated = ["Add"; "Clear"; "Contains"; "Difference"; "Empty"; "FromJSON"; "Intersection"; "MarshalJSON"; "New"; "Remove"; "Size"; "ToJSON"; "Union"; "UnmarshalJSON"; "Values"]%string
  /\ S.skipped = ["String"]%string /\ S.not_selected = [].
Proof. repeat split. Qed.
Print Assumptions translated_functions.
End Names.

(* the Go map of a set *)
Definition zp (l : list Z) : list (Z * Z) := map (fun y => (y, 0)) l.
Definition set_rel (g : S.Set_) (l : list Z) : Prop := S.items g = zp l.

Lemma forallb_forall_map : forall (p : Z -> bool) (f : nat -> Z) idx, forallb p (map f idx) = forallb (fun i => p (f i)) idx.
Proof. intros p f idx. induction idx as [|i idx IH]; cbn [map forallb]; [reflexivity|]. now rewrite IH. Qed.

Definition zero_vals (m : list (Z * Z)) : Prop := Forall (fun e => snd e = 0) m.

Lemma zp_zero : forall l, zero_vals (zp l).
Proof. induction l as [|x l IH]; constructor; auto. Qed.
Lemma zp_map_fst : forall m, zero_vals m -> zp (map fst m) = m.
Proof.
  induction m as [|[k v] m IH]; intros H; [reflexivity|]. inversion H as [|e m' Hv Hm]; subst. cbn in Hv. subst v.
  cbn [map zp fst]. f_equal. now apply IH.
Qed.
Lemma map_fst_zp : forall l, map fst (zp l) = l.
Proof. induction l as [|x l IH]; cbn [zp map fst]; [reflexivity|]. f_equal. exact IH. Qed.

Lemma hput_zero : forall x m, zero_vals m -> zero_vals (hput x 0 m).
Proof.
  unfold hput. intros x m. induction m as [|[k v] m IH]; intros H; cbn [ins_list]; [repeat constructor|].
  inversion H as [|e m' Hv Hm]; subst. destruct (Z.compare x k).
  - constructor; [reflexivity|exact Hm].
  - constructor; [reflexivity|exact H].
  - constructor; [exact Hv|exact (IH Hm)].
Qed.
Lemma hdel_zero : forall x m, zero_vals m -> zero_vals (hdel x m).
Proof.
  unfold hdel. intros x m. induction m as [|[k v] m IH]; intros H; cbn [del_list]; [constructor|].
  inversion H as [|e m' Hv Hm]; subst. destruct (Z.compare x k).
  - exact Hm.
  - exact H.
  - constructor; [exact Hv|exact (IH Hm)].
Qed.

Lemma zp_sadd : forall x l, zp (sadd x l) = hput x 0 (zp l).
Proof. intros x l. unfold sadd. fold (zp l). apply zp_map_fst, hput_zero, zp_zero. Qed.
Lemma zp_sdel : forall x l, zp (sdel x l) = hdel x (zp l).
Proof. intros x l. unfold sdel. fold (zp l). apply zp_map_fst, hdel_zero, zp_zero. Qed.

Lemma hget_zp : forall x l, hget x (zp l) = if smem x l then Some 0 else None.
Proof.
  intros x l. unfold hget, smem. induction l as [|y l IH]; cbn [zp map find existsb fst]; [reflexivity|].
  rewrite (Z.eqb_sym x y). destruct (y =? x); cbn [orb snd]; [reflexivity|]. exact IH.
Qed.
Lemma lookup_zp : forall x l, gm_lookup (zp l) x = (0, smem x l).
Proof. intros x l. unfold gm_lookup. rewrite hget_zp. destruct (smem x l); reflexivity. Qed.

Lemma hmem_hput : forall x k v m, hmem x (hput k v m) = (k =? x) || hmem x m.
Proof.
  unfold hmem, hput. intros x k v m. induction m as [|[k' v'] m IH]; cbn [ins_list existsb fst]; [reflexivity|].
  destruct (Z.compare_spec k k') as [E|L|G]; cbn [existsb fst].
  - subst k'. destruct (k =? x); reflexivity.
  - reflexivity.
  - rewrite IH. destruct (k =? x), (k' =? x); reflexivity.
Qed.
Lemma hmem_zp : forall x l, hmem x (zp l) = smem x l.
Proof.
  unfold hmem, smem, zp. intros x l. induction l as [|y l IH]; cbn [map existsb fst]; [reflexivity|].
  rewrite (Z.eqb_sym x y). now rewrite IH.
Qed.

Section Equiv.
Variable c : config.

(* OBLIGATION *)
Theorem New_equiv : ckind c = HashSet -> set_rel (S.New []) [] /\ init c = StHSet [].
Proof. intros Hk. split; [reflexivity|]. unfold init. now rewrite Hk. Qed.

(* OBLIGATION: Add(items...) = the machine's Add *)
Theorem Add_equiv : ckind c = HashSet -> forall g l vs, set_rel g l ->
  exists l', step c (StHSet l) (Add vs) = (StHSet l', ounit, onone) /\ set_rel (fst (S.Add g vs)) l'.
Proof.
  intros Hk g l vs Hrel. unfold step, add_values. rewrite Hk. eexists. split; [reflexivity|].
  unfold S.Add. cbn [fst].
  rewrite (range_fold S.Set_ (fun g x => S.set_items g (gm_put (S.items g) x 0)) vs g).
  revert g l Hrel. induction vs as [|x vs IH]; intros g l Hrel; cbn [fold_left]; [exact Hrel|].
  apply IH. unfold set_rel in *. cbn [S.items S.set_items]. rewrite Hrel. unfold gm_put. now rewrite zp_sadd.
Qed.

(* OBLIGATION *)
Theorem Remove_equiv : ckind c = HashSet -> forall g l vs, set_rel g l ->
  exists l', step c (StHSet l) (RemoveVals vs) = (StHSet l', ounit, onone) /\ set_rel (fst (S.Remove g vs)) l'.
Proof.
  intros Hk g l vs Hrel. unfold step. rewrite Hk. eexists. split; [reflexivity|].
  unfold S.Remove. cbn [fst].
  rewrite (range_fold S.Set_ (fun g x => S.set_items g (gm_del (S.items g) x)) vs g).
  revert g l Hrel. induction vs as [|x vs IH]; intros g l Hrel; cbn [fold_left]; [exact Hrel|].
  apply IH. unfold set_rel in *. cbn [S.items S.set_items]. rewrite Hrel. unfold gm_del. now rewrite zp_sdel.
Qed.

(* OBLIGATION *)
Theorem Clear_equiv : ckind c = HashSet -> forall g l,
  step c (StHSet l) Clear = (StHSet [], ounit, onone) /\ set_rel (fst (S.Clear g)) [].
Proof. intros Hk g l. split; [unfold step, init; now rewrite Hk|reflexivity]. Qed.

(* OBLIGATION *)
Theorem Contains_equiv : forall g l vs, set_rel g l -> contains_of c (StHSet l) vs = obool (S.Contains g vs).
Proof.
  intros g l vs Hrel. unfold contains_of. f_equal. unfold S.Contains. rewrite Nat2Z.id.
  rewrite <- (map_nth_seq_ vs) at 1. rewrite forallb_forall_map.
  generalize (seq 0 (length vs)) as idx. induction idx as [|i idx IH]; cbn [map S.Contains_loop1 forallb]; [reflexivity|].
  rewrite Hrel, lookup_zp, Nat2Z.id. unfold get. destruct (smem (nth i vs 0) l); cbn [negb andb]; [exact IH|reflexivity].
Qed.

(* OBLIGATION *)
Theorem Size_equiv : forall g l, set_rel g l -> S.Size g = size_of c (StHSet l).
Proof. intros g l Hrel. unfold S.Size, gm_len, size_of, zlen. rewrite Hrel. unfold zp. now rewrite map_length. Qed.

(* OBLIGATION *)
Theorem Empty_equiv : forall g l, set_rel g l -> S.Empty g = (size_of c (StHSet l) =? 0).
Proof. intros g l Hrel. unfold S.Empty. now rewrite (Size_equiv g l Hrel). Qed.

(* OBLIGATION: Values() in the enumeration's order; for any permutation, a permutation of the model's values *)
Theorem Values_equiv : forall mo g l, set_rel g l -> Permutation (mo (zp l)) (zp l) ->
  S.Values mo g = map fst (mo (zp l)) /\ Permutation (S.Values mo g) (values_of c (StHSet l)) /\
  (forall x, In x (S.Values mo g) <-> In x l).
Proof.
  intros mo g l Hrel HP.
  assert (HV : S.Values mo g = map fst (mo (zp l))).
  { unfold S.Values, S.Size, gm_len, zlen. rewrite Hrel, Nat2Z.id. cbv zeta.
    match goal with |- (let '(a, _) := ?X in a) = _ => transitivity (fst X); [destruct X; reflexivity|] end.
    exact (HashMapGenProofs.collect_all fst (mo (zp l)) (length (zp l)) (eq_sym (Permutation_length HP))). }
  assert (HPm : Permutation (map fst (mo (zp l))) l).
  { rewrite <- (map_fst_zp l) at 2. now apply Permutation_map. }
  rewrite HV. refine (conj eq_refl (conj HPm _)).
  intros x. split; intros Hin; [exact (Permutation_in x HPm Hin)|exact (Permutation_in x (Permutation_sym HPm) Hin)].
Qed.
End Equiv.

Print Assumptions New_equiv.
Print Assumptions Add_equiv.
Print Assumptions Remove_equiv.
Print Assumptions Clear_equiv.
Print Assumptions Contains_equiv.
Print Assumptions Size_equiv.
Print Assumptions Empty_equiv.
Print Assumptions Values_equiv.

(* ====================== set algebra: membership, for any iteration order ====================== *)
Lemma existsb_perm : forall (A : Type) (p : A -> bool) (a b : list A), Permutation a b -> existsb p a = existsb p b.
Proof.
  intros A p a b H. induction H as [|x a b H IH|x y a|a b d H1 IH1 H2 IH2]; cbn [existsb]; try congruence.
  destruct (p x), (p y); reflexivity.
Qed.

Lemma existsb_zp : forall (P : Z -> bool) x l,
  existsb (fun kv : Z * Z => (fst kv =? x) && P (fst kv)) (zp l) = smem x l && P x.
Proof.
  intros P x l. unfold smem, zp. induction l as [|y l IH]; cbn [map existsb fst]; [reflexivity|].
  rewrite IH, (Z.eqb_sym x y). destruct (Z.eqb_spec y x) as [->|N]; cbn [andb orb]; [|reflexivity].
  destruct (P x); cbn [orb]; [reflexivity|]. now rewrite andb_false_r.
Qed.

Lemma smem_filter : forall (P : Z -> bool) x l, smem x (filter P l) = smem x l && P x.
Proof.
  intros P x l. unfold smem. induction l as [|y l IH]; cbn [filter existsb]; [reflexivity|].
  destruct (P y) eqn:E; cbn [existsb]; rewrite IH; destruct (Z.eqb_spec x y) as [->|N]; cbn [orb andb]; try reflexivity.
  - now rewrite E.
  - now rewrite E, andb_false_r.
Qed.

Lemma Add_one : forall r v, S.Add r [v] = (S.set_items r (gm_put (S.items r) v 0), tt).
Proof. reflexivity. Qed.

(* the loop `for item := range m { if P(item) { result.Add(item) } }` over an enumeration es *)
Lemma cond_add_fold : forall (P : Z -> bool) x (es : list (Z * Z)) r,
  let r' := fold_left (fun r (kv : Z * Z) => if P (fst kv) then fst (S.Add r [fst kv]) else r) es r in
  hmem x (S.items r') = hmem x (S.items r) || existsb (fun kv => (fst kv =? x) && P (fst kv)) es /\
  (zero_vals (S.items r) -> zero_vals (S.items r')).
Proof.
  intros P x es. induction es as [|[k v] es IH]; intros r; cbn [fold_left existsb fst].
  - now rewrite orb_false_r.
  - destruct (IH (if P k then fst (S.Add r [k]) else r)) as [IH1 IH2]. cbn zeta in *. split.
    + rewrite IH1. destruct (P k); [|now rewrite andb_false_r].
      rewrite Add_one. cbn [fst S.items S.set_items]. unfold gm_put. rewrite hmem_hput, andb_true_r.
      destruct (k =? x), (hmem x (S.items r)); reflexivity.
    + intros Hz. apply IH2. destruct (P k); [|exact Hz].
      rewrite Add_one. cbn [fst S.items S.set_items]. now apply hput_zero.
Qed.

Section Algebra.
Variable mo : gmap -> list (Z * Z).
Hypothesis mo_perm : forall m, Permutation (mo m) m.     (* `range` visits every entry exactly once, in some order *)

Lemma new_empty : S.New [] = S.mkSet gm_empty.
Proof. reflexivity. Qed.

(* one loop of the set algebra, as generated *)
Lemma algebra_loop : forall (P : Z -> bool) (body : S.Set_ -> Z * Z -> S.Set_) l r x,
  (forall r kv, body r kv = if P (fst kv) then fst (S.Add r [fst kv]) else r) ->
  let r' := fold_left body (mo (zp l)) r in
  hmem x (S.items r') = hmem x (S.items r) || (smem x l && P x) /\ (zero_vals (S.items r) -> zero_vals (S.items r')).
Proof.
  intros P body l r x Hbody.
  rewrite (fold_left_ext_in _ _ body (fun r kv => if P (fst kv) then fst (S.Add r [fst kv]) else r))
    by (intros; apply Hbody).
  destruct (cond_add_fold P x (mo (zp l)) r) as [H1 H2]. cbn zeta in *. split; [|exact H2].
  rewrite H1, (existsb_perm _ _ _ _ (mo_perm (zp l))), existsb_zp. reflexivity.
Qed.

(* OBLIGATION *)
Theorem Intersection_members : forall ga gb la lb, set_rel ga la -> set_rel gb lb -> forall x,
  hmem x (S.items (S.Intersection mo ga gb)) = smem x (hs_inter la lb) /\ zero_vals (S.items (S.Intersection mo ga gb)).
Proof.
  intros [ia] [ib] la lb Ha Hb x. unfold set_rel in Ha, Hb. cbn [S.items] in Ha, Hb. subst ia ib.
  unfold hs_inter. rewrite smem_filter. unfold S.Intersection. rewrite new_empty. cbn [S.items].
  (* with or without the "iterate over the smaller set" optimisation *)
  try (match goal with |- context [if (S.Size ?a <=? S.Size ?b) then _ else _] => destruct (S.Size a <=? S.Size b) end);
    cbv zeta;
    first
    [ match goal with |- context [fold_left ?B (mo (zp la)) ?R] =>
        destruct (algebra_loop (fun y => smem y lb) B la R x) as [H1 H2];
          [intros r kv; cbn [S.items]; rewrite lookup_zp; destruct (smem (fst kv) lb); reflexivity|] end;
      cbn zeta in *; split; [rewrite H1; reflexivity|apply H2; constructor]
    | match goal with |- context [fold_left ?B (mo (zp lb)) ?R] =>
        destruct (algebra_loop (fun y => smem y la) B lb R x) as [H1 H2];
          [intros r kv; cbn [S.items]; rewrite lookup_zp; destruct (smem (fst kv) la); reflexivity|] end;
      cbn zeta in *; split; [rewrite H1; cbn [S.items gm_empty hmem existsb orb]; apply andb_comm|apply H2; constructor] ].
Qed.

(* OBLIGATION *)
Theorem Difference_members : forall ga gb la lb, set_rel ga la -> set_rel gb lb -> forall x,
  hmem x (S.items (S.Difference mo ga gb)) = smem x (hs_diff la lb) /\ zero_vals (S.items (S.Difference mo ga gb)).
Proof.
  intros [ia] [ib] la lb Ha Hb x. unfold set_rel in Ha, Hb. cbn [S.items] in Ha, Hb. subst ia ib.
  unfold hs_diff. rewrite smem_filter. unfold S.Difference. rewrite new_empty. cbn [S.items]. cbv zeta.
  match goal with |- context [fold_left ?B (mo (zp la)) ?R] =>
    destruct (algebra_loop (fun y => negb (smem y lb)) B la R x) as [H1 H2];
      [intros r kv; cbn [S.items]; rewrite lookup_zp; destruct (smem (fst kv) lb); reflexivity|] end.
  cbn zeta in *. split; [rewrite H1; reflexivity|apply H2; constructor].
Qed.

Lemma smem_sadd : forall x y acc, smem x (sadd y acc) = (y =? x) || smem x acc.
Proof. intros x y acc. now rewrite <- (hmem_zp x (sadd y acc)), zp_sadd, hmem_hput, hmem_zp. Qed.

Lemma smem_cons : forall x y ys, smem x (y :: ys) = (y =? x) || smem x ys.
Proof. intros x y ys. unfold smem. cbn [existsb]. now rewrite (Z.eqb_sym x y). Qed.

Lemma smem_fold_sadd : forall x ys acc, smem x (fold_left (fun acc y => sadd y acc) ys acc) = smem x acc || smem x ys.
Proof.
  intros x ys. induction ys as [|y ys IH]; intros acc; cbn [fold_left].
  - unfold smem at 3. cbn [existsb]. now rewrite orb_false_r.
  - rewrite IH, smem_sadd, smem_cons. destruct (y =? x), (smem x acc); reflexivity.
Qed.

(* OBLIGATION *)
Theorem Union_members : forall ga gb la lb, set_rel ga la -> set_rel gb lb -> forall x,
  hmem x (S.items (S.Union mo ga gb)) = smem x (hs_union la lb) /\ zero_vals (S.items (S.Union mo ga gb)).
Proof.
  intros [ia] [ib] la lb Ha Hb x. unfold set_rel in Ha, Hb. cbn [S.items] in Ha, Hb. subst ia ib.
  unfold hs_union. rewrite smem_fold_sadd. unfold S.Union. rewrite new_empty. cbn [S.items]. cbv zeta.
  match goal with |- context [fold_left ?B2 (mo (zp lb)) (fold_left ?B1 (mo (zp la)) ?R)] =>
    destruct (algebra_loop (fun _ => true) B1 la R x) as [H1 H2]; [intros r kv; reflexivity|];
    destruct (algebra_loop (fun _ => true) B2 lb (fold_left B1 (mo (zp la)) R) x) as [H3 H4]; [intros r kv; reflexivity|] end.
  cbn zeta in *. split; [|apply H4, H2; constructor].
  rewrite H3, H1. cbn [S.items gm_empty hmem existsb orb]. rewrite !andb_true_r.
  unfold smem. rewrite existsb_app. reflexivity.
Qed.
End Algebra.

Print Assumptions Intersection_members.
Print Assumptions Difference_members.
Print Assumptions Union_members.

(* ---------- runs ---------- *)
Inductive gop := GAdd (vs : list Z) | GRemove (vs : list Z) | GClear.
Definition gen_step (g : S.Set_) (o : gop) : S.Set_ :=
  match o with GAdd vs => fst (S.Add g vs) | GRemove vs => fst (S.Remove g vs) | GClear => fst (S.Clear g) end.
Definition gen_run (ops : list gop) : S.Set_ := fold_left gen_step ops (S.New []).
Definition to_op (o : gop) : op := match o with GAdd vs => Add vs | GRemove vs => RemoveVals vs | GClear => Clear end.

(* OBLIGATION *)
Theorem gen_run_simulates : forall c, ckind c = HashSet -> forall ops,
  exists l, run c (map to_op ops) = StHSet l /\ set_rel (gen_run ops) l.
Proof.
  intros c Hk ops. induction ops as [|o ops IH] using rev_ind.
  - exists []. destruct (New_equiv c Hk) as [H1 H2]. split; [|exact H1].
    unfold run, run_from. cbn [map fold_left]. exact H2.
  - destruct IH as (l & Hrun & Hrel). rewrite map_app. cbn [map]. rewrite run_snoc, Hrun.
    unfold gen_run. rewrite fold_left_app. cbn [fold_left]. fold (gen_run ops).
    destruct o as [vs|vs|]; cbn [to_op gen_step].
    + destruct (Add_equiv c Hk _ l vs Hrel) as (l' & Hs & Hr). exists l'. now rewrite Hs.
    + destruct (Remove_equiv c Hk _ l vs Hrel) as (l' & Hs & Hr). exists l'. now rewrite Hs.
    + destruct (Clear_equiv c Hk (gen_run ops) l) as [Hs Hr]. exists []. now rewrite Hs.
Qed.
Print Assumptions gen_run_simulates.
