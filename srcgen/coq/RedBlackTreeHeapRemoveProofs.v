(* Remove of trees/redblacktree/redblacktree.go in TREE POINTER MODE (GodsGen.RedBlackTreeHeapGen) against the model's RB.remove:
   lookup, the copy of the in-order predecessor found by maximumNode, the recolouring of the node D that is unlinked, the
   bottom-up fix-up deleteCase1..6 (mutual recursion on fuel; sibling / nodeColor through the Parent pointers; recolouring; the
   rotations) WITH D STILL IN THE TREE, replaceNode(D, child), the recolouring of a new root, size--.  See [Remove_correct]. *)
From Coq Require Import ZArith List Lia Bool Arith Permutation.
From Gods Require Import Common.Cmp Model.RBTree Proofs.RBInv.
From GodsGenProofs Require Import GoCmp GoTreeHeap RBTreeHeapRep RedBlackTreeHeapInsertModel RedBlackTreeHeapRotProofs
  RedBlackTreeHeapInsertProofs RedBlackTreeHeapRemoveModel RedBlackTreeHeapRemoveFixProofs RedBlackTreeHeapRemoveAuxProofs.
From GodsGen Require RedBlackTreeHeapGen.
Import ListNotations.
Local Open Scope Z_scope.

(* ---------- Remove: the text of the generated function, cut after the predecessor copy ---------- *)
Definition remove_tail (fuel : nat) (ncmp : nat) (h : heap G.Node) (v_tree : G.Tree) (v_node : option nat) : option (nat * heap G.Node * G.Tree) :=
let v_child := (@None nat) in
do c9 <- deref h v_node;
do r11 <- (if (is_nil (G.Node_Left c9)) then Some true else (do c10 <- deref h v_node;
Some (is_nil (G.Node_Right c10))));
do (h, v_tree, v_child) <- (if r11
  then (do c12 <- deref h v_node;
do v_child <- (if (is_nil (G.Node_Right c12))
  then (do c13 <- deref h v_node;
let v_child := (G.Node_Left c13) in
Some v_child)
  else (do c14 <- deref h v_node;
let v_child := (G.Node_Right c14) in
Some v_child));
do c15 <- deref h v_node;
do (h, v_tree) <- (if (Bool.eqb (G.Node_color c15) G.black)
  then (do r16 <- G.nodeColor h v_child;
do h <- store h v_node (G.Node_with_color r16);
do (h, v_tree) <- G.deleteCase1 fuel h v_tree v_node;
Some (h, v_tree))
  else (Some (h, v_tree)));
do (h, v_tree) <- G.replaceNode h v_tree v_node v_child;
do c17 <- deref h v_node;
do h <- (if (andb (is_nil (G.Node_Parent c17)) (negb (is_nil v_child)))
  then (do h <- store h v_child (G.Node_with_color G.black);
Some h)
  else (Some h));
Some (h, v_tree, v_child))
  else (Some (h, v_tree, v_child)));
let v_tree := G.Tree_set_size v_tree ((G.Tree_size v_tree) - 1) in
Some (ncmp, h, v_tree).

Lemma Remove_unfold : forall mag fuel ncmp h v_tree v_key, G.Remove mag fuel ncmp h v_tree v_key =
(let v_child := (@None nat) in
do (ncmp, r1) <- G.lookup mag fuel ncmp h v_tree v_key;
let v_node := r1 in
if (is_nil v_node)
then (Some (ncmp, h, v_tree))
else (do c2 <- deref h v_node;
do r4 <- (if (negb (is_nil (G.Node_Left c2))) then (do c3 <- deref h v_node;
Some (negb (is_nil (G.Node_Right c3)))) else Some false);
do (h, v_node) <- (if r4
  then (do c5 <- deref h v_node;
do r6 <- G.maximumNode fuel h (G.Node_Left c5);
let v_pred := r6 in
do c7 <- deref h v_pred;
do h <- store h v_node (G.Node_with_Key (G.Node_Key c7));
do c8 <- deref h v_pred;
do h <- store h v_node (G.Node_with_Value (G.Node_Value c8));
let v_node := v_pred in
Some (h, v_node))
  else (Some (h, v_node)));
remove_tail fuel ncmp h v_tree v_node)).
Proof. reflexivity. Qed.

Lemma pptr_snoc : forall q pp T e, pget T q <> PE -> pptr_from pp T (q ++ [e]) = root_ptr (pget T q).
Proof.
  induction q as [|d q IH]; intros pp T e H.
  - cbn [app pptr_from pget] in *. destruct T; [congruence|reflexivity].
  - cbn [app pptr_from pget] in *. destruct T; [congruence|]. now apply IH.
Qed.
Lemma pptr_nil : forall T pD, pget T pD <> PE -> (pptr_from None T pD = None <-> pD = []).
Proof.
  intros T pD H. destruct (path_cases pD) as [->|(q & e & ->)]; [split; reflexivity|].
  assert (Hq : pget T q <> PE) by (intro E; apply H; rewrite pget_app, E; apply pget_PE).
  rewrite (pptr_snoc q None T e Hq). split; intro E; [|destruct q; discriminate].
  destruct (pget T q); [congruence|discriminate].
Qed.

Lemma remove_tail_spec : forall h0 tr T0 pd d dc dl dk dv dr T2 pD fuel ncmp,
  tree_inv h0 tr T0 -> pget T0 pd = PT d dc dl dk dv dr -> (dl = PE \/ dr = PE) ->
  grun T0 pd = Some (T2, pD) -> (3 * length pd + 1 <= fuel)%nat ->
  let x := dchild dl dr in
  let T' := match pD, x with [], PT _ _ _ _ _ _ => psetcol RB.Black (pupd T2 pD x) | _, _ => pupd T2 pD x end in
  exists h' tr', remove_tail fuel ncmp h0 tr (Some d) = Some (ncmp, h', G.Tree_set_size tr' (G.Tree_size tr' - 1)) /\
    upd_ok h0 tr T0 h' tr' T'.
Proof.
  intros h0 tr T0 pd d dc dl dk dv dr T2 pD fuel ncmp Hinv Hg Hone Hrun Hf x T'.
  destruct (grun_keeps _ _ _ _ _ _ _ _ _ _ Hg Hrun) as ((dc' & Hg2) & HpD).
  pose proof (rep_sub pd h0 None T0 (proj1 Hinv)) as Hrd. rewrite Hg in Hrd.
  pose proof (rep_root_deref _ _ _ _ _ _ _ _ Hrd) as Hd. cbn [deref] in Hd.
  pose proof (dchild_rep _ _ _ _ _ _ _ _ Hrd) as Hrx. fold x in Hrx.
  unfold remove_tail. dsim.
  assert (Er11 : (if is_nil (root_ptr dl) then Some true else Some (is_nil (root_ptr dr))) = Some true).
  { destruct Hone as [-> | ->]; [reflexivity|]. destruct (is_nil (root_ptr dl)); reflexivity. }
  rewrite Er11. cbv iota beta.
  assert (Echild : (if is_nil (root_ptr dr) then @Some (option nat) (root_ptr dl) else @Some (option nat) (root_ptr dr)) = Some (root_ptr x)) by (subst x; destruct dr; reflexivity).
  rewrite Echild. cbv iota beta. rewrite eqb_colb_black.
  (* the fix-up *)
  assert (Hfix : exists h2 tr2,
            (if match dc with RB.Red => false | RB.Black => true end
             then (do r16 <- G.nodeColor h0 (root_ptr x); do h <- store h0 (Some d) (G.Node_with_color r16);
                   do (h, v_tree) <- G.deleteCase1 fuel h tr (Some d); Some (h, v_tree))
             else Some (h0, tr)) = Some (h2, tr2) /\ upd_ok h0 tr T0 h2 tr2 T2).
  { unfold grun in Hrun. rewrite Hg in Hrun. destruct dc.
    - injection Hrun as <- <-. exists h0, tr. split; [reflexivity|apply upd_ok_refl; exact Hinv].
    - rewrite (nodeColor_rep _ _ _ Hrx).
      destruct (recolor_at h0 tr _ pd d RB.Black dl dk dv dr (pcol x) Hinv Hg) as (h1 & Hs1 & U1). rewrite Hs1.
      assert (Hv : pvalid T0 pd) by (apply pvalid_of_get; rewrite Hg; discriminate).
      destruct (deleteCase1_dfix (rev pd) _ pd T2 pD h1 tr d (pcol x) dl dk dv dr fuel (proj1 U1)
                  ltac:(rewrite rev_involutive; apply pget_pupd_valid; exact Hv) Hrun ltac:(rewrite rev_length; exact Hf)) as (h2 & tr2 & Hrun2 & U2).
      rewrite Hrun2. exists h2, tr2. split; [reflexivity|eapply upd_ok_trans; eauto]. }
  destruct Hfix as (h2 & tr2 & Hrunfix & U2).
  rewrite Hrunfix. cbv iota beta.
  (* replaceNode *)
  destruct (replace_by_child h2 tr2 T2 pD d dc' dl dk dv dr (proj1 U2) Hg2) as (h3 & tr3 & Hrun3 & U3 & Hd3). fold x in Hrun3, U3.
  rewrite Hrun3. cbv iota beta.
  pose proof (rep_sub pD h2 None T2 (proj1 (proj1 U2))) as Hrd2. rewrite Hg2 in Hrd2.
  pose proof (rep_root_deref _ _ _ _ _ _ _ _ Hrd2) as Hd2. cbn [deref] in Hd2. rewrite <- Hd3 in Hd2.
  dsim.
  assert (HPP : is_nil (pptr_from None T2 pD) = match pD with [] => true | _ => false end).
  { destruct (pptr_nil T2 pD ltac:(rewrite Hg2; discriminate)) as (A & B). destruct pD; [rewrite (B eq_refl); reflexivity|].
    destruct (pptr_from None T2 (s :: pD)); [reflexivity|]. specialize (A eq_refl). discriminate. }
  rewrite HPP. subst T'.
  destruct pD as [|e pD'].
  - destruct x as [|y yc yl yk yv yr] eqn:Ex; cbn [root_ptr is_nil negb andb].
    + exists h3, tr3. split; [reflexivity|]. eapply upd_ok_trans; [exact U2|exact U3].
    + cbn [pupd] in U3.
      destruct (recolor_at h3 tr3 _ [] y yc yl yk yv yr RB.Black (proj1 U3) eq_refl) as (h4 & Hs4 & U4).
      change (colb RB.Black) with G.black in Hs4. rewrite Hs4. cbn [pupd] in U4.
      exists h4, tr3. split; [reflexivity|]. eapply upd_ok_trans; [exact U2|]. eapply upd_ok_trans; [exact U3|exact U4].
  - cbn [andb]. exists h3, tr3. split; [reflexivity|]. eapply upd_ok_trans; [exact U2|]. destruct x; exact U3.
Qed.

Lemma addrs_pupd_same : forall p T s s', pget T p = s -> addrs s' = addrs s -> addrs (pupd T p s') = addrs T.
Proof.
  induction p as [|d p IH]; intros T s s' Hg Ha.
  - cbn [pget pupd] in *. subst. exact Ha.
  - destruct T as [|a c l k v r]; [reflexivity|]. cbn [pget pupd] in *.
    destruct d; cbn [pchild] in Hg; cbn [addrs]; now rewrite (IH _ _ _ Hg Ha).
Qed.

(* ---------- the generated Remove is the function goremove of the model file ---------- *)
Lemma Remove_goremove : forall mag h tr T key fuel n T' b,
  tree_inv h tr T -> goremove (G.Tree_Comparator tr) key T = Some (T', b) ->
  (3 * RB.height (erase T) + 3 <= fuel)%nat ->
  exists h' tr', G.Remove mag fuel n h tr key =
      Some ((n + RB.lookup_cost (G.Tree_Comparator tr) key (erase T))%nat, h',
            if b then G.Tree_set_size tr' (G.Tree_size tr' - 1) else tr') /\
    upd_ok h tr T h' tr' T'.
Proof.
  intros mag h tr T key fuel n T' b Hinv Hgo Hf. set (cmp := G.Tree_Comparator tr) in *.
  pose proof Hinv as (Hrep & Hnd & Hroot).
  rewrite Remove_unfold. cbv zeta. rewrite (lookup_path mag tr key h T fuel n Hrep Hroot ltac:(lia)). fold cmp. cbv iota beta.
  unfold goremove in Hgo.
  destruct (pget T (dpath cmp key T)) as [|a c l k v r] eqn:Ea.
  - (* not found *)
    injection Hgo as <- <-. cbn [root_ptr is_nil]. exists h, tr. split; [reflexivity|apply upd_ok_refl; exact Hinv].
  - cbn [root_ptr is_nil].
    pose proof (rep_sub (dpath cmp key T) h None T Hrep) as Hra. rewrite Ea in Hra.
    pose proof (rep_root_deref _ _ _ _ _ _ _ _ Hra) as Ha. cbn [deref] in Ha.
    pose proof (gcopy_gpath_spec cmp key T a c l k v r Ea) as Hspec.
    destruct (grun (gcopy cmp key T) (gpath cmp key T)) as [[T2 pD]|] eqn:Erun; [|discriminate].
    pose proof (gpath_length cmp key T) as Hlen.
    dsim.
    destruct l as [|la lc ll lk lv lr]; [|destruct r as [|ra rc rl rk rv rr]].
    + (* no left child *)
      destruct Hspec as (Hc & Hp). rewrite Hc, Hp in *. cbn [root_ptr is_nil negb]. cbv iota beta.
      destruct (grun_keeps _ _ _ _ _ _ _ _ _ _ Ea Erun) as ((dc' & Hg2) & _). rewrite Hg2 in Hgo. cbv zeta in Hgo. injection Hgo as <- <-.
      destruct (remove_tail_spec h tr T _ a c PE k v r T2 pD fuel (n + RB.lookup_cost cmp key (erase T))%nat Hinv Ea (or_introl eq_refl) Erun ltac:(lia))
        as (h' & tr' & Hrun & U). rewrite Hrun. exists h', tr'. split; [reflexivity|exact U].
    + destruct Hspec as (Hc & Hp). rewrite Hc, Hp in *. cbn [root_ptr is_nil negb]. dsim.
      destruct (grun_keeps _ _ _ _ _ _ _ _ _ _ Ea Erun) as ((dc' & Hg2) & _). rewrite Hg2 in Hgo. cbv zeta in Hgo. injection Hgo as <- <-.
      destruct (remove_tail_spec h tr T _ a c _ k v PE T2 pD fuel (n + RB.lookup_cost cmp key (erase T))%nat Hinv Ea (or_intror eq_refl) Erun ltac:(lia))
        as (h' & tr' & Hrun & U). rewrite Hrun. exists h', tr'. split; [reflexivity|exact U].
    + (* two children: the predecessor's key and value are copied, the predecessor is unlinked *)
      set (l := PT la lc ll lk lv lr) in *. set (r := PT ra rc rl rk rv rr) in *.
      destruct Hspec as (d & dc & dl & dk & dv & Hpl & Hc & Hp).
      cbn [root_ptr is_nil negb]. dsim.
      pose proof Hra as Hra'. simpl in Hra'. destruct Hra' as (_ & Hrl & _). fold l in Hrl.
      pose proof (psub_height (dpath cmp key T) T (PT a c l k v r) ltac:(rewrite <- Ea; apply pget_psub; rewrite Ea; discriminate)) as Hh.
      change (Some la) with (root_ptr l).
      rewrite (maximumNode_path h l (Some a) fuel Hrl ltac:(cbn [erase RB.height] in Hh; fold l in Hh; cbn [erase] in Hh; lia)).
      rewrite Hpl. cbn [root_ptr]. cbv zeta.
      set (pd := dpath cmp key T ++ RB.L :: prpath l) in *.
      assert (Hgd : pget T pd = PT d dc dl dk dv PE) by (subst pd; rewrite pget_app, Ea; cbn [pget pchild]; exact Hpl).
      pose proof (rep_sub pd h None T Hrep) as Hrd. rewrite Hgd in Hrd.
      pose proof (rep_root_deref _ _ _ _ _ _ _ _ Hrd) as Hd. cbn [deref] in Hd.
      assert (Hda : d <> a).
      { assert (Hsa : psub T (dpath cmp key T) = Some (PT a c l k v r)) by (rewrite <- Ea; apply pget_psub; rewrite Ea; discriminate).
        pose proof (psub_nodup _ _ _ Hnd Hsa) as Hnda. destruct (nodup_root_children _ _ _ _ _ _ Hnda) as (Dl & _). apply Dl.
        assert (Hsl : psub l (prpath l) = Some (PT d dc dl dk dv PE)) by (rewrite <- Hpl; apply pget_psub; rewrite Hpl; discriminate).
        eapply psub_addrs; [exact Hsl|now left]. }
      dsim. erewrite (store_hset h a _ _ Ha). change (deref ?hh (Some d)) with (hread hh d). rewrite hread_hset. eqb_simpl. rewrite Hd.
      erewrite store_hset by (rewrite hread_hset, Nat.eqb_refl; reflexivity). cbn [node_of G.Node_Key G.Node_Value G.Node_with_Key G.Node_with_Value].
      set (h2 := hset (hset h a _) a _).
      assert (Hinv2 : tree_inv h2 tr (pupd T (dpath cmp key T) (PT a c l dk dv r))).
      { apply (found_update h h2 tr T (dpath cmp key T) a c l k v r dk dv Hinv Ea).
        - subst h2. rewrite hread_hset, Nat.eqb_refl. reflexivity.
        - intros y Hy. subst h2. rewrite !hread_hset. now eqb_simpl. }
      rewrite <- Hc in Hinv2.
      assert (Hgd2 : pget (gcopy cmp key T) (gpath cmp key T) = PT d dc dl dk dv PE).
      { rewrite Hc, Hp. assert (Hv : pvalid T (dpath cmp key T)) by (apply pvalid_of_get; rewrite Ea; discriminate).
        unfold pd. rewrite pget_sub by exact Hv. cbn [pget pchild]. exact Hpl. }
      destruct (grun_keeps _ _ _ _ _ _ _ _ _ _ Hgd2 Erun) as ((dc' & Hg2) & _). rewrite Hg2 in Hgo. cbv zeta in Hgo. injection Hgo as <- <-.
      assert (Hlen2 : (3 * length (gpath cmp key T) + 1 <= fuel)%nat) by lia.
      destruct (remove_tail_spec h2 tr _ _ d dc dl dk dv PE T2 pD fuel (n + RB.lookup_cost cmp key (erase T))%nat Hinv2 Hgd2 (or_intror eq_refl) Erun Hlen2)
        as (h' & tr' & Hrun & U). change (root_ptr l) with (Some la). change (root_ptr r) with (Some ra). cbn [is_nil negb]. cbv iota beta. rewrite Hrun. exists h', tr'. split; [reflexivity|].
      (* the copy is an update step too *)
      eapply upd_ok_trans; [|exact U]. split; [exact Hinv2|]. split; [reflexivity|]. split; [reflexivity|]. split.
      * intros y Hy. subst h2. rewrite !hread_hset. assert (y <> a); [|now eqb_simpl].
        intros ->. apply Hy. eapply psub_addrs; [apply pget_psub; rewrite Ea; discriminate|]. rewrite Ea. now left.
      * split; [reflexivity|]. intros y Hy. rewrite Hc in Hy. rewrite (addrs_pupd_same _ _ _ _ Ea) in Hy; [exact Hy|reflexivity].
Qed.

(* OBLIGATION *)
Theorem Remove_correct : forall mag h tr t key fuel n t' b,
  tree_repr h tr t -> heap_ok h -> RBInv.rb t -> RB.remove (G.Tree_Comparator tr) key t = Some (t', b) ->
  (3 * RB.height t + 3 <= fuel)%nat ->
  exists h' tr', G.Remove mag fuel n h tr key = Some ((n + RB.remove_cost (G.Tree_Comparator tr) key t)%nat, h', tr') /\
    tree_repr h' tr' t' /\ heap_ok h' /\
    G.Tree_size tr' = G.Tree_size tr - (if b then 1 else 0) /\ G.Tree_Comparator tr' = G.Tree_Comparator tr /\
    hnext h' = hnext h.
Proof.
  intros mag h tr t key fuel n t' b (pt & <- & Hroot & Hrep & Hnd) Hok Hrb Hrem Hf.
  assert (Hlt : forall a, In a (addrs pt) -> (a < hnext h)%nat) by (intros a Ha; apply Hok; eapply rep_allocated; eauto).
  assert (Hinv : tree_inv h tr pt) by (split; [exact Hrep|split; [exact Hnd|now symmetry]]).
  rewrite <- (erase_premove _ _ _ Hrb) in Hrem.
  destruct (premove (G.Tree_Comparator tr) key pt) as [[T' b']|] eqn:Epre; [|discriminate]. cbn [omap fst snd] in Hrem. injection Hrem as <- <-.
  pose proof (goremove_premove _ _ _ _ _ Epre) as Hgo.
  destruct (Remove_goremove mag h tr pt key fuel n T' b' Hinv Hgo Hf) as (h' & tr' & Hrun & U).
  rewrite Hrun. eexists _, _. split; [reflexivity|].
  pose proof (heap_ok_upd _ _ _ _ _ _ Hok U Hlt) as Hok'.
  destruct U as ((R1 & R2 & R3) & Hsz & Hcmp & _ & Hnx & _).
  split; [|split; [exact Hok'|split; [|split; [|exact Hnx]]]].
  - exists T'. split; [reflexivity|]. split; [destruct b'; cbn [G.Tree_set_size G.Tree_Root]; now rewrite R3|]. split; assumption.
  - destruct b'; cbn [G.Tree_set_size G.Tree_size]; rewrite Hsz; lia.
  - destruct b'; cbn [G.Tree_set_size G.Tree_Comparator]; exact Hcmp.
Qed.
Print Assumptions Remove_correct.

(* ---------- runs of Put and Remove from the generated constructor never fail ---------- *)
Lemma count_setcol : forall c t, RB.count (RB.setcol c t) = RB.count t.
Proof. destruct t; reflexivity. Qed.

Lemma del_fix_3456_count : forall pc l k v r s t' st, RB.del_fix_3456 pc l k v r s = Some (t', st) ->
  RB.count t' = S (RB.count l + RB.count r).
Proof.
  intros pc l k v r s t' st H. unfold RB.del_fix_3456 in H. destruct s.
  - destruct r as [|sc sl sk sv sr]; [discriminate|].
    destruct pc; destruct sc; destruct sl as [|[|] a xk xv b]; destruct sr as [|[|] a2 yk yv b2]; cbn in H;
      try discriminate; try (injection H as <- _; cbn; lia);
      (destruct l as [|lc ll lk lv lr]; [discriminate|]; injection H as <- _; cbn; lia).
  - destruct l as [|sc sl sk sv sr]; [discriminate|].
    destruct pc; destruct sc; destruct sl as [|[|] a xk xv b]; destruct sr as [|[|] a2 yk yv b2]; cbn in H;
      try discriminate; injection H as <- _; cbn; lia.
Qed.
Lemma del_fix_count : forall pc l k v r s t' st, RB.del_fix pc l k v r s = Some (t', st) ->
  RB.count t' = S (RB.count l + RB.count r).
Proof.
  intros pc l k v r s t' st H. unfold RB.del_fix in H. destruct s.
  - destruct r as [|[|] sl sk sv sr]; try (eapply del_fix_3456_count; eassumption).
    destruct (RB.del_fix_3456 RB.Red l k v sl RB.L) as [[p' st']|] eqn:E; [|discriminate]. injection H as <- _.
    pose proof (del_fix_3456_count _ _ _ _ _ _ _ _ E). cbn. lia.
  - destruct l as [|[|] sl sk sv sr]; try (eapply del_fix_3456_count; eassumption).
    destruct (RB.del_fix_3456 RB.Red sr k v r RB.R) as [[p' st']|] eqn:E; [|discriminate]. injection H as <- _.
    pose proof (del_fix_3456_count _ _ _ _ _ _ _ _ E). cbn. lia.
Qed.
Lemma del_up_count : forall c l k v r s st t' st', RB.del_up c l k v r s st = Some (t', st') ->
  RB.count t' = S (RB.count l + RB.count r).
Proof.
  intros c l k v r s st t' st' H. destruct st; cbn [RB.del_up] in H; [injection H as <- _; reflexivity|eapply del_fix_count; eassumption].
Qed.
Lemma delmax_count : forall t t' mk mv st, RB.delmax t = Some (t', mk, mv, st) -> S (RB.count t') = RB.count t.
Proof.
  induction t as [|c l _ k v r IHr]; intros t' mk mv st H; [discriminate|]. destruct r as [|rc rl rk rv rr].
  - cbn in H. injection H as <- _ _ _. cbn. lia.
  - change (RB.delmax (RB.T c l k v (RB.T rc rl rk rv rr)))
      with (match RB.delmax (RB.T rc rl rk rv rr) with
            | None => None
            | Some (r', mk, mv, st) => match RB.del_up c l k v r' RB.R st with None => None | Some (t', st') => Some (t', mk, mv, st') end
            end) in H.
    destruct (RB.delmax (RB.T rc rl rk rv rr)) as [[[[r' mk'] mv'] str]|]; [|discriminate]. specialize (IHr _ _ _ _ eq_refl).
    destruct (RB.del_up c l k v r' RB.R str) as [[t'' st'']|] eqn:E; [|discriminate]. injection H as <- _ _ _.
    rewrite (del_up_count _ _ _ _ _ _ _ _ _ E). cbn [RB.count] in *. lia.
Qed.
Lemma del_count : forall cmp key t t' st b, RB.del cmp key t = Some (t', st, b) ->
  (RB.count t' + (if b then 1 else 0))%nat = RB.count t.
Proof.
  intros cmp key. induction t as [|c l IHl k v r IHr]; intros t' st b H.
  - injection H as <- _ <-. reflexivity.
  - cbn [RB.del] in H. destruct (cmp key k).
    + destruct l as [|lc ll lk lv lr]; [destruct r; injection H as <- _ <-; cbn; lia|].
      destruct r as [|rc rl rk rv rr]; [injection H as <- _ <-; cbn; lia|].
      destruct (RB.delmax (RB.T lc ll lk lv lr)) as [[[[l' mk] mv] stl]|] eqn:El; [|discriminate].
      destruct (RB.del_up c l' mk mv _ RB.L stl) as [[t'' st'']|] eqn:E; [|discriminate]. injection H as <- _ <-.
      rewrite (del_up_count _ _ _ _ _ _ _ _ _ E). pose proof (delmax_count _ _ _ _ _ El). cbn [RB.count] in *. lia.
    + destruct (RB.del cmp key l) as [[[l' stl] bl]|]; [|discriminate]. specialize (IHl _ _ _ eq_refl).
      destruct (RB.del_up c l' k v r RB.L stl) as [[t'' st'']|] eqn:E; [|discriminate]. injection H as <- _ <-.
      rewrite (del_up_count _ _ _ _ _ _ _ _ _ E). cbn [RB.count]. lia.
    + destruct (RB.del cmp key r) as [[[r' str] br]|]; [|discriminate]. specialize (IHr _ _ _ eq_refl).
      destruct (RB.del_up c l k v r' RB.R str) as [[t'' st'']|] eqn:E; [|discriminate]. injection H as <- _ <-.
      rewrite (del_up_count _ _ _ _ _ _ _ _ _ E). cbn [RB.count]. lia.
Qed.
Lemma remove_count : forall cmp key t t' b, RB.remove cmp key t = Some (t', b) ->
  (RB.count t' + (if b then 1 else 0))%nat = RB.count t.
Proof.
  intros cmp key t t' b H. destruct t as [|c l k v r]; [injection H as <- <-; reflexivity|].
  assert (Hd : match RB.del cmp key (RB.T c l k v r) with Some (t'0, _, b0) => Some (t'0, b0) | None => None end = Some (t', b) ->
               (RB.count t' + (if b then 1 else 0))%nat = RB.count (RB.T c l k v r)).
  { intro H0. destruct (RB.del cmp key (RB.T c l k v r)) as [[[t0 st0] b0]|] eqn:E; [|discriminate]. injection H0 as <- <-.
    eapply del_count; eassumption. }
  unfold RB.remove in H. destruct (cmp key k); destruct l as [|lc ll lk lv lr]; destruct r as [|rc rl rk rv rr];
    try (apply Hd; exact H); injection H as <- <-; cbn; lia.
Qed.

Inductive rop := RPut (k v : Z) | RRemove (k : Z).

Fixpoint gen_ops (mag : Z -> Z -> positive) (fuel : nat) (ops : list rop) (st : nat * heap G.Node * G.Tree)
  : option (nat * heap G.Node * G.Tree) :=
  match ops with
  | [] => Some st
  | o :: rest => let '(n, h, tr) := st in
      match (match o with RPut k v => G.Put mag fuel n h tr k v | RRemove k => G.Remove mag fuel n h tr k end) with
      | Some st' => gen_ops mag fuel rest st' | None => None end
  end.
Definition model_op (cmp : cmpf) (o : rop) (t : RB.tree) : option RB.tree :=
  match o with
  | RPut k v => option_map fst (RB.put cmp k v t)
  | RRemove k => option_map fst (RB.remove cmp k t)
  end.
Definition op_cost (cmp : cmpf) (o : rop) (t : RB.tree) : nat :=
  match o with RPut k _ => RB.put_cost cmp k t | RRemove k => RB.remove_cost cmp k t end.
Fixpoint model_ops (cmp : cmpf) (ops : list rop) (t : RB.tree) : RB.tree :=
  match ops with
  | [] => t
  | o :: rest => match model_op cmp o t with Some t' => model_ops cmp rest t' | None => t end
  end.
Fixpoint model_ops_cost (cmp : cmpf) (ops : list rop) (t : RB.tree) : nat :=
  match ops with
  | [] => 0%nat
  | o :: rest => (op_cost cmp o t + match model_op cmp o t with Some t' => model_ops_cost cmp rest t' | None => 0 end)%nat
  end.

Lemma gen_ops_from : forall mag ops fuel n h tr t,
  tree_repr h tr t -> heap_ok h -> RBInv.rbt t -> G.Tree_size tr = Z.of_nat (RB.count t) ->
  (3 * (RB.count t + length ops) + 3 <= fuel)%nat ->
  let cmp := G.Tree_Comparator tr in
  exists h' tr', gen_ops mag fuel ops (n, h, tr) = Some ((n + model_ops_cost cmp ops t)%nat, h', tr') /\
    tree_repr h' tr' (model_ops cmp ops t) /\ heap_ok h' /\ RBInv.rbt (model_ops cmp ops t) /\
    G.Tree_size tr' = Z.of_nat (RB.count (model_ops cmp ops t)) /\ G.Tree_Comparator tr' = cmp.
Proof.
  intros mag. induction ops as [|o rest IH]; intros fuel n h tr t Hrepr Hok Hrbt Hsz Hf cmp.
  - exists h, tr. cbn [gen_ops model_ops model_ops_cost]. rewrite Nat.add_0_r.
    split; [reflexivity|]. split; [exact Hrepr|]. split; [exact Hok|]. split; [exact Hrbt|]. split; [exact Hsz|reflexivity].
  - cbn [gen_ops model_ops model_ops_cost]. pose proof (height_le_count t) as Hh. cbn [length] in Hf.
    assert (Hstep : exists t' h1 tr1,
              (match o with RPut k v => G.Put mag fuel n h tr k v | RRemove k => G.Remove mag fuel n h tr k end)
                = Some ((n + op_cost cmp o t)%nat, h1, tr1) /\
              model_op cmp o t = Some t' /\ tree_repr h1 tr1 t' /\ heap_ok h1 /\ RBInv.rbt t' /\
              G.Tree_size tr1 = Z.of_nat (RB.count t') /\ G.Tree_Comparator tr1 = cmp /\ (RB.count t' <= S (RB.count t))%nat).
    { destruct o as [k v|k].
      - destruct (RBInv.put_rbt cmp k v t Hrbt) as (t' & b & Hput & Hrbt').
        destruct (Put_correct mag h tr t k v fuel n t' b Hrepr Hok Hput ltac:(lia)) as (h1 & tr1 & Hrun & Hrepr1 & Hok1 & Hsz1 & Hcmp1 & _).
        pose proof (put_count _ _ _ _ _ _ Hput) as Hc.
        exists t', h1, tr1. cbn [op_cost model_op]. fold cmp in Hrun. rewrite Hrun, Hput. repeat (split; [first [reflexivity|assumption]|]).
        split; [rewrite Hsz1, Hsz, Hc; destruct b; lia|]. split; [exact Hcmp1|rewrite Hc; destruct b; lia].
      - destruct (RBInv.remove_rbt cmp k t Hrbt) as (t' & b & Hrem & Hrbt').
        destruct (Remove_correct mag h tr t k fuel n t' b Hrepr Hok (proj1 Hrbt) Hrem ltac:(lia)) as (h1 & tr1 & Hrun & Hrepr1 & Hok1 & Hsz1 & Hcmp1 & _).
        pose proof (remove_count _ _ _ _ _ Hrem) as Hc.
        exists t', h1, tr1. cbn [op_cost model_op]. fold cmp in Hrun. rewrite Hrun, Hrem. repeat (split; [first [reflexivity|assumption]|]).
        split; [rewrite Hsz1, Hsz; destruct b; lia|]. split; [exact Hcmp1|destruct b; lia]. }
    destruct Hstep as (t' & h1 & tr1 & Hrun & Hmod & Hrepr1 & Hok1 & Hrbt' & Hsz1 & Hcmp1 & Hcnt).
    rewrite Hrun, Hmod.
    destruct (IH fuel (n + op_cost cmp o t)%nat h1 tr1 t' Hrepr1 Hok1 Hrbt' Hsz1 ltac:(lia)) as (h2 & tr2 & Hrun2 & R).
    rewrite Hcmp1 in Hrun2, R. exists h2, tr2. rewrite Hrun2. split; [f_equal; f_equal; f_equal; lia|exact R].
Qed.

(* OBLIGATION *)
Theorem gen_puts_removes_ok : forall mag cmp ops fuel, (3 * length ops + 3 <= fuel)%nat ->
  exists tr0 h tr, G.NewWith empty_heap cmp = Some tr0 /\
    gen_ops mag fuel ops (O, empty_heap, tr0) = Some (model_ops_cost cmp ops RB.E, h, tr) /\
    tree_repr h tr (model_ops cmp ops RB.E) /\ RBInv.rbt (model_ops cmp ops RB.E) /\
    G.Tree_size tr = Z.of_nat (RB.count (model_ops cmp ops RB.E)) /\ heap_ok h.
Proof.
  intros mag cmp ops fuel Hf. eexists.
  destruct (gen_ops_from mag ops fuel O empty_heap (G.mkTree None 0 cmp) RB.E) as (h & tr & Hrun & R1 & R2 & R3 & R4 & _).
  - exists PE. split; [reflexivity|]. split; [reflexivity|]. split; [exact I|constructor].
  - apply heap_ok_empty.
  - apply RBInv.rbt_E.
  - reflexivity.
  - cbn [RB.count]. lia.
  - exists h, tr. split; [reflexivity|]. cbn [G.Tree_Comparator] in *. split; [exact Hrun|]. split; [exact R1|]. split; [exact R3|]. split; [exact R4|exact R2].
Qed.
Print Assumptions gen_puts_removes_ok.
