(* serialization.go of ArrayStack (in GodsGen.ArrayStackWrapGen): for ANY interface J of the wrapped container, ToJSON is the wrapped container's
   ToJSON, FromJSON its FromJSON (the new state stored back, the error passed on -- nothing else happens, no alternative
   path), MarshalJSON = ToJSON, UnmarshalJSON = FromJSON. *)
From Coq Require Import ZArith List Bool.
From GodsGen Require ArrayStackWrapGen.
From GodsGenProofs Require Import GoJson.
Import ListNotations.

Module AS := ArrayStackWrapGen.

(* OBLIGATION *)
Theorem ArrayStack_json_delegates : forall J s d,
  AS.ToJSON J s = AS.list_ToJSON J (AS.list_ J s) /\
  AS.FromJSON J s d = (AS.set_list J s (fst (AS.list_FromJSON J (AS.list_ J s) d)), snd (AS.list_FromJSON J (AS.list_ J s) d)) /\
  AS.MarshalJSON J s = AS.ToJSON J s /\ AS.UnmarshalJSON J s d = AS.FromJSON J s d.
Proof.
  intros J s d. unfold AS.ToJSON, AS.FromJSON, AS.MarshalJSON, AS.UnmarshalJSON, AS.ToJSON, AS.FromJSON.
  destruct (AS.list_ToJSON J (AS.list_ J s)), (AS.list_FromJSON J (AS.list_ J s) d). repeat split.
Qed.
Print Assumptions ArrayStack_json_delegates.
