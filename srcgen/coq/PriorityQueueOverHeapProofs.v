(* COMPOSITION: queues/priorityqueue/priorityqueue.go regenerated over an abstract heap (GodsGen.PriorityQueueWrapGen, proved against
   the machine in PriorityQueueWrapProofs.v with the interface instantiated by the MODEL Heap.push / pop / values) is here instantiated
   with the GENERATED binary heap (GodsGen.BinaryHeapGen) which is itself instantiated with the GENERATED ArrayList core
   (BinaryHeapOverArrayListProofs.v): source -> generated priority queue -> generated heap -> generated list.  The abstract heap
   interface is total, the generated heap functions take fuel and return an option: the wrappers below run them with fuel
   size + number of pushed values + 2 computed from the state, and the heap state is None once one of them has failed.
   NOT instantiable: FromJSON / ToJSON of the interface (trees/binaryheap/serialization.go is translated in BinaryHeapJsonGen over its
   own copy of the struct): placeholders, no run uses them.  The initial state is computed by the GENERATED constructor
   (GodsGen.PriorityQueueNewGen.NewWith over the generated binaryheap.NewWith).
   [priorityqueue_over_heap_run]: for the framework's comparators, after ANY run of generated Enqueue / Dequeue / Clear the heap state
   is not None, the backing slice of its list is well-formed with the list of Machine.run (kind PriorityQueue) as live prefix, and Size /
   Empty / Peek / Values (what the generated heap iterator reads; below 2^62 elements) and the result of the next Dequeue are the machine's. *)
From Coq Require Import ZArith List Lia Bool Arith Permutation.
From Coq Require Import ZifyBool ZifyNat.
From Gods Require Import Common.Cmp Common.ListAux Spec.SeqSpec Model.Ops Model.Lists Model.Machine.
From Gods Require Model.Heap.
From Gods Require Import Proofs.HeapProofs Proofs.HeapValues.
From GodsGen Require PriorityQueueWrapGen PriorityQueueNewGen BinaryHeapGen.
From GodsGenProofs Require GoCmp GoJson.
From GodsGenProofs Require Import GoSlice GenIterRun WrapCommon ArrayListIface BinaryHeapOverArrayListProofs.
From GodsGenProofs Require PriorityQueueWrapProofs.
Import ListNotations.
Local Open Scope Z_scope.

Module Q := PriorityQueueWrapGen.
Module QP := PriorityQueueWrapProofs.
Module QN := PriorityQueueNewGen.

Definition hstate := option (W.Heap Ia).
Definition fuel_of (g : W.Heap Ia) (k : nat) : nat := (Z.to_nat (W.Size Ia g) + k + 2)%nat.
Definition q_Push (s : hstate) (vs : list Z) : hstate * unit :=
  (match s with Some g => match W.Push Ia (fuel_of g (length vs)) g vs with Some (g', _) => Some g' | None => None end | None => None end, tt).
Definition q_Pop (s : hstate) : hstate * (Z * bool) :=
  match s with
  | Some g => match W.Pop Ia (fuel_of g 0) g with Some (g', r) => (Some g', r) | None => (None, (0, false)) end
  | None => (None, (0, false))
  end.
Definition q_Clear (s : hstate) : hstate * unit := (match s with Some g => Some (fst (W.Clear Ia g)) | None => None end, tt).
Definition q_Peek (s : hstate) : Z * bool := match s with Some g => W.Peek Ia g | None => (0, false) end.
Definition q_Empty (s : hstate) : bool := match s with Some g => W.Empty Ia g | None => true end.
Definition q_Size (s : hstate) : Z := match s with Some g => W.Size Ia g | None => 0 end.
Definition q_Values (s : hstate) : list Z := match s with Some g => W.Values Ia (iter_enum (fuel_of g 0) Ia) g | None => [] end.

Definition Hq : Q.heap_iface := Q.mk_heap_iface hstate q_Clear q_Empty
  (fun s d => (s, true))                     (* FromJSON: placeholder (not in the generated heap unit) *)
  q_Peek q_Pop q_Push q_Size
  (fun s => (GoJson.nil_bytes, true))        (* ToJSON: placeholder *)
  q_Values.
Definition Nq : QN.heap_iface := QN.mk_heap_iface hstate (fun cmp => Some (W.NewWith Ia cmp)).
Definition new_q (cmp : cmpf) : Q.Queue Hq := Q.mkQueue Hq (QN.heap Nq (QN.NewWith Nq cmp)).

(* the heap state represents the model heap l ordered by cmp *)
Definition RQ (cmp : cmpf) (ps : hstate) (l : list Z) : Prop := exists g, ps = Some g /\ HR g (W.mkHeap HP.LI l cmp).

Section Rel.
Variable cmp : cmpf.
Variables (ps : hstate) (l : list Z).
Hypothesis H : RQ cmp ps l.

Lemma size_is : exists g, ps = Some g /\ HR g (W.mkHeap HP.LI l cmp) /\ W.Size Ia g = zlen l.
Proof. destruct H as (g & E & Hg). exists g. split; [exact E|]. split; [exact Hg|]. exact (proj1 (proj2 (observers_rel g _ 0 Hg))). Qed.

Lemma q_Push_rel : forall vs, RQ cmp (fst (q_Push ps vs)) (Heap.push cmp vs l).
Proof.
  intros vs. destruct size_is as (g & -> & Hg & Hs). unfold q_Push, fuel_of. cbn [fst]. rewrite Hs.
  pose proof (Push_rel (Z.to_nat (zlen l) + length vs + 2) g _ vs Hg) as HL. rewrite HP.Push_equiv in HL by (unfold zlen; lia).
  destruct (W.Push Ia _ g vs) as [[g' u]|]; cbn [orel] in HL; [|contradiction]. exists g'. split; [reflexivity|exact (proj1 HL)].
Qed.
Lemma q_Pop_rel : RQ cmp (fst (q_Pop ps)) (fst (Heap.pop cmp l)) /\ snd (q_Pop ps) = opt_pair (snd (Heap.pop cmp l)).
Proof.
  destruct size_is as (g & -> & Hg & Hs). unfold q_Pop, fuel_of. rewrite Hs.
  pose proof (Pop_rel (Z.to_nat (zlen l) + 0 + 2) g _ Hg) as HL. rewrite HP.Pop_equiv in HL by (unfold zlen; lia).
  destruct (W.Pop Ia _ g) as [[g' r]|]; cbn [orel] in HL; [|contradiction]. destruct HL as [HL1 HL2]. cbn [fst snd] in *.
  split; [exists g'; split; [reflexivity|exact HL1]|exact HL2].
Qed.
Lemma q_Clear_rel : RQ cmp (fst (q_Clear ps)) [].
Proof.
  destruct H as (g & -> & Hg). unfold q_Clear. cbn [fst]. exists (fst (W.Clear Ia g)). split; [reflexivity|].
  exact (proj2 (proj2 (proj2 (proj2 (observers_rel g _ 0 Hg))))).
Qed.
Lemma q_observers_rel : q_Peek ps = opt_pair (hd_error l) /\ q_Size ps = zlen l /\ q_Empty ps = (zlen l =? 0) /\
  (zlen l < 2 ^ 62 -> q_Values ps = Heap.values cmp l).
Proof.
  destruct size_is as (g & -> & Hg & Hs). destruct (observers_rel g _ 0 Hg) as (OP & OS & OE & _).
  unfold q_Peek, q_Size, q_Empty, q_Values. rewrite OP, OS, OE, HP.Peek_equiv.
  split; [reflexivity|]. split; [reflexivity|]. split; [reflexivity|]. intros Hb.
  rewrite (Values_rel _ g _ Hg). unfold W.Values, fuel_of. rewrite Hs.
  rewrite (iter_enum_model _ cmp l) by (unfold zlen in *; lia). exact (HP.Values_equiv cmp l).
Qed.
End Rel.

Lemma new_rel : forall cmp, RQ cmp (Q.heap Hq (new_q cmp)) [].
Proof. intros cmp. exists (W.NewWith Ia cmp). split; [reflexivity|exact (NewWith_rel cmp)]. Qed.

(* ---------- the queue over the two instantiations of its heap ---------- *)
Definition SQ (cmp : cmpf) (gp : Q.Queue Hq) (gm : Q.Queue (QP.I cmp)) : Prop := RQ cmp (Q.heap Hq gp) (Q.heap (QP.I cmp) gm).

Definition gen_step_q (g : Q.Queue Hq) (o : QP.gop) : Q.Queue Hq :=
  match o with
  | QP.GEnqueue v => fst (Q.Enqueue Hq g v)
  | QP.GDequeue => fst (Q.Dequeue Hq g)
  | QP.GClear => fst (Q.Clear Hq g)
  end.
Definition gen_run_q (cmp : cmpf) (ops : list QP.gop) : Q.Queue Hq := fold_left gen_step_q ops (new_q cmp).

Lemma Dequeue_rel : forall cmp gp gm, SQ cmp gp gm ->
  SQ cmp (fst (Q.Dequeue Hq gp)) (fst (Q.Dequeue (QP.I cmp) gm)) /\ snd (Q.Dequeue Hq gp) = snd (Q.Dequeue (QP.I cmp) gm).
Proof.
  intros cmp [ps] [l] HS. unfold SQ in HS. cbn [Q.heap] in HS. destruct (q_Pop_rel cmp ps l HS) as [H1 H2].
  unfold Q.Dequeue. cbn [Q.heap Q.heap_Pop Hq QP.I]. destruct (q_Pop ps) as [ps' r]. destruct (Heap.pop cmp l) as [l' o].
  cbn [fst snd] in *. destruct r as [a b], (opt_pair o) as [a' b'] eqn:E. cbn [fst snd]. split; [exact H1|]. now rewrite H2.
Qed.

Lemma gen_run_rel_q : forall cmp ops, SQ cmp (gen_run_q cmp ops) (QP.gen_run cmp (Q.mkQueue (QP.I cmp) []) ops).
Proof.
  intros cmp ops. induction ops as [|o ops IH] using rev_ind; [exact (new_rel cmp)|].
  unfold gen_run_q, QP.gen_run. rewrite !fold_left_app. cbn [fold_left]. fold (gen_run_q cmp ops) (QP.gen_run cmp (Q.mkQueue (QP.I cmp) []) ops).
  destruct o as [v| |]; cbn [gen_step_q QP.gen_step].
  - destruct (gen_run_q cmp ops) as [ps], (QP.gen_run cmp _ ops) as [l]. exact (q_Push_rel cmp ps l IH [v]).
  - exact (proj1 (Dequeue_rel cmp _ _ IH)).
  - destruct (gen_run_q cmp ops) as [ps], (QP.gen_run cmp _ ops) as [l]. exact (q_Clear_rel cmp ps l IH).
Qed.

(* OBLIGATION *)
Theorem priorityqueue_over_heap_run : forall c, ckind c = PriorityQueue -> forall ops,
  let gp := gen_run_q (kc c) ops in
  let s := run c (map QP.to_op ops) in
  exists g l, Q.heap Hq gp = Some g /\ s = StHeap l /\ al_rel (W.list_ Ia g) l /\ W.Comparator Ia g = kc c /\
    Q.Size Hq gp = size_of c s /\ Q.Empty Hq gp = (size_of c s =? 0) /\ obs_pair (Q.Peek Hq gp) = peek_of c s /\
    (size_of c s < 2 ^ 62 -> Q.Values Hq gp = values_of c s) /\
    obs_pair (snd (Q.Dequeue Hq gp)) = snd (fst (step c s Dequeue)).
Proof.
  intros c Hk ops gp s. pose proof (gen_run_rel_q (kc c) ops) as HS. fold gp in HS.
  set (gm := QP.gen_run (kc c) (Q.mkQueue (QP.I (kc c)) []) ops) in *.
  destruct (QP.gen_run_simulates c (Q.mkQueue (QP.I (kc c)) []) Hk eq_refl ops) as (Hrun & _). fold gm s in Hrun.
  pose proof HS as (g & Hg & Hl & Hc). exists g, (Q.heap (QP.I (kc c)) gm).
  split; [exact Hg|]. split; [exact Hrun|]. split; [exact Hl|]. split; [exact Hc|].
  destruct (q_observers_rel (kc c) _ _ HS) as (OP & OS & OE & OV). rewrite Hrun.
  unfold Q.Size, Q.Empty, Q.Peek, Q.Values. cbn [Q.heap_Size Q.heap_Empty Q.heap_Peek Q.heap_Values Hq].
  rewrite OS, OE. split; [reflexivity|]. split; [reflexivity|].
  split; [rewrite OP; destruct (opt_pair (hd_error (Q.heap (QP.I (kc c)) gm))) as [a b] eqn:E; rewrite <- E; apply obs_pair_opt|].
  split; [exact OV|].
  rewrite (proj2 (Dequeue_rel (kc c) gp gm HS)), (QP.Dequeue_equiv c Hk). reflexivity.
Qed.
Print Assumptions priorityqueue_over_heap_run.
