(* DELETION path of trees/btree/btree.go, bottom-up pass: the GENERATED rebalance (with leftSibling, rightSibling, deleteEntry,
   deleteChild, appendChildren, prependChildren, setParent -- GodsGen.BTreeHeapGen) on a focus node inside a zipper context
   (BTreeHeapWriteLemmas.v) computes the model's upward pass [upz] (BTreeHeapRemoveModel.v = the levels of BTreeCost.del_c /
   rebalance_child_c) with exactly its comparator calls, and ends in a heap that represents the resulting tree -- the
   root replaced by its only child when it has lost its last entry ([collapse], as in BT.remove).  The four cases (borrow
   from the left / right sibling, merge with the right / left sibling) are BTreeHeapReb{BL,BR,MR,ML}Proofs.v. *)
From Coq Require Import ZArith List Lia Bool Arith ZifyBool ZifyNat.
From Gods Require Import Common.Cmp Model.BTree Model.BTreeCost Proofs.BTreeInd Proofs.BTreeMap.
From Gods Require Proofs.BTreeInv.
From GodsGenProofs Require Import GoCmp GoTreeHeap GoBTreeHeap BTreeHeapRep BTreeHeapReadProofs BTreeHeapInsertModel BTreeHeapRemoveModel
  BTreeHeapWriteLemmas BTreeHeapRemoveLemmas BTreeHeapRebCommon BTreeHeapRebBLProofs BTreeHeapRebBRProofs BTreeHeapRebMRProofs BTreeHeapRebMLProofs.
From GodsGen Require BTreeHeapGen.
Import ListNotations.
Local Open Scope Z_scope.

(* every node of the context has one child more than entries, and at least one entry *)
Definition cwf1 (ctx : pctx) : Prop :=
  Forall (fun f => match f with PF _ es ls rs => (length ls + length rs = length es)%nat /\ (1 <= length es)%nat end) ctx.

Lemma cwf1_ne : forall ctx, cwf1 ctx -> Forall (fun f : mframe => fst (fst f) <> []) (map eframe ctx).
Proof.
  intros ctx H. induction H as [|[b es ls rs] ctx [_ H1] _ IH]; [constructor|]. cbn [map eframe]. constructor; [|exact IH].
  cbn [fst]. destruct es; [cbn in H1; lia|discriminate].
Qed.

(* rebalance on the root (or on nil): nothing happens *)
Lemma rebalance_root : forall mag (m : nat) h tr a es cs key fuel n,
  (3 <= m)%nat -> hread h a = Some (node_of None es cs) -> G.Tree_m tr = Z.of_nat m -> G.Tree_Root tr = Some a -> (2 <= fuel)%nat ->
  G.rebalance mag fuel n h tr (Some a) key = Some (n, h, tr).
Proof.
  intros mag m h tr a es cs key fuel n H3 Ha Hm Hroot Hfuel. destruct fuel as [|[|f]]; try lia.
  cbn [G.rebalance]. fold (G.rebalance mag). cbn [is_nil]. unfold deref. rewrite Ha. cbn [node_of G.Node_Entries].
  rewrite (minEntries_Z h tr m Hm ltac:(lia)).
  destruct (Z.of_nat (BT.minEntries m) <=? sl_len (eptrs es)); [reflexivity|]. cbv iota.
  destruct (siblings_root mag h tr a _ key (S (S f)) n Ha eq_refl) as [-> ->]. cbv iota beta. cbn [is_nil negb]. cbv iota.
  rewrite Ha. cbn [node_of G.Node_Parent]. rewrite Hroot. cbn [ptr_eqb]. cbv iota. reflexivity.
Qed.

Lemma finish_close : forall h tr c P, zrep h tr c P -> cwf1 c -> pentries P <> [] ->
  brepr h (G.Tree_Root tr) None (collapse (eplug (map eframe c) (erase P))) /\ heap_ok h.
Proof.
  intros h tr c P Hz Hc Hne. destruct (zrep_close _ _ _ _ Hz) as (pt & He & Hr & Hrp & Hn & Hok). split; [|exact Hok].
  assert (E : collapse (eplug (map eframe c) (erase P)) = eplug (map eframe c) (erase P)).
  { destruct c as [|f c']; [|apply eplug_top; [discriminate|apply cwf1_ne; exact Hc]].
    cbn [map eplug]. destruct P as [a es cs]. cbn [erase pentries collapse] in *. destruct es; [congruence|reflexivity]. }
  rewrite E. exists pt. rewrite He. split; [reflexivity|split; [exact Hr|split; [exact Hrp|exact Hn]]].
Qed.

Lemma croot_in' : forall c b, c <> [] -> In (croot c b) (caddrs c).
Proof.
  intros [|[b' es' ls' rs'] c'] b Hne; [congruence|]. cbn [croot caddrs]. pose proof (croot_in c' b') as Hin.
  destruct Hin as [Hin|Hin]; [left; exact Hin|right]. apply in_or_app. right. apply in_or_app. now right.
Qed.

Lemma croot_neq : forall h tr c b es cs, zrep h tr c (PN b es cs) -> c <> [] -> ptr_eqb (Some b) (Some (croot c b)) = false.
Proof.
  intros h tr c b es cs (_ & _ & Hnd & _) Hne. apply ptr_eqb_neq. intro E0. assert (E : b = croot c b) by congruence.
  cbn [addrs app] in Hnd. apply NoDup_cons_iff in Hnd. destruct Hnd as [Hnb _]. apply Hnb. apply in_or_app. right.
  rewrite E at 1. now apply croot_in'.
Qed.

Lemma left_spare_dec : forall (m : nat) ls,
  (exists ls' al les lcs, ls = ls' ++ [PN al les lcs] /\ (BT.minEntries m < length les)%nat) \/ pno_bl m ls.
Proof.
  intros m ls. destruct (BTreeInv.list_rev_case _ ls) as [->|(ls' & [al les lcs] & ->)]; [right; now left|].
  destruct (le_lt_dec (length les) (BT.minEntries m)) as [H|H]; [right; right|left]; exists ls', al, les, lcs; auto.
Qed.

(* after a merge: the root collapses, or the pass goes on one level up *)
Lemma merge_finish : forall mag (m : nat) c,
  (forall s fuel n h tr key t' K,
     zrep h tr c s -> cwf1 c -> G.Tree_m tr = Z.of_nat m ->
     rpos_ok m (G.Tree_Comparator tr) (map eframe c) (erase s, n, Some key) ->
     upz m (G.Tree_Comparator tr) (map eframe c) (erase s, n, Some key) = Some (t', K) ->
     (length c + cwid c + 2 <= fuel)%nat ->
     exists h' tr',
       G.rebalance mag fuel n h tr (Some (paddr s)) key = Some (K, h', tr') /\
       brepr h' (G.Tree_Root tr') None (match c with [] => t' | _ => collapse t' end) /\ heap_ok h' /\
       G.Tree_size tr' = G.Tree_size tr /\ G.Tree_m tr' = G.Tree_m tr /\ G.Tree_Comparator tr' = G.Tree_Comparator tr) ->
  forall hM tr b pes' a mes mcs l1 l2 f n' key' t' K,
  zrep hM tr c (PN b pes' (l1 ++ PN a mes mcs :: l2)) -> cwf1 c -> G.Tree_m tr = Z.of_nat m ->
  (pes' = [] -> l1 = [] /\ l2 = []) ->
  rpos_ok m (G.Tree_Comparator tr) (map eframe c) (erase (PN b pes' (l1 ++ PN a mes mcs :: l2)), n', Some key') ->
  upz m (G.Tree_Comparator tr) (map eframe c) (erase (PN b pes' (l1 ++ PN a mes mcs :: l2)), n', Some key') = Some (t', K) ->
  (length c + cwid c + 2 <= f)%nat ->
  exists h' tr',
    match (if ptr_eqb (Some b) (G.Tree_Root tr) then Some (sl_len (eptrs pes') =? 0) else Some false) with
    | Some true => Some (n', hset hM a (G.mkNode None (eptrs mes) (cptrs mcs)), G.Tree_set_Root tr (Some a))
    | Some false => match G.rebalance mag f n' hM tr (Some b) key' with Some (x, y, z) => Some (x, y, z) | None => None end
    | None => None
    end = Some (K, h', tr') /\
    brepr h' (G.Tree_Root tr') None (collapse t') /\ heap_ok h' /\
    G.Tree_size tr' = G.Tree_size tr /\ G.Tree_m tr' = G.Tree_m tr /\ G.Tree_Comparator tr' = G.Tree_Comparator tr.
Proof.
  intros mag m c IHc hM tr b pes' a mes mcs l1 l2 f n' key' t' K Hz Hcwf Hm Hshape Hpos Hup Hfuel.
  pose proof Hz as (_ & _ & _ & _ & Hroot). cbn [paddr] in Hroot. rewrite Hroot.
  destruct c as [|f0 c0].
  - cbn [croot]. rewrite ptr_eqb_refl. rewrite sl_len_eptrs. destruct pes' as [|e0 pes0].
    + (* the root has lost its last entry: its only child becomes the root *)
      destruct (Hshape eq_refl) as [-> ->]. cbn [length Z.of_nat Z.eqb app] in *.
      cbn [map upz fst snd erase] in Hup. injection Hup as <- <-. cbn [collapse map erase].
      pose proof (zrep_collapse hM tr b a mes mcs Hz) as (Hrep' & _ & Hnd' & Hok' & Hroot'). cbn [caddrs] in Hnd'. rewrite app_nil_r in Hnd'.
      eexists. eexists. split; [reflexivity|]. split; [|split; [exact Hok'|repeat split]].
      exists (PN a mes mcs). split; [reflexivity|split; [exact Hroot'|split; [exact Hrep'|exact Hnd']]].
    + assert (E0 : (Z.of_nat (length (e0 :: pes0)) =? 0) = false) by (cbn [length]; lia). rewrite E0.
      destruct (IHc _ f n' hM tr key' t' K Hz Hcwf Hm Hpos Hup Hfuel) as (h' & tr' & Hrun & Hbr & R). cbn [paddr] in Hrun. rewrite Hrun.
      exists h', tr'. split; [reflexivity|]. split; [|exact R].
      cbn [map upz fst snd erase] in Hup. injection Hup as <- <-. cbn [collapse]. exact Hbr.
  - rewrite (croot_neq hM tr (f0 :: c0) b _ _ Hz ltac:(discriminate)).
    destruct (IHc _ f n' hM tr key' t' K Hz Hcwf Hm Hpos Hup Hfuel) as (h' & tr' & Hrun & Hbr & R). cbn [paddr] in Hrun. rewrite Hrun.
    exists h', tr'. split; [reflexivity|]. split; [exact Hbr|exact R].
Qed.

(* OBLIGATION *)
Theorem rebalance_correct : forall mag (m : nat), (3 <= m)%nat -> forall ctx s fuel n h tr key t' K,
  zrep h tr ctx s -> cwf1 ctx -> G.Tree_m tr = Z.of_nat m ->
  rpos_ok m (G.Tree_Comparator tr) (map eframe ctx) (erase s, n, Some key) ->
  upz m (G.Tree_Comparator tr) (map eframe ctx) (erase s, n, Some key) = Some (t', K) ->
  (length ctx + cwid ctx + 2 <= fuel)%nat ->
  exists h' tr',
    G.rebalance mag fuel n h tr (Some (paddr s)) key = Some (K, h', tr') /\
    brepr h' (G.Tree_Root tr') None (match ctx with [] => t' | _ => collapse t' end) /\ heap_ok h' /\
    G.Tree_size tr' = G.Tree_size tr /\ G.Tree_m tr' = G.Tree_m tr /\ G.Tree_Comparator tr' = G.Tree_Comparator tr.
Proof.
  intros mag m H3. induction ctx as [|[b pes ls rs] c IH]; intros [a es cs] fuel n h tr key t' K Hz Hcwf Hm Hpos Hup Hfuel;
    cbn [paddr] in *.
  - (* the focus is the root *)
    cbn [map upz fst snd erase] in Hup. injection Hup as <- <-.
    pose proof Hz as (Hrep & _ & Hnd & Hok & Hroot). cbn [croot paddr cparent caddrs] in *. rewrite app_nil_r in Hnd.
    pose proof (rep_deref _ _ _ _ _ Hrep) as Ha. unfold deref in Ha.
    rewrite (rebalance_root mag m h tr a es cs key fuel n H3 Ha Hm Hroot ltac:(cbn [length] in Hfuel; lia)).
    exists h, tr. split; [reflexivity|]. split; [|split; [exact Hok|repeat split]].
    exists (PN a es cs). split; [reflexivity|split; [exact Hroot|split; [exact Hrep|exact Hnd]]].
  - (* the focus has a parent *)
    inversion Hcwf as [|? ? Hh Hcwf']; subst. cbn beta iota in Hh. destruct Hh as [Hwf H1]. cbn [length cwid] in Hfuel.
    destruct fuel as [|f]; [lia|].
    pose proof Hz as (Hrep & Hcr & Hnd & Hok & Hroot). cbn [croot paddr cparent crep] in *. destruct Hcr as (Hb & Hl & Hr & Hc).
    pose proof (rep_deref _ _ _ _ _ Hrep) as Ha. unfold deref in Ha.
    cbn [map eframe upz rpos_ok erase] in Hup, Hpos. rewrite map_length in Hpos. destruct Hpos as [Hp Hpos].
    set (cmp := G.Tree_Comparator tr) in *.
    set (sc := search_c cmp key pes) in *.
    assert (Hsc : (sc <= S f)%nat) by (pose proof (search_c_le_len cmp key pes); unfold sc; lia).
    destruct (le_lt_dec (BT.minEntries m) (length es)) as [Hfine|Hu].
    + (* enough entries: nothing to do *)
      cbn [lift] in Hup. rewrite RC_ok in Hup by exact Hfine.
      rewrite upz_none in Hup. injection Hup as <- <-. rewrite Nat.add_0_r.
      cbn [G.rebalance]. cbn [is_nil]. unfold deref. rewrite Ha. cbn [node_of G.Node_Entries].
      rewrite (minEntries_Z h tr m Hm ltac:(lia)). rewrite sl_len_eptrs.
      assert (Hz1 : (Z.of_nat (BT.minEntries m) <=? Z.of_nat (length es)) = true) by lia. rewrite Hz1.
      exists h, tr. split; [reflexivity|].
      destruct (finish_close h tr (PF b pes ls rs :: c) (PN a es cs) Hz Hcwf) as [Hbr Hok'].
      { cbn [pentries]. intro E. subst es. pose proof (BTreeInv.minE_pos m H3). cbn [length] in Hfine. lia. }
      cbn [map eframe eplug erase] in Hbr. split; [exact Hbr|]. split; [exact Hok'|repeat split].
    + specialize (Hp Hu).
      destruct (left_spare_dec m ls) as [(ls' & al & les & lcs & Els & Hsp)|Hnl].
      * (* borrow from the left sibling *)
        assert (Hlen' : length ls = S (length ls')) by (rewrite Els, app_length; cbn [length]; lia).
        assert (Hsep : exists sep, nth_error pes (length ls') = Some sep).
        { destruct (nth_error pes (length ls')) eqn:E; [eauto|]. apply nth_error_None in E. lia. }
        destruct Hsep as (sep & Hsep).
        destruct (BTreeInd.last_opt_cons_some _ les ltac:(destruct les; [cbn [length] in Hsp; lia|discriminate])) as (le & Hle).
        set (P := PN b (replace_at (length ls') le pes)
                     (ls' ++ PN al (removelast les) (fst (pbl_pair lcs cs)) :: PN a (sep :: es) (snd (pbl_pair lcs cs)) :: rs)).
        assert (Hlift : lift m cmp (pes, map erase ls, map erase rs) (BT.N es (map erase cs), n, Some key) = Some (erase P, (n + sc)%nat, None)).
        { cbn [lift]. rewrite Els, map_app. cbn [map erase].
          rewrite (RC_bl m cmp pes (map erase ls') les (map erase lcs) es (map erase cs) (map erase rs) key false sep le Hu Hsp
                     ltac:(rewrite map_length; exact Hsep) Hle).
          rewrite map_length, pbl_pair_erase. cbn [fst snd]. unfold P. cbn [erase]. rewrite map_app. cbn [map erase]. reflexivity. }
        rewrite Hlift in Hup. rewrite upz_none in Hup. injection Hup as <- <-.
        destruct (borrow_left_step mag m H3 h tr a es cs b pes ls rs c key f n Hz Hm Hwf Hp Hu Hsc ls' al les lcs sep le Els Hsp Hsep Hle)
          as (h' & Hrun & Hz').
        fold sc in Hrun. rewrite Hrun. exists h', tr. split; [reflexivity|].
        destruct (finish_close h' tr c P Hz' Hcwf') as [Hbr Hok'].
        { unfold P. cbn [pentries]. intro E. apply (f_equal (@length _)) in E. rewrite replace_at_length in E by lia. cbn [length] in E. lia. }
        split; [exact Hbr|]. split; [exact Hok'|repeat split].
      * destruct rs as [|[ar res rcs] rs'].
        -- (* merge with the left sibling *)
           destruct Hnl as [Els|(ls' & al & les & lcs & Els & Hle)]; [subst ls; cbn [length] in Hwf; lia|].
           assert (Hlen' : length ls = S (length ls')) by (rewrite Els, app_length; cbn [length]; lia).
           assert (Hsep : exists sep, nth_error pes (length ls') = Some sep).
           { destruct (nth_error pes (length ls')) eqn:E; [eauto|]. apply nth_error_None in E. lia. }
           destruct Hsep as (sep & Hsep).
           set (P := PN b (remove_at (length ls') pes) (ls' ++ [PN a (les ++ sep :: es) (lcs ++ cs)])).
           assert (Hlift : lift m cmp (pes, map erase ls, map erase []) (BT.N es (map erase cs), n, Some key) =
                           Some (erase P, (n + sc + sc)%nat, Some (fst sep))).
           { cbn [lift]. rewrite Els, map_app. cbn [map erase].
             rewrite (RC_ml m cmp pes (map erase ls') les (map erase lcs) es (map erase cs) key false sep Hu Hle
                        ltac:(rewrite map_length; exact Hsep)).
             rewrite map_length. unfold P. cbn [erase]. rewrite !map_app. cbn [map erase]. rewrite map_app, Nat.add_assoc. reflexivity. }
           rewrite Hlift in Hup, Hpos.
           destruct (merge_left_step mag m H3 h tr a es cs b pes ls [] c key f n Hz Hm Hwf Hp Hu Hsc ls' al les lcs sep Els eq_refl Hle Hsep)
             as (hM & HzM & Hrun).
           fold sc in Hrun. rewrite Hrun.
           apply (merge_finish mag m c IH hM tr b _ a _ _ ls' [] f (n + sc + sc)%nat (fst sep) t' K HzM Hcwf' Hm); [|exact Hpos|exact Hup|lia].
           intros E. apply (f_equal (@length _)) in E. rewrite remove_at_length in E by lia. cbn [length] in E, Hwf.
           split; [|reflexivity]. destruct ls'; [reflexivity|cbn [length] in *; lia].
        -- assert (Hsep : exists sep, nth_error pes (length ls) = Some sep).
           { destruct (nth_error pes (length ls)) eqn:E; [eauto|]. apply nth_error_None in E. cbn [length] in Hwf. lia. }
           destruct Hsep as (sep & Hsep). cbn [length] in Hwf.
           destruct (le_lt_dec (length res) (BT.minEntries m)) as [Hns|Hsp].
           ++ (* merge with the right sibling *)
              set (P := PN b (remove_at (length ls) pes) (ls ++ PN a (es ++ sep :: res) (cs ++ rcs) :: rs')).
              assert (Hlift : lift m cmp (pes, map erase ls, map erase (PN ar res rcs :: rs')) (BT.N es (map erase cs), n, Some key) =
                              Some (erase P, (n + sc + sc)%nat, Some (fst sep))).
              { cbn [lift map erase].
                rewrite (RC_mr m cmp pes (map erase ls) es (map erase cs) res (map erase rcs) (map erase rs') key false sep Hu
                           (pno_bl_erase _ _ Hnl) Hns ltac:(rewrite map_length; exact Hsep)).
                rewrite map_length. unfold P. cbn [erase]. rewrite !map_app. cbn [map erase]. rewrite map_app, Nat.add_assoc. reflexivity. }
              rewrite Hlift in Hup, Hpos.
              destruct (merge_right_step mag m H3 h tr a es cs b pes ls _ c key f n Hz Hm ltac:(cbn [length]; exact Hwf) Hp Hu Hsc
                          ar res rcs rs' sep Hnl eq_refl Hns Hsep) as (hM & HzM & Hrun).
              fold sc in Hrun. rewrite Hrun.
              apply (merge_finish mag m c IH hM tr b _ a _ _ ls rs' f (n + sc + sc)%nat (fst sep) t' K HzM Hcwf' Hm); [|exact Hpos|exact Hup|lia].
              intros E. apply (f_equal (@length _)) in E. rewrite remove_at_length in E by lia. cbn [length] in E.
              split; [destruct ls|destruct rs']; try reflexivity; cbn [length] in *; lia.
           ++ (* borrow from the right sibling *)
              destruct res as [|re res']; [cbn [length] in Hsp; lia|].
              set (P := PN b (replace_at (length ls) re pes)
                           (ls ++ PN a (es ++ [sep]) (snd (pbr_pair rcs cs)) :: PN ar res' (fst (pbr_pair rcs cs)) :: rs')).
              assert (Hlift : lift m cmp (pes, map erase ls, map erase (PN ar (re :: res') rcs :: rs')) (BT.N es (map erase cs), n, Some key) =
                              Some (erase P, (n + sc + sc)%nat, None)).
              { cbn [lift map erase].
                rewrite (RC_br m cmp pes (map erase ls) es (map erase cs) (re :: res') (map erase rcs) (map erase rs') key false sep re res' Hu
                           (pno_bl_erase _ _ Hnl) Hsp ltac:(rewrite map_length; exact Hsep) eq_refl).
                rewrite map_length, pbr_pair_erase. cbn [fst snd]. unfold P. cbn [erase]. rewrite map_app. cbn [map erase]. rewrite Nat.add_assoc. reflexivity. }
              rewrite Hlift in Hup. rewrite upz_none in Hup. injection Hup as <- <-.
              destruct (borrow_right_step mag m H3 h tr a es cs b pes ls _ c key f n Hz Hm ltac:(cbn [length]; exact Hwf) Hp Hu Hsc
                          ar (re :: res') rcs rs' sep re res' Hnl eq_refl Hsp Hsep eq_refl) as (h' & Hrun & Hz').
              fold sc in Hrun. rewrite Hrun. exists h', tr. split; [reflexivity|].
              destruct (finish_close h' tr c P Hz' Hcwf') as [Hbr Hok'].
              { unfold P. cbn [pentries]. intro E. apply (f_equal (@length _)) in E. rewrite replace_at_length in E by lia. cbn [length] in E. lia. }
              split; [exact Hbr|]. split; [exact Hok'|repeat split].
Qed.
Print Assumptions rebalance_correct.
