(* END-TO-END COROLLARIES for trees/avltree (avltree.go, iterator.go): the properties C07, C01, C02, C08 of
   /verif/coq/theories/Properties stated DIRECTLY about runs of the GENERATED pointer code (GodsGen.AVLTreeHeapGen).
   [avl_gen_run mag cmp fuel ops] = the generated NewWith(cmp) on the empty heap followed by the generated Put / Remove of the list
   [ops] (any list).  Bridge ([gen_avl_reach]): for every configuration c of kind AVLTree the run never fails and its heap
   REPRESENTS (AVLTreeHeapRep.tree_repr: Children[0], Children[1], Parent, key, value, balance factor b of every node) the tree
   of the machine state [Machine.run c (map to_op ops)], with the same size field.  Same layout as EndToEndRB.v. *)
From Coq Require Import ZArith List Lia Bool Arith Sorted SetoidList.
From Gods Require Import Common.Cmp Common.ListAux Spec.MapSpec Spec.SeqSpec Model.Ops Model.Machine Model.AVLTree Model.Iter.
From Gods Require Proofs.AVLInv Proofs.AVLBounds Proofs.MapSpecProofs Proofs.MachineMaps Proofs.MachineTrees Proofs.IterLinear Proofs.IterTreeMachine Proofs.IterTreeRB Proofs.IterTreeAVL.
From GodsGen Require AVLTreeHeapGen.
From GodsGenProofs Require Import GoCmp GoTreeHeap AVLTreeHeapRep.
From GodsGenProofs Require Import AVLTreeHeapReadProofs AVLTreeHeapKeysProofs AVLTreeHeapIterProofs AVLTreeHeapIterToProofs.
From GodsGenProofs Require AVLTreeHeapPutProofs AVLTreeHeapRemoveProofs AVLTreeHeapRunProofs.
Import ListNotations.
Local Open Scope Z_scope.

Module MM := MachineMaps.
Module MT := MachineTrees.
Module AR := AVLTreeHeapRunProofs.
Module AP := AVLTreeHeapPutProofs.
Module AD := AVLTreeHeapRemoveProofs.

Definition to_op (o : AR.op) : op := match o with AR.OPut k v => Put k v | AR.ORemove k => Remove k end.
Definition to_mop (o : AR.op) : mop := match o with AR.OPut k v => MPut k v | AR.ORemove k => MRemove k end.

Definition avl_gen_run (mag : Z -> Z -> positive) (cmp : cmpf) (fuel : nat) (ops : list AR.op) : option (nat * heap G.Node * G.Tree) :=
  match G.NewWith empty_heap cmp with Some tr0 => AR.gen_ops mag fuel ops (O, empty_heap, tr0) | None => None end.

Lemma hist_to_op : forall c ops, MM.hist c (map to_op ops) = map to_mop ops.
Proof. intros c ops. unfold MM.hist. induction ops as [|[k v|k] ops IH]; cbn [map flat_map MM.hist1 to_op to_mop app]; congruence. Qed.

Lemma model_ops_machine : forall c, ckind c = AVLTree -> forall ops t, AVLInv.avl t ->
  run_from c (StAVL t (Z.of_nat (AVL.count t))) (map to_op ops) =
    StAVL (AR.model_ops (kc c) ops t) (Z.of_nat (AVL.count (AR.model_ops (kc c) ops t))) /\
  (AVL.count (AR.model_ops (kc c) ops t) <= AVL.count t + length ops)%nat.
Proof.
  intros c K. induction ops as [|o ops IH]; intros t Ht; [split; [reflexivity|cbn; lia]|].
  unfold run_from in *. cbn [map fold_left AR.model_ops length].
  destruct o as [k v|k]; cbn [to_op AR.model_op].
  - destruct (AVLInv.put_avl (kc c) k v t Ht) as (t' & fx & b & Hput & Ht' & _). pose proof (AP.put_count _ _ _ _ _ _ _ Hput) as Hc.
    unfold step at 2. unfold avl_put. rewrite Hput. cbn [fst].
    replace (if b then Z.of_nat (AVL.count t) + 1 else Z.of_nat (AVL.count t)) with (Z.of_nat (AVL.count t')) by (destruct b; lia).
    destruct (IH t' Ht') as (E & Hle). rewrite E. split; [reflexivity|destruct b; lia].
  - destruct (AVLInv.remove_avl (kc c) k t Ht) as (t' & fx & b & Hrem & Ht' & _). pose proof (AD.remove_count _ _ _ _ _ _ Hrem) as Hc.
    unfold step at 2. unfold avl_remove. rewrite Hrem. cbn [fst].
    replace (if b then Z.of_nat (AVL.count t) - 1 else Z.of_nat (AVL.count t)) with (Z.of_nat (AVL.count t')) by (destruct b; lia).
    destruct (IH t' Ht') as (E & Hle). rewrite E. split; [reflexivity|destruct b; lia].
Qed.

(* OBLIGATION: the generated run never fails and represents the machine's state *)
Theorem gen_avl_reach : forall mag c ops fuel, ckind c = AVLTree -> (length ops < fuel)%nat ->
  exists ncmp h tr t, avl_gen_run mag (kc c) fuel ops = Some (ncmp, h, tr) /\
    run c (map to_op ops) = StAVL t (G.Tree_size tr) /\
    tree_repr h tr t /\ heap_ok h /\ G.Tree_Comparator tr = kc c /\
    AVLInv.avl t /\ G.Tree_size tr = Z.of_nat (AVL.count t) /\ (AVL.count t <= length ops)%nat.
Proof.
  intros mag c ops fuel K Hf. unfold avl_gen_run. cbn [G.NewWith].
  destruct (AR.gen_ops_from mag ops fuel O empty_heap (G.mkTree None (kc c) 0) AVL.E) as (h & tr & Hrun & R1 & R2 & R3 & R4 & R5).
  - exists PE. split; [reflexivity|]. split; [reflexivity|]. split; [exact I|constructor].
  - apply heap_ok_empty.
  - exact I.
  - reflexivity.
  - cbn [AVL.count]. lia.
  - cbn [G.Tree_Comparator] in *. destruct (model_ops_machine c K ops AVL.E I) as (E & Hle).
    exists (0 + AR.model_cost (kc c) ops AVL.E)%nat, h, tr, (AR.model_ops (kc c) ops AVL.E).
    split; [exact Hrun|]. split; [unfold run, init; rewrite K, R4; exact E|]. split; [exact R1|]. split; [exact R2|].
    split; [exact R5|]. split; [exact R3|]. split; [exact R4|exact Hle].
Qed.
Print Assumptions gen_avl_reach.

(* ====================== C07 ====================== *)
(* OBLIGATION: one more generated Get / Put / Remove after ANY generated run makes q comparator calls with
   MachineTrees.avl_log_bound n q  =  fib (q+2) <= n+1  /\  2^(20 q) <= (n+1)^29 * 2^29  /\  20 q < 29 log2 (n+1) + 58
   (Properties/C07.v: C07_cost_put_remove_avl, C07_get_any_key), n = the generated Size() *)
Theorem gen_avl_cost_bound : forall mag c ops fuel k v, ckind c = AVLTree -> (length ops + 1 < fuel)%nat ->
  exists ncmp h tr (n : nat), avl_gen_run mag (kc c) fuel ops = Some (ncmp, h, tr) /\
    G.Tree_Size h tr = Some (Z.of_nat n) /\ n = MT.nsize c (run c (map to_op ops)) /\
    (exists q val found, G.Get mag fuel ncmp h tr k = Some ((ncmp + q)%nat, val, found) /\
       q = MT.get_cost_of c (run c (map to_op ops)) k /\ MT.avl_log_bound n q) /\
    (exists q h' tr', G.Put mag fuel ncmp h tr k v = Some ((ncmp + q)%nat, h', tr') /\
       snd (step c (run c (map to_op ops)) (Put k v)) = cost q /\ MT.avl_log_bound n q) /\
    (exists q h' tr', G.Remove mag fuel ncmp h tr k = Some ((ncmp + q)%nat, h', tr') /\
       snd (step c (run c (map to_op ops)) (Remove k)) = cost q /\ MT.avl_log_bound n q).
Proof.
  intros mag c ops fuel k v K Hf.
  destruct (gen_avl_reach mag c ops fuel K ltac:(lia)) as (ncmp & h & tr & t & Hrun & Hm & Hrepr & Hok & Hcmp & Havl & Hsz & Hle).
  pose proof (AP.height_le_count t) as Hh.
  exists ncmp, h, tr, (AVL.count t). split; [exact Hrun|]. split; [exact (proj1 (Size_Empty_correct h tr t Hsz))|].
  rewrite Hm. unfold MT.nsize. cbn [size_of MT.get_cost_of]. split; [rewrite Hsz, Nat2Z.id; reflexivity|].
  destruct (MT.avl_cost_bounds (kc c) k t Havl) as (Bp & _ & Br & _ & Bg & _).
  split; [|split].
  - rewrite (Get_correct mag h tr t k fuel ncmp Hrepr ltac:(lia)), Hcmp. eexists _, _, _. split; [reflexivity|]. split; [reflexivity|exact Bg].
  - destruct (AVLInv.put_avl (kc c) k v t Havl) as (t' & fx & b & Hput & _). rewrite <- Hcmp in Hput.
    destruct (AP.Put_correct mag h tr t k v ncmp fuel t' fx b Hok Hrepr Hput ltac:(lia)) as (h' & tr' & Hp & _).
    rewrite Hcmp in Hp, Hput. eexists _, h', tr'. split; [exact Hp|]. split; [|exact Bp].
    unfold step. unfold avl_put. rewrite Hput. reflexivity.
  - destruct (AVLInv.remove_avl (kc c) k t Havl) as (t' & fx & b & Hrem & _). rewrite <- Hcmp in Hrem.
    destruct (AD.Remove_correct mag h tr t k ncmp fuel t' fx b Hok Hrepr Hrem ltac:(lia)) as (h' & tr' & Hp & _).
    rewrite Hcmp in Hp, Hrem. eexists _, h', tr'. split; [exact Hp|]. split; [|exact Br].
    unfold step. unfold avl_remove. rewrite Hrem. reflexivity.
Qed.
Print Assumptions gen_avl_cost_bound.

Lemma rep_parent_links : forall h pt pp, rep h pp pt ->
  (forall a, root_ptr pt = Some a -> exists nd, hread h a = Some nd /\ G.Node_Parent nd = pp) /\
  (forall a, In a (addrs pt) -> exists nd, hread h a = Some nd /\
     (forall b, fst (G.Node_Children nd) = Some b -> exists ndb, hread h b = Some ndb /\ G.Node_Parent ndb = Some a) /\
     (forall b, snd (G.Node_Children nd) = Some b -> exists ndb, hread h b = Some ndb /\ G.Node_Parent ndb = Some a)).
Proof.
  intros h. induction pt as [|a c l IHl k v r IHr]; intros pp Hrep; [split; [discriminate|intros a []]|].
  cbn [rep] in Hrep. destruct Hrep as (Hread & Hl & Hr).
  destruct (IHl _ Hl) as (Hl1 & Hl2). destruct (IHr _ Hr) as (Hr1 & Hr2).
  split.
  - intros a0 E. injection E as <-. eexists. split; [exact Hread|reflexivity].
  - intros a0 [<-|Hin].
    + eexists. split; [exact Hread|]. unfold node_of. cbn [G.Node_Children fst snd]. split; intros b Hb; [apply Hl1|apply Hr1]; exact Hb.
    + apply in_app_or in Hin. destruct Hin as [Hin|Hin]; [apply Hl2|apply Hr2]; exact Hin.
Qed.

(* OBLIGATION: the heap after ANY generated run represents an AVL tree with the documented shape (Properties/C07.v,
   C07_avl_balanced: sibling heights differ by at most one, the stored balance factors are exact, logarithmic height), Size()
   is the number of nodes, and parent links mirror child links *)
Theorem gen_avl_shape : forall mag c ops fuel, ckind c = AVLTree -> (length ops < fuel)%nat ->
  exists ncmp h tr t, avl_gen_run mag (kc c) fuel ops = Some (ncmp, h, tr) /\ tree_repr h tr t /\
    run c (map to_op ops) = StAVL t (Z.of_nat (AVL.count t)) /\
    AVLInv.avl t /\ MT.balanced t /\ G.Tree_Size h tr = Some (Z.of_nat (AVL.count t)) /\
    MT.avl_log_bound (AVL.count t) (AVL.height t) /\
    exists pt, erase pt = t /\ root_ptr pt = G.Tree_Root tr /\ NoDup (addrs pt) /\ length (addrs pt) = AVL.count t /\
      (forall a, G.Tree_Root tr = Some a -> exists nd, hread h a = Some nd /\ G.Node_Parent nd = None) /\
      (forall a, In a (addrs pt) -> exists nd, hread h a = Some nd /\
         (forall b, fst (G.Node_Children nd) = Some b -> exists ndb, hread h b = Some ndb /\ G.Node_Parent ndb = Some a) /\
         (forall b, snd (G.Node_Children nd) = Some b -> exists ndb, hread h b = Some ndb /\ G.Node_Parent ndb = Some a)).
Proof.
  intros mag c ops fuel K Hf.
  destruct (gen_avl_reach mag c ops fuel K Hf) as (ncmp & h & tr & t & Hrun & Hm & Hrepr & Hok & Hcmp & Havl & Hsz & Hle).
  exists ncmp, h, tr, t. split; [exact Hrun|]. split; [exact Hrepr|]. split; [rewrite Hm, Hsz; reflexivity|]. split; [exact Havl|].
  split; [apply MT.avl_balanced; exact Havl|]. split; [exact (proj1 (Size_Empty_correct h tr t Hsz))|].
  split; [apply MT.avl_log_bound_le; [exact Havl|lia]|].
  destruct Hrepr as (pt & He & Hroot & Hrep & Hnd). exists pt. split; [exact He|]. split; [exact Hroot|]. split; [exact Hnd|].
  destruct (rep_parent_links h pt None Hrep) as (P1 & P2).
  split; [|split; [intros a Ha; apply P1; rewrite Hroot; exact Ha|exact P2]].
  rewrite <- He. clear. induction pt as [|a c l IHl k v r IHr]; [reflexivity|]. cbn [addrs erase AVL.count length]. rewrite app_length. lia.
Qed.
Print Assumptions gen_avl_shape.

(* ====================== C01 / C02: the content, in terms of the HISTORY only ====================== *)
Lemma avl_valid : forall c, ckind c = AVLTree -> MM.valid c /\ MM.ordered_kind (ckind c) = true /\ MM.cmp_for c = kc c /\
  ckind c <> LinkedHashMap /\ ckind c <> BTree.
Proof. intros c K. unfold MM.valid, MM.cmp_for. rewrite K. repeat split; try reflexivity; discriminate. Qed.

(* the entries of the represented tree are the abstract map of the history (Spec/MapSpec.mrun: a sorted association list) *)
Lemma gen_avl_entries : forall mag c ops fuel, ckind c = AVLTree -> (length ops < fuel)%nat ->
  exists ncmp h tr t, avl_gen_run mag (kc c) fuel ops = Some (ncmp, h, tr) /\
    run c (map to_op ops) = StAVL t (G.Tree_size tr) /\ tree_repr h tr t /\ heap_ok h /\ G.Tree_Comparator tr = kc c /\
    AVLInv.avl t /\ G.Tree_size tr = Z.of_nat (AVL.count t) /\ (AVL.count t <= length ops)%nat /\
    AVL.inorder t = mrun (kc c) (map to_mop ops).
Proof.
  intros mag c ops fuel K Hf.
  destruct (gen_avl_reach mag c ops fuel K Hf) as (ncmp & h & tr & t & Hrun & Hm & R).
  exists ncmp, h, tr, t. split; [exact Hrun|]. split; [exact Hm|]. repeat (split; [apply R|]).
  destruct (avl_valid c K) as (Hv & _ & Hc & Hl & _).
  pose proof (MM.refines_tree c (map to_op ops) Hv Hl) as E. rewrite Hm, Hc, hist_to_op in E. exact E.
Qed.

(* OBLIGATION (C01): after ANY generated run, the generated Get(k) returns (v, true) exactly when the most recent Put(k', v) of a
   key equivalent to k in the history is not followed by a Remove of an equivalent key, else (0, false); Size() is the number of
   live keys; Keys() / Values() list every live entry exactly once, position-aligned *)
Theorem gen_avl_get_last_live : forall mag c ops fuel, ckind c = AVLTree -> (2 * length ops + 3 < fuel)%nat ->
  let hs := map to_mop ops in let es := mrun (kc c) hs in
  exists ncmp h tr, avl_gen_run mag (kc c) fuel ops = Some (ncmp, h, tr) /\
    (forall k, exists q, G.Get mag fuel ncmp h tr k =
       Some ((ncmp + q)%nat, match last_live (kc c) (rev hs) k with Some e => snd e | None => 0 end,
                             match last_live (kc c) (rev hs) k with Some _ => true | None => false end)) /\
    G.Tree_Size h tr = Some (Z.of_nat (length es)) /\
    G.Keys fuel h tr = Some (map fst es) /\ G.Values fuel h tr = Some (map snd es) /\
    (forall e, In e es <-> last_live (kc c) (rev hs) (fst e) = Some e) /\
    NoDupA (fun a b => kc c a b = Eq) (map fst es).
Proof.
  intros mag c ops fuel K Hf hs es.
  destruct (gen_avl_entries mag c ops fuel K ltac:(lia)) as (ncmp & h & tr & t & Hrun & Hm & Hrepr & Hok & Hcmp & Havl & Hsz & Hle & Hes).
  destruct (avl_valid c K) as (Hv & _ & Hc & Hl & _). pose proof (AP.height_le_count t) as Hh.
  exists ncmp, h, tr. split; [exact Hrun|]. fold hs in Hes. fold es in Hes.
  split; [|split; [|split; [|split; [|split]]]].
  - intro k. rewrite (Get_correct mag h tr t k fuel ncmp Hrepr ltac:(lia)), Hcmp. eexists.
    pose proof (MM.C01_get c (map to_op ops) k Hv) as E. rewrite Hm, Hc, hist_to_op in E. cbn [get_of] in E. fold hs in E.
    destruct (AVL.lookup (kc c) k t) as [[k' v']|], (last_live (kc c) (rev hs) k) as [[k'' v'']|]; cbn in E; try discriminate; [|reflexivity].
    injection E as ->. reflexivity.
  - rewrite (proj1 (Size_Empty_correct h tr t Hsz)), <- Hes, IterTreeAVL.AVLIter.length_inorder. reflexivity.
  - rewrite (proj1 (Keys_Values_correct h tr t fuel Hrepr Hsz ltac:(lia))). unfold AVL.keys. rewrite Hes. reflexivity.
  - rewrite (proj2 (Keys_Values_correct h tr t fuel Hrepr Hsz ltac:(lia))). unfold AVL.values. rewrite Hes. reflexivity.
  - intro e. pose proof (MM.C01_entry_iff c (map to_op ops) e Hv) as E. rewrite Hm, Hc, hist_to_op in E. cbn [entries_of] in E. rewrite Hes in E. exact E.
  - pose proof (MM.C01_nodup c (map to_op ops) Hv) as E. rewrite Hm, Hc in E. unfold keys_of in E. cbn [entries_of] in E. rewrite Hes in E. exact E.
Qed.
Print Assumptions gen_avl_get_last_live.

(* what a *Node result stands for *)
Definition entry_at (h : heap G.Node) (p : ptr) : option (Z * Z) :=
  match deref h p with Some nd => Some (G.Node_Key nd, G.Node_Value nd) | None => None end.
Lemma entry_at_is : forall h p o, node_is h p o -> entry_at h p = o.
Proof.
  intros h p [[k v]|] H; unfold entry_at.
  - destruct H as (nd & -> & <- & <-). reflexivity.
  - cbn in H. subst p. reflexivity.
Qed.

(* OBLIGATION (C02): after ANY generated run, Keys() is strictly ascending under the comparator; Left() / Right() are the nodes of
   the least / greatest entry (nil exactly on the empty tree); Floor(k) / Ceiling(k) return the node of the greatest entry not
   above k / the least entry not below k and report found exactly when there is one (Properties/C02.v: C02_Keys_sorted,
   C02_Left, C02_Right, C02_Floor, C02_Ceiling, C02_Floor_char, C02_Ceiling_char) *)
Theorem gen_avl_ordered : forall mag c ops fuel, ckind c = AVLTree -> (2 * length ops + 3 < fuel)%nat ->
  let es := mrun (kc c) (map to_mop ops) in
  exists ncmp h tr, avl_gen_run mag (kc c) fuel ops = Some (ncmp, h, tr) /\
    G.Keys fuel h tr = Some (map fst es) /\ StronglySorted (fun a b => kc c a b = Lt) (map fst es) /\
    (exists p, G.Left fuel h tr = Some p /\ entry_at h p = hd_error es) /\
    (exists p, G.Right fuel h tr = Some p /\ entry_at h p = last_opt es) /\
    (forall k, exists q p, G.Floor mag fuel ncmp h tr k = Some ((ncmp + q)%nat, p, match entry_at h p with Some _ => true | None => false end) /\
       entry_at h p = floor_list (kc c) k es /\
       match entry_at h p with
       | Some e => In e es /\ kc c k (fst e) <> Lt /\
                   (forall e', In e' es -> kc c k (fst e') <> Lt -> e' = e \/ kc c (fst e') (fst e) = Lt) /\
                   (forall e', In e' es -> kc c (fst e) (fst e') = Lt -> kc c k (fst e') = Lt)
       | None => forall e', In e' es -> kc c k (fst e') = Lt
       end) /\
    (forall k, exists q p, G.Ceiling mag fuel ncmp h tr k = Some ((ncmp + q)%nat, p, match entry_at h p with Some _ => true | None => false end) /\
       entry_at h p = ceiling_list (kc c) k es /\
       match entry_at h p with
       | Some e => In e es /\ kc c k (fst e) <> Gt /\
                   (forall e', In e' es -> kc c k (fst e') <> Gt -> e' = e \/ kc c (fst e) (fst e') = Lt) /\
                   (forall e', In e' es -> kc c (fst e') (fst e) = Lt -> kc c k (fst e') = Gt)
       | None => forall e', In e' es -> kc c k (fst e') = Gt
       end).
Proof.
  intros mag c ops fuel K Hf es.
  destruct (gen_avl_entries mag c ops fuel K ltac:(lia)) as (ncmp & h & tr & t & Hrun & Hm & Hrepr & Hok & Hcmp & Havl & Hsz & Hle & Hes).
  destruct (avl_valid c K) as (Hv & Ho & Hc & Hl & Hb). pose proof (AP.height_le_count t) as Hh. fold es in Hes.
  exists ncmp, h, tr. split; [exact Hrun|].
  split; [rewrite (proj1 (Keys_Values_correct h tr t fuel Hrepr Hsz ltac:(lia))); unfold AVL.keys; rewrite Hes; reflexivity|].
  split; [pose proof (MM.C02_keys_sorted c (map to_op ops) Hv Ho) as E; rewrite Hm in E; unfold keys_of in E; cbn [entries_of] in E; rewrite Hes in E; exact E|].
  destruct (Left_Right_correct h tr t fuel Hrepr ltac:(lia)) as ((pl & L1 & L2) & (pr & R1 & R2)).
  split; [exists pl; split; [exact L1|]; rewrite (entry_at_is _ _ _ L2);
          pose proof (MM.C02_left c (map to_op ops) Hv Ho) as E; rewrite Hm in E; cbn [MM.left_of entries_of] in E; rewrite Hes in E; exact E|].
  split; [exists pr; split; [exact R1|]; rewrite (entry_at_is _ _ _ R2);
          pose proof (MM.C02_right c (map to_op ops) Hv Ho) as E; rewrite Hm in E; cbn [MM.right_of entries_of] in E; rewrite Hes in E; exact E|].
  split; intro k.
  - destruct (Floor_correct mag h tr t k fuel ncmp Hrepr ltac:(lia)) as (p & F1 & F2). rewrite Hcmp in F1, F2.
    pose proof (MM.C02_floor c (map to_op ops) k Hv Ho Hb) as E. rewrite Hm in E. cbn [MM.floor_of entries_of] in E. rewrite Hes in E.
    pose proof (MM.C02_floor_char c (map to_op ops) k Hv Ho Hb) as Ch. rewrite Hm in Ch. cbn [MM.floor_of entries_of] in Ch. rewrite Hes in Ch.
    exists (AVL.lookup_cost (kc c) k t), p. rewrite (entry_at_is _ _ _ F2).
    split; [rewrite F1; destruct (AVL.floor (kc c) k t); reflexivity|]. split; [exact E|exact Ch].
  - destruct (Ceiling_correct mag h tr t k fuel ncmp Hrepr ltac:(lia)) as (p & F1 & F2). rewrite Hcmp in F1, F2.
    pose proof (MM.C02_ceiling c (map to_op ops) k Hv Ho Hb) as E. rewrite Hm in E. cbn [MM.ceiling_of entries_of] in E. rewrite Hes in E.
    pose proof (MM.C02_ceiling_char c (map to_op ops) k Hv Ho Hb) as Ch. rewrite Hm in Ch. cbn [MM.ceiling_of entries_of] in Ch. rewrite Hes in Ch.
    exists (AVL.lookup_cost (kc c) k t), p. rewrite (entry_at_is _ _ _ F2).
    split; [rewrite F1; destruct (AVL.ceiling (kc c) k t); reflexivity|]. split; [exact E|exact Ch].
Qed.
Print Assumptions gen_avl_ordered.

(* ====================== C08: the generated iterator is the cursor over Keys() / Values() ====================== *)
(* a script of iterator calls executed by the GENERATED iterator functions on a fixed heap (the observation format of
   Model/Iter.run_call: a successful move reports (1, Key(), Value()), a failed one (0); a None of the generated code = crash) *)
Definition gen_moved (h : heap G.Node) (r : option (G.Iterator * bool)) : option (G.Iterator * obs) :=
  match r with
  | Some (it', true) => match G.Key h it', G.Value h it' with
                        | Some k, Some v => Some (it', OL [OZ 1; OZ k; OZ v])
                        | _, _ => None
                        end
  | Some (it', false) => Some (it', OL [OZ 0])
  | None => None
  end.
Definition gen_call (fuel : nat) (h : heap G.Node) (tr : G.Tree) (it : G.Iterator) (c : icall) : option (G.Iterator * obs) :=
  match c with
  | CNext => gen_moved h (G.Iterator_Next fuel h tr it)
  | CPrev => gen_moved h (G.Iterator_Prev fuel h tr it)
  | CBegin => match G.Begin h it with Some it' => Some (it', ounit) | None => None end
  | CEnd => match G.End h it with Some it' => Some (it', ounit) | None => None end
  | CFirst => gen_moved h (G.First fuel h tr it)
  | CLast => gen_moved h (G.Last fuel h tr it)
  | CNextTo p => gen_moved h (G.NextTo fuel h tr it (pred_eval p))
  | CPrevTo p => gen_moved h (G.PrevTo fuel h tr it (pred_eval p))
  end.
Fixpoint gen_script (fuel : nat) (h : heap G.Node) (tr : G.Tree) (it : G.Iterator) (cs : list icall) : list obs :=
  match cs with
  | [] => []
  | c :: cs' => match gen_call fuel h tr it c with
                | None => [ocrash]
                | Some (it', o) => o :: gen_script fuel h tr it' cs'
                end
  end.

Lemma Begin_End_correct : forall h (tr : G.Tree) pt it (nd : ptr),
  (exists it', G.Begin h it = Some it' /\ irep pt it' AVL.IBegin /\ G.Iterator_node it' = None) /\
  (exists it', G.End h it = Some it' /\ irep pt it' AVL.IEnd /\ G.Iterator_node it' = None) /\
  (exists it', G.Tree_Iterator h tr = Some it' /\ irep pt it' AVL.IBegin /\ G.Iterator_node it' = None) /\ True.
Proof. intros. repeat split; eexists; repeat split. Qed.
Lemma First_Last_correct : forall h tr pt it fuel,
  rep h None pt -> NoDup (addrs pt) -> G.Tree_Root tr = root_ptr pt -> (AVL.height (erase pt) < fuel)%nat ->
  (exists it', G.First fuel h tr it = Some (it', is_between (AVL.inext (erase pt) AVL.IBegin)) /\
               irep pt it' (AVL.inext (erase pt) AVL.IBegin)) /\
  (exists it', G.Last fuel h tr it = Some (it', is_between (AVL.iprev (erase pt) AVL.IEnd)) /\
               irep pt it' (AVL.iprev (erase pt) AVL.IEnd)).
Proof.
  intros h tr pt it fuel Hrep Hnd Hroot Hf. split.
  - unfold G.First. cbn [G.Begin].
    destruct (Iterator_Next_correct h tr pt (G.Iterator_set_position (G.Iterator_set_node it None) G.begin) AVL.IBegin fuel Hrep Hnd Hroot (conj eq_refl eq_refl) Hf) as (it' & -> & Hi).
    exists it'. split; [reflexivity|exact Hi].
  - unfold G.Last. cbn [G.End].
    destruct (Iterator_Prev_correct h tr pt (G.Iterator_set_position (G.Iterator_set_node it None) G.end_) AVL.IEnd fuel Hrep Hnd Hroot (conj eq_refl eq_refl) Hf) as (it' & -> & Hi).
    exists it'. split; [reflexivity|exact Hi].
Qed.

Section Script.
Variables (h : heap G.Node) (tr : G.Tree) (pt : ptree).
Hypothesis Hrep : rep h None pt.
Hypothesis Hnd : NoDup (addrs pt).
Hypothesis Hroot : G.Tree_Root tr = root_ptr pt.
Notation t := (erase pt).
Notation mcall m := (run_call AVL.ipos (avl_next t) (avl_prev t) (fun _ => AVL.IBegin) (fun _ => AVL.IEnd) (AVL.ikv t) true m).

Lemma moved_transfer : forall it ip b ip' o, irep pt it ip ->
  moved AVL.ipos (AVL.ikv t) ip b = Some (ip', o) -> gen_moved h (Some (it, b)) = Some (it, o) /\ ip' = ip.
Proof.
  intros it ip b ip' o Hir Hm. unfold moved in Hm. destruct b; cbn [gen_moved]; [|injection Hm as <- <-; split; reflexivity].
  destruct ip as [| |p]; cbn [AVL.ikv] in Hm; try discriminate.
  pose proof (Key_Value_correct h pt it (AVL.IBetween p) Hrep Hir) as Hkv. cbn [AVL.ikv] in Hkv, Hm.
  destruct (match AVL.subtree (erase pt) p with Some (AVL.T _ _ k v _) => Some (k, v) | _ => None end) as [[k v]|]; [|discriminate].
  destruct Hkv as (Hk & Hv). injection Hm as <- <-. rewrite Hk, Hv. split; reflexivity.
Qed.

Lemma gen_call_model : forall it ip m fuel c ip' o, irep pt it ip -> (m + AVL.height t < fuel)%nat ->
  mcall m ip c = Some (ip', o) -> exists it', gen_call fuel h tr it c = Some (it', o) /\ irep pt it' ip'.
Proof.
  intros it ip m fuel c ip' o Hir Hf Hc. assert (Hf' : (AVL.height t < fuel)%nat) by lia.
  destruct c as [| | | | | |pr|pr]; cbn [run_call gen_call] in *.
  - destruct (Iterator_Next_correct h tr pt it ip fuel Hrep Hnd Hroot Hir Hf') as (it' & Hrun & Hir'). unfold avl_next in Hc.
    destruct (moved_transfer it' _ _ _ _ Hir' Hc) as (Hg & ->). fold (is_between (AVL.inext t ip)) in Hg. rewrite Hrun. exists it'. split; [exact Hg|exact Hir'].
  - destruct (Iterator_Prev_correct h tr pt it ip fuel Hrep Hnd Hroot Hir Hf') as (it' & Hrun & Hir'). unfold avl_prev in Hc.
    destruct (moved_transfer it' _ _ _ _ Hir' Hc) as (Hg & ->). fold (is_between (AVL.iprev t ip)) in Hg. rewrite Hrun. exists it'. split; [exact Hg|exact Hir'].
  - injection Hc as <- <-. destruct (Begin_End_correct h tr pt it None) as ((it' & Hb & Hir' & _) & _). rewrite Hb. exists it'. split; [reflexivity|exact Hir'].
  - injection Hc as <- <-. destruct (Begin_End_correct h tr pt it None) as (_ & (it' & Hb & Hir' & _) & _). rewrite Hb. exists it'. split; [reflexivity|exact Hir'].
  - destruct (First_Last_correct h tr pt it fuel Hrep Hnd Hroot Hf') as ((it' & Hrun & Hir') & _). unfold avl_next in Hc.
    destruct (moved_transfer it' _ _ _ _ Hir' Hc) as (Hg & ->). rewrite Hrun. exists it'. split; [exact Hg|exact Hir'].
  - destruct (First_Last_correct h tr pt it fuel Hrep Hnd Hroot Hf') as (_ & (it' & Hrun & Hir')). unfold avl_prev in Hc.
    destruct (moved_transfer it' _ _ _ _ Hir' Hc) as (Hg & ->). rewrite Hrun. exists it'. split; [exact Hg|exact Hir'].
  - destruct (move_to AVL.ipos (AVL.ikv t) (avl_next t) pr m ip) as [[ip1 b]|] eqn:Hm; [|discriminate].
    destruct (proj1 (NextTo_PrevTo_correct h tr pt pr it ip m fuel ip1 b Hrep Hnd Hroot Hir Hf) Hm) as (it' & Hrun & Hir').
    destruct (moved_transfer it' _ _ _ _ Hir' Hc) as (Hg & ->). rewrite Hrun. exists it'. split; [exact Hg|exact Hir'].
  - destruct (move_to AVL.ipos (AVL.ikv t) (avl_prev t) pr m ip) as [[ip1 b]|] eqn:Hm; [|discriminate].
    destruct (proj2 (NextTo_PrevTo_correct h tr pt pr it ip m fuel ip1 b Hrep Hnd Hroot Hir Hf) Hm) as (it' & Hrun & Hir').
    destruct (moved_transfer it' _ _ _ _ Hir' Hc) as (Hg & ->). rewrite Hrun. exists it'. split; [exact Hg|exact Hir'].
Qed.

Lemma gen_script_cursor : forall cs it ip fuel, irep pt it ip -> (AVL.count t + 2 + AVL.height t < fuel)%nat ->
  gen_script fuel h tr it cs = IterTreeRB.cursor_run (AVL.inorder t) true (AI.pos_of t ip) cs.
Proof.
  induction cs as [|c cs IH]; intros it ip fuel Hir Hf; [reflexivity|]. cbn [gen_script IterTreeRB.cursor_run].
  destruct (IterTreeRB.run_call_ok AVL.ipos (avl_next t) (avl_prev t) (fun _ => AVL.IBegin) (fun _ => AVL.IEnd) (AVL.ikv t) true
              (AVL.inorder t) (AI.valid t) (AI.pos_of t) (AI.pos_of_range t) (AI.avl_next_ok t) (AI.avl_prev_ok t)
              (fun s _ => conj I eq_refl) (fun s _ => conj I (eq_sym (AI.cn_inorder t))) (AI.ikv_ok t)
              (AVL.count t + 2)%nat ip c ltac:(rewrite AI.length_inorder; lia) (irep_valid _ _ _ Hir)) as (ip' & Hc & Hv' & Hp').
  destruct (gen_call_model it ip (AVL.count t + 2)%nat fuel c ip' _ Hir ltac:(lia) Hc) as (it' & Hg & Hir'). rewrite Hg, <- Hp'. f_equal. apply IH; assumption.
Qed.
End Script.

(* OBLIGATION (C08): after ANY generated run, EVERY script of Next / Prev / Begin / End / First / Last / NextTo / PrevTo calls run by
   the generated iterator functions from the generated tree.Iterator() answers exactly as the cursor over the entries
   (Properties/C08_tree.v, C08_tree_cursor: positions -1..n, saturating moves, (true, Key(), Value()) inside and false outside):
   no crash, no fuel exhaustion, NextTo / PrevTo terminate *)
Theorem gen_avl_iterator_cursor : forall mag c ops fuel cs, ckind c = AVLTree -> (2 * length ops + 3 < fuel)%nat ->
  let es := mrun (kc c) (map to_mop ops) in
  exists ncmp h tr it0, avl_gen_run mag (kc c) fuel ops = Some (ncmp, h, tr) /\ G.Tree_Iterator h tr = Some it0 /\
    gen_script fuel h tr it0 cs = IterLinear.cursor_script es true cs /\
    IterLinear.cursor_script es true cs = run_iter c (run c (map to_op ops)) cs.
Proof.
  intros mag c ops fuel cs K Hf es.
  destruct (gen_avl_entries mag c ops fuel K ltac:(lia)) as (ncmp & h & tr & t & Hrun & Hm & Hrepr & Hok & Hcmp & Havl & Hsz & Hle & Hes).
  pose proof (AP.height_le_count t) as Hh. fold es in Hes. destruct Hrepr as (pt & He & Hroot & Hrep & Hnd). subst t.
  destruct (Begin_End_correct h tr pt (G.mkIterator None G.begin) None) as (_ & _ & (it0 & Hit & Hir & _) & _).
  exists ncmp, h, tr, it0. split; [exact Hrun|]. split; [exact Hit|]. split.
  - rewrite (gen_script_cursor h tr pt Hrep Hnd (eq_sym Hroot) cs it0 AVL.IBegin fuel Hir ltac:(lia)), Hes.
    exact (IterTreeMachine.cursor_script_eq es true cs).
  - pose proof (IterTreeMachine.tree_iter_reachable c (map to_op ops) cs) as E. rewrite Hm in E. unfold IterTreeMachine.tree_iter_seq in E.
    rewrite K in E. cbn [entries_of] in E. rewrite Hes in E. rewrite Hm. symmetry. apply E; [reflexivity|unfold IterTreeMachine.btree_ok; rewrite K; reflexivity].
Qed.
Print Assumptions gen_avl_iterator_cursor.


(* ---------- a concrete run (non-vacuity; evaluated, not proved): keys compared by absolute value (-3 and 3 are ONE key) ---------- *)
Definition ex_mag : Z -> Z -> positive := fun _ _ => 1%positive.
Definition ex_cfg : config := {| ckind := AVLTree; kcmp := CAbs; vcmp := CNat; ccap := 0; corder := 3; cuni := 6 |}.
Definition ex_ops : list AR.op :=
  [AR.OPut 5 50; AR.OPut (-3) 30; AR.OPut 8 80; AR.OPut 3 31; AR.OPut 9 90; AR.ORemove (-5); AR.OPut 1 10; AR.ORemove 7; AR.OPut 6 60].
(* an Example (stated with the keyword Lemma so that run.py can isolate it when it fails) *)
Lemma ex_avl_generated_run :
  match avl_gen_run ex_mag (kc ex_cfg) 40 ex_ops with
  | Some (ncmp, h, tr) =>
    Some (ncmp, G.Tree_Size h tr, G.Keys 40 h tr, G.Values 40 h tr,
          option_map (fun r => (fst (fst r) - ncmp, snd (fst r), snd r)%nat) (G.Get ex_mag 40 ncmp h tr (-3)),
          option_map (fun r => (fst (fst r) - ncmp, snd (fst r), snd r)%nat) (G.Get ex_mag 40 ncmp h tr 5),
          option_map (fun r => (fst (fst r) - ncmp)%nat) (G.Put ex_mag 40 ncmp h tr 4 40),
          option_map (fun r => (fst (fst r) - ncmp)%nat) (G.Remove ex_mag 40 ncmp h tr 9),
          match G.Tree_Iterator h tr with
          | Some it => gen_script 40 h tr it [CNext; CNext; CNext; CNext; CNext; CNext; CNext; CPrev; CFirst; CLast; CEnd; CPrev; CBegin; CPrev; CNextTo (PValLt 50)]
          | None => []
          end)
  | None => None
  end =
  Some (13%nat, Some 5, Some [1; 3; 6; 8; 9], Some [10; 31; 60; 80; 90], Some (2%nat, 31, true), Some (3%nat, 0, false), Some 3%nat, Some 2%nat,
        [OL [OZ 1; OZ 1; OZ 10]; OL [OZ 1; OZ 3; OZ 31]; OL [OZ 1; OZ 6; OZ 60]; OL [OZ 1; OZ 8; OZ 80]; OL [OZ 1; OZ 9; OZ 90]; OL [OZ 0]; OL [OZ 0];
         OL [OZ 1; OZ 9; OZ 90]; OL [OZ 1; OZ 1; OZ 10]; OL [OZ 1; OZ 9; OZ 90]; OL []; OL [OZ 1; OZ 9; OZ 90]; OL []; OL [OZ 0]; OL [OZ 1; OZ 1; OZ 10]]) /\
  mrun (kc ex_cfg) (map to_mop ex_ops) = [(1, 10); (3, 31); (6, 60); (8, 80); (9, 90)] /\
  last_live (kc ex_cfg) (rev (map to_mop ex_ops)) (-3) = Some (3, 31) /\ last_live (kc ex_cfg) (rev (map to_mop ex_ops)) 5 = None /\
  (AVLBounds.fib (3 + 2) <= 5 + 1)%nat.
Proof. vm_compute. repeat split; try reflexivity. lia. Qed.
