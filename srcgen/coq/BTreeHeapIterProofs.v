(* trees/btree/iterator.go in TREE POINTER MODE with the B-tree extensions (GodsGen.BTreeHeapGen): the GENERATED Next / Prev
   -- the three-state position and the `goto`s, re-finding the current entry in its node with tree.search, the descent
   into Children[e+1] / Children[e] and down the first / last children, the climb along the PARENT pointers with a new
   tree.search of the key in every ancestor -- on a represented tree (BTreeHeapRep.v) move exactly like the model's path
   iterator BTreeIter.inext / iprev (Model/BTreeIter.v), for EVERY comparator (no order hypothesis) and every tree all
   of whose nodes have entries; Key / Value return the entry the iterator holds, which is an entry of the node at the
   model's path; Begin / End / First / Last / Tree.Iterator / Iterator.Node.  With Proofs/IterTreeBT.v (strict weak order,
   ordered well-shaped tree) this gives: Next moves to the in-order successor (position + 1 in BT.inorder, clamped), Prev
   to the predecessor, and Key / Value return that element of BT.inorder ([Next_Prev_inorder]).
   Never None (no nil dereference, no index out of range) when the fuel covers height + widest node.  The iterator
   functions return no heap, hence cannot change it. *)
From Coq Require Import ZArith List Lia Bool Arith ZifyBool ZifyNat.
From Gods Require Import Common.Cmp Model.BTree Model.BTreeCost Model.BTreeIter.
From Gods Require Proofs.BTreeInd Proofs.BTreeMap Proofs.BTreeCostProofs Proofs.IterTreeBT.
From GodsGenProofs Require Import GoCmp GoTreeHeap GoBTreeHeap BTreeHeapRep BTreeHeapReadProofs.
From GodsGen Require BTreeHeapGen.
Import ListNotations.
Local Open Scope Z_scope.

(* the root as the iterator sees it *)
Definition orep (h : heap G.Node) (tr : G.Tree) (opt : option pnode) : Prop :=
  match opt with
  | None => G.Tree_Root tr = None
  | Some pt => G.Tree_Root tr = Some (paddr pt) /\ rep h None pt
  end.
Definition oerase (opt : option pnode) : option BT.node := option_map erase opt.

(* the iterator record against a model position: the position constant; between: the node's address is the address at
   the model's path, and the entry held is an entry of that node with the model's key *)
Definition irep (opt : option pnode) (it : G.Iterator) (ip : ipos) : Prop :=
  match ip with
  | IBegin => G.Iterator_position it = G.begin
  | IEnd => G.Iterator_position it = G.end_
  | IBetween path key =>
    G.Iterator_position it = G.between /\
    exists pt pn e v, opt = Some pt /\ psub pt path = Some pn /\ G.Iterator_node it = Some (paddr pn) /\
                      nth_error (pentries pn) e = Some (key, v) /\ G.Iterator_entry it = Some (key, v)
  end.

Definition is_between (ip : ipos) : bool := match ip with IBetween _ _ => true | _ => false end.

Inductive pne : pnode -> Prop :=
| pne_N : forall a es cs, es <> [] -> Forall pne cs -> pne (PN a es cs).
Definition opne (opt : option pnode) : Prop := match opt with None => True | Some pt => pne pt end.

Lemma pne_entries : forall pt, pne pt -> pentries pt <> [].
Proof. intros pt H. now inversion H. Qed.
Lemma pne_child : forall pt i c, pne pt -> nth_error (pchildren pt) i = Some c -> pne c.
Proof.
  intros pt i c H Hc. inversion H as [a es cs _ Hf]; subst. cbn [pchildren] in Hc. rewrite Forall_forall in Hf.
  apply Hf. eapply nth_error_In; eauto.
Qed.
Lemma pne_psub : forall p pt pn, pne pt -> psub pt p = Some pn -> pne pn.
Proof.
  induction p as [|i p IH]; intros pt pn H Hs; cbn [psub] in Hs; [now injection Hs as <-|].
  destruct (nth_error (pchildren pt) i) as [c|] eqn:Ec; [|discriminate]. eapply IH; [eapply pne_child; eauto|exact Hs].
Qed.
Lemma pne_erase : forall pt, BTreeMap.ne_entries (erase pt) -> pne pt.
Proof.
  induction pt as [a es cs IH] using pnode_ind2. intros H. cbn [erase] in H. inversion H as [? ? Hes Hf]; subst.
  constructor; [exact Hes|]. rewrite Forall_forall in *. intros c Hc. apply IH; [exact Hc|]. apply Hf. now apply in_map.
Qed.

(* ---------- the simple methods ---------- *)
(* OBLIGATION *)
Theorem Begin_End_correct : forall h tr opt it,
  (exists it', G.Begin h it = Some it' /\ irep opt it' IBegin /\ G.Iterator_node it' = None /\ G.Iterator_entry it' = None) /\
  (exists it', G.End h it = Some it' /\ irep opt it' IEnd /\ G.Iterator_node it' = None /\ G.Iterator_entry it' = None) /\
  (exists it', G.Tree_Iterator h tr = Some it' /\ irep opt it' IBegin /\ G.Iterator_node it' = None /\ G.Iterator_entry it' = None) /\
  G.Iterator_Node h it = Some (G.Iterator_node it).
Proof.
  intros h tr opt it. unfold G.Begin, G.End, G.Tree_Iterator, G.Iterator_Node. repeat split; eexists; repeat split.
Qed.
Print Assumptions Begin_End_correct.

(* Key / Value read the entry the iterator holds (a nil entry -- positions begin / end -- panics) *)
(* OBLIGATION *)
Theorem Key_Value_correct : forall h opt it path key,
  irep opt it (IBetween path key) ->
  G.Key h it = Some key /\
  exists pt pn e v, opt = Some pt /\ psub pt path = Some pn /\ nth_error (pentries pn) e = Some (key, v) /\
                    G.Value h it = Some v.
Proof.
  intros h opt it path key (_ & pt & pn & e & v & Ho & Hs & _ & He & Hent). unfold G.Key, G.Value. rewrite Hent.
  split; [reflexivity|]. exists pt, pn, e, v. repeat split; assumption.
Qed.
Print Assumptions Key_Value_correct.

(* ---------- the leftmost / rightmost leaf below a node ---------- *)
Fixpoint pleft (pn : pnode) : pnode :=
  match pn with PN _ _ cs => match cs with [] => pn | c :: _ => pleft c end end.

Lemma height_pos : forall t, (1 <= BT.height t)%nat.
Proof. destruct t. cbn [BT.height]. lia. Qed.

Lemma path_cases : forall (p : list nat), p = [] \/ exists q d, p = q ++ [d].
Proof. intros p. destruct p using rev_ind; [now left|right; eauto]. Qed.

Lemma pleft_spec : forall pn f, (BT.height (erase pn) <= S f)%nat ->
  psub pn (leftmost f (erase pn)) = Some (pleft pn) /\ pchildren (pleft pn) = [].
Proof.
  induction pn as [a es cs IH] using pnode_ind2. intros f Hf. destruct cs as [|c cs'].
  - destruct f; cbn [erase map leftmost BT.children psub pleft pchildren]; split; reflexivity.
  - inversion IH as [|? ? IHc _]; subst. cbn [erase map BT.height] in Hf. pose proof (height_pos (erase c)). destruct f as [|f]; [lia|].
    cbn [erase map leftmost BT.children psub pleft pchildren nth_error]. apply IHc. lia.
Qed.

Definition plast (pn : pnode) : option pnode := BT.last_opt (pchildren pn).

(* the node reached by walking down the last children, as a function of the model's fuel *)
Fixpoint pright (f : nat) (pn : pnode) : pnode :=
  match f with
  | O => pn
  | S f' => match plast pn with None => pn | Some c => pright f' c end
  end.

Lemma pright_spec : forall f pn, (BT.maxheight (erase pn) <= S f)%nat ->
  psub pn (rightmost f (erase pn)) = Some (pright f pn) /\ pchildren (pright f pn) = [].
Proof.
  induction f as [|f IH]; intros pn Hf.
  - cbn [rightmost psub pright]. split; [reflexivity|]. destruct pn as [a es cs]. cbn [pchildren].
    destruct cs as [|c cs']; [reflexivity|]. pose proof (BTreeMap.maxheight_child es (map erase (c :: cs')) (erase c) (or_introl eq_refl)).
    pose proof (BTreeCostProofs.mh_pos (erase c)). cbn [erase] in Hf. lia.
  - destruct pn as [a es cs]. cbn [erase]. rewrite IterTreeBT.rightmost_S. cbn [pright]. unfold plast, BT.last_opt. cbn [pchildren].
    rewrite map_length, nth_erase. destruct (nth_error cs (length cs - 1)) as [c|] eqn:Ec; cbn [option_map].
    + cbn [psub pchildren]. rewrite Ec. apply IH.
      pose proof (BTreeMap.maxheight_child es (map erase cs) (erase c) (in_map erase cs c (nth_error_In _ _ Ec))).
      cbn [erase] in Hf. lia.
    + cbn [psub]. split; [reflexivity|]. apply nth_error_None in Ec. destruct cs; [reflexivity|cbn [length] in Ec; lia].
Qed.

Lemma psub_height : forall p pt pn, psub pt p = Some pn ->
  (length p + BT.maxheight (erase pn) <= BT.maxheight (erase pt))%nat.
Proof.
  induction p as [|i p IH]; intros pt pn H; cbn [psub] in H.
  - injection H as <-. cbn [length]. lia.
  - destruct pt as [a es cs]. cbn [pchildren] in H. destruct (nth_error cs i) as [c|] eqn:Ec; [|discriminate].
    specialize (IH _ _ H). pose proof (BTreeMap.maxheight_child es (map erase cs) (erase c) (in_map erase cs c (nth_error_In _ _ Ec))).
    cbn [erase length]. lia.
Qed.
Lemma psub_wid : forall p pt pn, psub pt p = Some pn -> (wid (erase pn) <= wid (erase pt))%nat.
Proof.
  induction p as [|i p IH]; intros pt pn H; cbn [psub] in H.
  - injection H as <-. lia.
  - destruct pt as [a es cs]. cbn [pchildren] in H. destruct (nth_error cs i) as [c|] eqn:Ec; [|discriminate].
    specialize (IH _ _ H). pose proof (wid_child es (map erase cs) (erase c) (in_map erase cs c (nth_error_In _ _ Ec))).
    cbn [erase]. lia.
Qed.

(* rep of the node at a path, with the address of its parent *)
Lemma rep_psub_parent : forall h p pt pn, rep h None pt -> psub pt p = Some pn ->
  exists pp, rep h pp pn /\
    match p with
    | [] => pp = None
    | _ => exists pq, psub pt (removelast p) = Some pq /\ pp = Some (paddr pq) /\
                      nth_error (pchildren pq) (last p O) = Some pn
    end.
Proof.
  intros h p. destruct (path_cases p) as [->|(q & i & ->)]; intros pt pn Hrep H.
  - cbn [psub] in H. injection H as <-. exists None. split; [exact Hrep|reflexivity].
  - rewrite psub_app in H. destruct (psub pt q) as [pq|] eqn:Eq; [|discriminate]. cbn [psub] in H.
    destruct (nth_error (pchildren pq) i) as [c|] eqn:Ec; [|discriminate]. injection H as <-.
    destruct (rep_psub h q pt None pq Hrep Eq) as (ppq & Hq). destruct pq as [aq eq cq]. cbn [pchildren] in Ec.
    exists (Some aq). split; [eapply rep_child; eauto|].
    destruct (q ++ [i]) eqn:E; [destruct q; discriminate|]. rewrite <- E. rewrite removelast_last, last_last.
    exists (PN aq eq cq). repeat split; assumption.
Qed.

(* ---------- the descents ---------- *)
Lemma left_loop_addr : forall (tr : G.Tree) h pn pp fuel nd0, rep h pp pn -> (BT.height (erase pn) <= fuel)%nat ->
  G.left_loop1 fuel h tr nd0 (Some (paddr pn)) = Some (Some (Some (paddr (pleft pn))), Some (paddr (pleft pn))).
Proof.
  intros tr h pn. induction pn as [a es cs IH] using pnode_ind2. intros pp fuel nd0 Hrep Hf.
  pose proof (rep_deref _ _ _ _ _ Hrep) as Hd. cbn [erase BT.height] in Hf.
  destruct fuel as [|fuel]; [lia|]. cbn [G.left_loop1 paddr]. rewrite (isLeaf_rep h tr pp a es cs Hrep).
  destruct cs as [|c cs'].
  - reflexivity.
  - rewrite Hd. cbn [node_of G.Node_Children].
    change 0 with (Z.of_nat 0). rewrite sl_get_nat. cbn [cptrs map nth_error pleft].
    inversion IH as [|? ? IHc _]; subst. cbn [map] in Hf.
    apply (IHc (Some a)); [exact (rep_child _ _ _ _ _ 0%nat c Hrep eq_refl)|lia].
Qed.

Lemma right_loop_addr : forall (tr : G.Tree) h f pn pp fuel nd0, rep h pp pn ->
  (BT.maxheight (erase pn) <= S f)%nat -> (BT.maxheight (erase pn) <= fuel)%nat ->
  G.right_loop1 fuel h tr nd0 (Some (paddr pn)) = Some (Some (Some (paddr (pright f pn))), Some (paddr (pright f pn))).
Proof.
  intros tr h. induction f as [|f IH]; intros pn pp fuel nd0 Hrep Hf Hfuel; destruct pn as [a es cs];
    pose proof (rep_deref _ _ _ _ _ Hrep) as Hd; pose proof (BTreeCostProofs.mh_pos (erase (PN a es cs))) as Hpos;
    (destruct fuel as [|fuel]; [lia|]); cbn [G.right_loop1 paddr]; rewrite (isLeaf_rep h tr pp a es cs Hrep).
  - destruct cs as [|c cs']; [reflexivity|].
    pose proof (BTreeMap.maxheight_child es (map erase (c :: cs')) (erase c) (or_introl eq_refl)).
    pose proof (BTreeCostProofs.mh_pos (erase c)). cbn [erase] in Hf. lia.
  - cbn [pright]. unfold plast, BT.last_opt. cbn [pchildren].
    destruct (nth_error cs (length cs - 1)) as [c|] eqn:Ec.
    + assert (Hlen : (length cs - 1 < length cs)%nat) by (apply nth_error_Some; congruence).
      assert (Hz : match cs with [] => true | _ => false end = false) by (destruct cs; [cbn [length] in Hlen; lia|reflexivity]). rewrite Hz.
      rewrite Hd. cbn [node_of G.Node_Children]. rewrite sl_len_cptrs.
      replace (Z.of_nat (length cs) - 1) with (Z.of_nat (length cs - 1)) by lia.
      rewrite sl_get_nat, nth_cptrs, Ec. cbn [option_map].
      pose proof (BTreeMap.maxheight_child es (map erase cs) (erase c) (in_map erase cs c (nth_error_In _ _ Ec))) as Hmc.
      cbn [erase] in Hf, Hfuel. apply (IH c (Some a)); [eapply rep_child; eauto|lia|lia].
    + apply nth_error_None in Ec. assert (cs = []) by (destruct cs; [reflexivity|cbn [length] in Ec; lia]). subst cs. reflexivity.
Qed.

Lemma Next_loop1_spec : forall (tr : G.Tree) h pn pp fuel n e en ps, rep h pp pn -> (BT.height (erase pn) <= fuel)%nat ->
  G.Next_loop1 fuel n h tr (G.mkIterator (Some (paddr pn)) en ps) e = Some (G.mkIterator (Some (paddr (pleft pn))) en ps).
Proof.
  intros tr h pn. induction pn as [a es cs IH] using pnode_ind2. intros pp fuel n e en ps Hrep Hf.
  pose proof (rep_deref _ _ _ _ _ Hrep) as Hd. cbn [erase BT.height] in Hf.
  destruct fuel as [|fuel]; [lia|]. cbn [G.Next_loop1 paddr G.Iterator_node]. rewrite Hd.
  cbn [node_of G.Node_Children]. rewrite sl_len_cptrs. destruct cs as [|c cs'].
  - reflexivity.
  - assert (Hz : (0 <? Z.of_nat (length (c :: cs'))) = true) by (cbn [length]; lia). rewrite Hz.
    change 0 with (Z.of_nat 0) at 1. rewrite sl_get_nat. cbn [cptrs map nth_error pleft G.Iterator_set_node G.Iterator_entry G.Iterator_position].
    inversion IH as [|? ? IHc _]; subst. cbn [map] in Hf.
    apply (IHc (Some a)); [exact (rep_child _ _ _ _ _ 0%nat c Hrep eq_refl)|lia].
Qed.

Lemma Prev_loop1_spec : forall (tr : G.Tree) h f pn pp fuel n e en ps, rep h pp pn ->
  (BT.maxheight (erase pn) <= S f)%nat -> (BT.maxheight (erase pn) <= fuel)%nat ->
  G.Prev_loop1 fuel n h tr (G.mkIterator (Some (paddr pn)) en ps) e = Some (G.mkIterator (Some (paddr (pright f pn))) en ps).
Proof.
  intros tr h. induction f as [|f IH]; intros pn pp fuel n e en ps Hrep Hf Hfuel; destruct pn as [a es cs];
    pose proof (rep_deref _ _ _ _ _ Hrep) as Hd; pose proof (BTreeCostProofs.mh_pos (erase (PN a es cs))) as Hpos;
    (destruct fuel as [|fuel]; [lia|]); cbn [G.Prev_loop1 paddr G.Iterator_node]; rewrite Hd;
    cbn [node_of G.Node_Children]; rewrite sl_len_cptrs.
  - destruct cs as [|c cs']; [reflexivity|].
    pose proof (BTreeMap.maxheight_child es (map erase (c :: cs')) (erase c) (or_introl eq_refl)).
    pose proof (BTreeCostProofs.mh_pos (erase c)). cbn [erase] in Hf. lia.
  - cbn [pright]. unfold plast, BT.last_opt. cbn [pchildren].
    destruct (nth_error cs (length cs - 1)) as [c|] eqn:Ec.
    + assert (Hlen : (length cs - 1 < length cs)%nat) by (apply nth_error_Some; congruence).
      assert (Hz : (0 <? Z.of_nat (length cs)) = true) by lia. rewrite Hz.
      replace (Z.of_nat (length cs) - 1) with (Z.of_nat (length cs - 1)) by lia.
      rewrite sl_get_nat, nth_cptrs, Ec. cbn [option_map G.Iterator_set_node G.Iterator_entry G.Iterator_position].
      pose proof (BTreeMap.maxheight_child es (map erase cs) (erase c) (in_map erase cs c (nth_error_In _ _ Ec))) as Hmc.
      cbn [erase] in Hf, Hfuel. apply (IH c (Some a)); [eapply rep_child; eauto|lia|lia].
    + apply nth_error_None in Ec. assert (cs = []) by (destruct cs; [reflexivity|cbn [length] in Ec; lia]). subst cs. reflexivity.
Qed.

(* ---------- the climbs ---------- *)
Lemma search_at : forall mag (tr : G.Tree) h pn pp key fuel n, rep h pp pn -> (wid (erase pn) <= fuel)%nat ->
  G.search mag fuel n h tr (Some (paddr pn)) key =
    Some ((n + search_c (G.Tree_Comparator tr) key (pentries pn))%nat,
          Z.of_nat (fst (BT.search (G.Tree_Comparator tr) key (pentries pn))),
          snd (BT.search (G.Tree_Comparator tr) key (pentries pn))).
Proof.
  intros mag tr h [a es cs] pp key fuel n Hrep Hw. cbn [paddr pentries].
  apply (search_correct mag h tr (Some a) _ es key fuel n (rep_deref _ _ _ _ _ Hrep) eq_refl).
  pose proof (search_c_le_len (G.Tree_Comparator tr) key es). pose proof (wid_entries es (map erase cs)). cbn [erase] in Hw. lia.
Qed.

Lemma key_at_idx_erase : forall pn e, key_at_idx (erase pn) e = option_map fst (nth_error (pentries pn) e).
Proof. intros [a es cs] e. unfold key_at_idx. cbn [erase BT.entries pentries]. destruct (nth_error es e) as [[k v]|]; reflexivity. Qed.

Lemma Next_loop2_spec : forall mag (tr : G.Tree) h pt key v, rep h None pt ->
  forall f path pn fuel n ps,
  psub pt path = Some pn -> (length path <= f)%nat -> (length path + wid (erase pt) <= fuel)%nat ->
  exists n' it',
    G.Next_loop2 mag fuel n h tr (G.mkIterator (Some (paddr pn)) (Some (key, v)) ps) =
      Some ((if is_between (climb_next (G.Tree_Comparator tr) (erase pt) f path key) then Some (n', it', true) else None), (n', it')) /\
    (is_between (climb_next (G.Tree_Comparator tr) (erase pt) f path key) = true ->
     irep (Some pt) it' (climb_next (G.Tree_Comparator tr) (erase pt) f path key)) /\ (n <= n')%nat.
Proof.
  intros mag tr h pt key v Hrep. induction f as [|f IH]; intros path pn fuel n ps Hs Hlen Hfuel.
  - destruct path; [|cbn [length] in Hlen; lia]. cbn [psub] in Hs. injection Hs as <-. cbn [climb_next is_between].
    destruct pt as [a es cs]. pose proof (rep_deref _ _ _ _ _ Hrep) as Hd.
    eexists. eexists. split; [|split; [discriminate|apply le_n]]. destruct fuel; cbn [G.Next_loop2 G.Iterator_node paddr]; rewrite Hd; reflexivity.
  - destruct (path_cases path) as [->|(q & i & ->)].
    + cbn [psub] in Hs. injection Hs as <-. rewrite IterTreeBT.climb_next_nil. cbn [is_between].
      destruct pt as [a es cs]. pose proof (rep_deref _ _ _ _ _ Hrep) as Hd.
      eexists. eexists. split; [|split; [discriminate|apply le_n]]. destruct fuel; cbn [G.Next_loop2 G.Iterator_node paddr]; rewrite Hd; reflexivity.
    + rewrite IterTreeBT.climb_next_S by (destruct q; discriminate). rewrite removelast_last.
      destruct (rep_psub_parent h (q ++ [i]) pt pn Hrep Hs) as (pp & Hrpn & Hpar).
      destruct (q ++ [i]) eqn:E; [destruct q; discriminate|]. rewrite <- E in *. clear E.
      rewrite removelast_last, last_last in Hpar. destruct Hpar as (pq & Hq & -> & Hi).
      rewrite psub_erase, Hq. cbn [option_map]. rewrite erase_entries, key_at_idx_erase.
      rewrite app_length in Hlen, Hfuel. cbn [length] in Hlen, Hfuel.
      destruct fuel as [|fuel]; [lia|].
      destruct pn as [an en cn]. pose proof (rep_deref _ _ _ _ _ Hrpn) as Hdn.
      cbn [G.Next_loop2 G.Iterator_node paddr]. rewrite Hdn.
      cbn [node_of G.Node_Parent is_nil negb G.Iterator_set_node G.Iterator_entry G.Iterator_position G.Iterator_node Entry_Key fst].
      destruct (rep_psub h q pt None pq Hrep Hq) as (ppq & Hrq).
      pose proof (psub_wid _ _ _ Hq) as Hwq.
      rewrite (search_at mag tr h pq ppq key (S fuel) n Hrq ltac:(lia)).
      set (e := fst (BT.search (G.Tree_Comparator tr) key (pentries pq))).
      destruct pq as [aq eq cq]. pose proof (rep_deref _ _ _ _ _ Hrq) as Hdq. cbn [paddr pentries] in *.
      rewrite Hdq. cbn [node_of G.Node_Entries]. rewrite sl_len_eptrs.
      destruct (nth_error eq e) as [[k v']|] eqn:En; cbn [option_map fst is_between].
      * assert (He : (e < length eq)%nat) by (apply nth_error_Some; congruence).
        assert (Hlt : (Z.of_nat e <? Z.of_nat (length eq)) = true) by lia. rewrite Hlt.
        rewrite sl_get_nat, nth_eptrs, En. cbn [option_map G.Iterator_set_entry G.Iterator_set_position G.Iterator_node G.Iterator_entry G.Iterator_position].
        eexists. eexists. split; [reflexivity|]. split; [|lia]. intros _. cbn [irep G.Iterator_position]. split; [reflexivity|].
        exists pt, (PN aq eq cq), e, v'. repeat split; assumption.
      * assert (He : (length eq <= e)%nat) by (apply nth_error_None; exact En).
        assert (Hlt : (Z.of_nat e <? Z.of_nat (length eq)) = false) by lia. rewrite Hlt.
        destruct (IH q (PN aq eq cq) fuel (n + search_c (G.Tree_Comparator tr) key eq)%nat ps Hq ltac:(lia) ltac:(lia)) as (n' & it' & Hrun & Hres & Hle).
        exists n', it'. split; [exact Hrun|]. split; [exact Hres|lia].
Qed.

Lemma Prev_loop2_spec : forall mag (tr : G.Tree) h pt key v, rep h None pt ->
  forall f path pn fuel n ps,
  psub pt path = Some pn -> (length path <= f)%nat -> (length path + wid (erase pt) <= fuel)%nat ->
  exists n' it',
    G.Prev_loop2 mag fuel n h tr (G.mkIterator (Some (paddr pn)) (Some (key, v)) ps) =
      Some ((if is_between (climb_prev (G.Tree_Comparator tr) (erase pt) f path key) then Some (n', it', true) else None), (n', it')) /\
    (is_between (climb_prev (G.Tree_Comparator tr) (erase pt) f path key) = true ->
     irep (Some pt) it' (climb_prev (G.Tree_Comparator tr) (erase pt) f path key)) /\ (n <= n')%nat.
Proof.
  intros mag tr h pt key v Hrep. induction f as [|f IH]; intros path pn fuel n ps Hs Hlen Hfuel.
  - destruct path; [|cbn [length] in Hlen; lia]. cbn [psub] in Hs. injection Hs as <-. cbn [climb_prev is_between].
    destruct pt as [a es cs]. pose proof (rep_deref _ _ _ _ _ Hrep) as Hd.
    eexists. eexists. split; [|split; [discriminate|apply le_n]]. destruct fuel; cbn [G.Prev_loop2 G.Iterator_node paddr]; rewrite Hd; reflexivity.
  - destruct (path_cases path) as [->|(q & i & ->)].
    + cbn [psub] in Hs. injection Hs as <-. rewrite IterTreeBT.climb_prev_nil. cbn [is_between].
      destruct pt as [a es cs]. pose proof (rep_deref _ _ _ _ _ Hrep) as Hd.
      eexists. eexists. split; [|split; [discriminate|apply le_n]]. destruct fuel; cbn [G.Prev_loop2 G.Iterator_node paddr]; rewrite Hd; reflexivity.
    + rewrite IterTreeBT.climb_prev_S by (destruct q; discriminate). rewrite removelast_last.
      destruct (rep_psub_parent h (q ++ [i]) pt pn Hrep Hs) as (pp & Hrpn & Hpar).
      destruct (q ++ [i]) eqn:E; [destruct q; discriminate|]. rewrite <- E in *. clear E.
      rewrite removelast_last, last_last in Hpar. destruct Hpar as (pq & Hq & -> & Hi).
      rewrite psub_erase, Hq. cbn [option_map]. cbv zeta. rewrite erase_entries, key_at_idx_erase.
      rewrite app_length in Hlen, Hfuel. cbn [length] in Hlen, Hfuel.
      destruct fuel as [|fuel]; [lia|].
      destruct pn as [an en cn]. pose proof (rep_deref _ _ _ _ _ Hrpn) as Hdn.
      cbn [G.Prev_loop2 G.Iterator_node paddr]. rewrite Hdn.
      cbn [node_of G.Node_Parent is_nil negb G.Iterator_set_node G.Iterator_entry G.Iterator_position G.Iterator_node Entry_Key fst].
      destruct (rep_psub h q pt None pq Hrep Hq) as (ppq & Hrq).
      pose proof (psub_wid _ _ _ Hq) as Hwq.
      rewrite (search_at mag tr h pq ppq key (S fuel) n Hrq ltac:(lia)).
      pose proof (BTreeInd.search_bound (G.Tree_Comparator tr) key (pentries pq) _ _ (surjective_pairing _)) as [Hb _].
      set (e := fst (BT.search (G.Tree_Comparator tr) key (pentries pq))) in *.
      destruct pq as [aq eq cq]. pose proof (rep_deref _ _ _ _ _ Hrq) as Hdq. cbn [paddr pentries] in *.
      destruct (Nat.leb_spec 1 e) as [H1|H1].
      * assert (Hge : (0 <=? Z.of_nat e - 1) = true) by lia. rewrite Hge. rewrite Hdq. cbn [node_of G.Node_Entries].
        replace (Z.of_nat e - 1) with (Z.of_nat (e - 1)) by lia. rewrite sl_get_nat, nth_eptrs.
        destruct (nth_error eq (e - 1)) as [[k v']|] eqn:En; [|apply nth_error_None in En; lia].
        cbn [option_map fst is_between G.Iterator_set_entry G.Iterator_set_position G.Iterator_node G.Iterator_entry G.Iterator_position].
        eexists. eexists. split; [reflexivity|]. split; [|lia]. intros _. cbn [irep G.Iterator_position]. split; [reflexivity|].
        exists pt, (PN aq eq cq), (e - 1)%nat, v'. repeat split; assumption.
      * assert (Hge : (0 <=? Z.of_nat e - 1) = false) by lia. rewrite Hge.
        destruct (IH q (PN aq eq cq) fuel (n + search_c (G.Tree_Comparator tr) key eq)%nat ps Hq ltac:(lia) ltac:(lia)) as (n' & it' & Hrun & Hres & Hle).
        exists n', it'. split; [exact Hrun|]. split; [exact Hres|lia].
Qed.

(* ---------- Next / Prev ---------- *)
Definition osize_ok (tr : G.Tree) (opt : option pnode) : Prop :=
  (G.Tree_size tr =? 0) = match opt with None => true | Some _ => false end.
Definition omaxheight (opt : option pnode) : nat := match opt with None => O | Some pt => BT.maxheight (erase pt) end.
Definition owid (opt : option pnode) : nat := match opt with None => O | Some pt => wid (erase pt) end.

Lemma first_key_erase : forall pn, first_key (erase pn) = option_map fst (hd_error (pentries pn)).
Proof. intros [a es cs]. unfold first_key. cbn [erase BT.entries pentries]. destruct es as [|[k v] ?]; reflexivity. Qed.
Lemma last_key_erase : forall pn, last_key (erase pn) = option_map fst (BT.last_opt (pentries pn)).
Proof. intros [a es cs]. unfold last_key. cbn [erase BT.entries pentries]. destruct (BT.last_opt es) as [[k v]|]; reflexivity. Qed.

Lemma fuel_of_ge : forall pt pn p, psub pt p = Some pn -> (BT.maxheight (erase pn) <= S (fuel_of (erase pt)))%nat.
Proof. intros pt pn p H. pose proof (psub_height _ _ _ H). unfold fuel_of. lia. Qed.

Lemma climb_next_not_begin : forall cmp r f path key, climb_next cmp r f path key <> IBegin.
Proof.
  intros cmp r. induction f as [|f IHf]; intros path key; cbn [climb_next]; [discriminate|]. destruct path; [discriminate|].
  destruct (node_at r (removelast (n :: path))); [|discriminate].
  destruct (key_at_idx n0 (fst (BT.search cmp key (BT.entries n0)))); [discriminate|apply IHf].
Qed.
Lemma climb_prev_not_end : forall cmp r f path key, climb_prev cmp r f path key <> IEnd.
Proof.
  intros cmp r. induction f as [|f IHf]; intros path key; cbn [climb_prev]; [discriminate|]. destruct path; [discriminate|].
  destruct (node_at r (removelast (n :: path))); [|discriminate]. cbv zeta.
  destruct (1 <=? fst (BT.search cmp key (BT.entries n0)))%nat; [|apply IHf].
  destruct (key_at_idx n0 (fst (BT.search cmp key (BT.entries n0)) - 1)); discriminate.
Qed.

Lemma set_node_mk : forall a b c x, G.Iterator_set_node (G.mkIterator a b c) x = G.mkIterator x b c.
Proof. reflexivity. Qed.

(* OBLIGATION *)
Theorem Next_correct : forall mag h tr opt it ip fuel n,
  orep h tr opt -> osize_ok tr opt -> opne opt -> irep opt it ip ->
  (omaxheight opt + owid opt <= fuel)%nat ->
  exists n' it',
    G.Next mag fuel n h tr it = Some (n', it', is_between (inext (G.Tree_Comparator tr) (oerase opt) ip)) /\
    irep opt it' (inext (G.Tree_Comparator tr) (oerase opt) ip) /\ (n <= n')%nat.
Proof.
  intros mag h tr opt it ip fuel n Hroot Hsz Hne Hit Hfuel. unfold G.Next. destruct ip as [| |path key]; cbn [irep] in Hit.
  - (* begin: the left-most entry *)
    rewrite Hit. change (G.begin =? G.end_) with false. change (G.begin =? G.begin) with true. cbv iota.
    unfold G.Left, G.left, G.Empty. rewrite Hsz. destruct opt as [pt|]; cbn [oerase option_map inext].
    + destruct Hroot as [Hr Hrep]. rewrite Hr. cbn [omaxheight owid opne] in *.
      rewrite (left_loop_addr tr h pt None fuel (Some (paddr pt)) Hrep) by (pose proof (height_le_maxheight (erase pt)); lia).
      cbn [is_nil]. destruct (pleft_spec pt (fuel_of (erase pt))) as [Hp Hleaf].
      { pose proof (height_le_maxheight (erase pt)). unfold fuel_of. lia. }
      rewrite psub_erase, Hp. cbn [option_map]. rewrite first_key_erase.
      pose proof (pne_entries _ (pne_psub _ _ _ Hne Hp)) as Hes.
      destruct (rep_psub h _ pt None _ Hrep Hp) as (ppl & Hrl). destruct (pleft pt) as [al el cl] eqn:El.
      cbn [paddr]. rewrite (rep_deref _ _ _ _ _ Hrl). cbn [node_of G.Node_Entries pentries] in *. rewrite sl_get_0.
      destruct el as [|[k v] el']; [congruence|]. cbn [eptrs map hd_error option_map fst is_between].
      eexists. eexists. split; [reflexivity|]. split; [|lia]. cbn [irep G.Iterator_set_position G.Iterator_set_entry G.Iterator_set_node G.Iterator_position G.Iterator_node G.Iterator_entry].
      split; [reflexivity|]. exists pt, (PN al ((k, v) :: el') cl), 0%nat, v. repeat split; try reflexivity. exact Hp.
    + cbn [is_nil is_between]. unfold G.End. eexists. eexists. split; [reflexivity|]. split; [reflexivity|lia].
  - (* end *)
    rewrite Hit. change (G.end_ =? G.end_) with true. cbv iota. cbn [inext is_between]. unfold G.End.
    eexists. eexists. split; [reflexivity|]. split; [reflexivity|lia].
  - (* between *)
    destruct Hit as (Hpos & pt & pn & e0 & v & -> & Hs & Hnode & He0 & Hent).
    rewrite Hpos. change (G.between =? G.end_) with false. change (G.between =? G.begin) with false. cbv iota.
    destruct Hroot as [Hr Hrep]. cbn [omaxheight owid opne oerase option_map inext] in *.
    rewrite psub_erase, Hs. cbn [option_map]. rewrite erase_entries, erase_children.
    rewrite Hent, Hnode. cbn [Entry_Key fst].
    destruct (rep_psub h path pt None pn Hrep Hs) as (ppn & Hrn).
    pose proof (psub_wid _ _ _ Hs) as Hwn. pose proof (psub_height _ _ _ Hs) as Hhn.
    rewrite (search_at mag tr h pn ppn key fuel n Hrn ltac:(lia)).
    set (e := fst (BT.search (G.Tree_Comparator tr) key (pentries pn))).
    set (n1 := (n + search_c (G.Tree_Comparator tr) key (pentries pn))%nat).
    destruct it as [itn ite itp]. cbn [G.Iterator_node G.Iterator_entry G.Iterator_position] in *. subst itn ite itp.
    destruct pn as [an en cn] eqn:Epn. pose proof (rep_deref _ _ _ _ _ Hrn) as Hdn. cbn [paddr pentries pchildren] in *.
    rewrite Hdn. cbn [node_of G.Node_Children G.Node_Entries]. rewrite sl_len_cptrs, sl_len_eptrs, nth_erase.
    destruct (nth_error cn (e + 1)) as [pc|] eqn:Ec; cbn [option_map].
    + (* down into Children[e+1], then to its left-most leaf *)
      assert (Hlt : (Z.of_nat e + 1 <? Z.of_nat (length cn)) = true) by (assert (e + 1 < length cn)%nat by (apply nth_error_Some; congruence); lia).
      rewrite Hlt. replace (Z.of_nat e + 1) with (Z.of_nat (e + 1)) by lia. rewrite sl_get_nat, nth_cptrs, Ec.
      cbn [option_map]. rewrite set_node_mk.
      pose proof (rep_child _ _ _ _ _ _ _ Hrn Ec) as Hrc.
      pose proof (BTreeMap.maxheight_child en (map erase cn) (erase pc) (in_map erase cn pc (nth_error_In _ _ Ec))) as Hmc.
      cbn [erase] in Hhn.
      rewrite (Next_loop1_spec tr h pc (Some an) fuel n1 (Z.of_nat e) (Some (key, v)) G.between Hrc)
        by (pose proof (height_le_maxheight (erase pc)); lia).
      destruct (pleft_spec pc (fuel_of (erase pt))) as [Hp Hleaf].
      { pose proof (height_le_maxheight (erase pc)). unfold fuel_of. lia. }
      assert (Hsp : psub pt (path ++ (e + 1)%nat :: leftmost (fuel_of (erase pt)) (erase pc)) = Some (pleft pc)).
      { rewrite psub_app, Hs. cbn [psub pchildren]. rewrite Ec. exact Hp. }
      rewrite psub_erase, Hsp. cbn [option_map]. rewrite first_key_erase.
      pose proof (pne_entries _ (pne_psub _ _ _ Hne Hsp)) as Hes.
      destruct (rep_psub h _ pt None _ Hrep Hsp) as (ppl & Hrl). destruct (pleft pc) as [al el cl] eqn:El.
      cbn [G.Iterator_node paddr]. rewrite (rep_deref _ _ _ _ _ Hrl). cbn [node_of G.Node_Entries pentries] in *. rewrite sl_get_0.
      destruct el as [|[k v1] el']; [congruence|]. cbn [eptrs map hd_error option_map fst is_between].
      eexists. eexists. split; [reflexivity|]. split; [|lia]. cbn [irep G.Iterator_set_position G.Iterator_set_entry G.Iterator_set_node G.Iterator_position G.Iterator_node G.Iterator_entry].
      split; [reflexivity|]. exists pt, (PN al ((k, v1) :: el') cl), 0%nat, v1. repeat split; try reflexivity. exact Hsp.
    + assert (Hlt : (Z.of_nat e + 1 <? Z.of_nat (length cn)) = false) by (apply nth_error_None in Ec; lia).
      rewrite Hlt. rewrite <- Epn in Hs. change (key_at_idx (BT.N en (map erase cn)) (e + 1)) with (key_at_idx (erase (PN an en cn)) (e + 1)).
      rewrite key_at_idx_erase. cbn [pentries].
      destruct (nth_error en (e + 1)) as [[k v1]|] eqn:En; cbn [option_map fst].
      * (* the next entry of the same node *)
        assert (Hlt2 : (Z.of_nat e + 1 <? Z.of_nat (length en)) = true) by (assert (e + 1 < length en)%nat by (apply nth_error_Some; congruence); lia).
        rewrite Hlt2. replace (Z.of_nat e + 1) with (Z.of_nat (e + 1)) by lia. rewrite sl_get_nat, nth_eptrs, En. cbn [option_map is_between].
        eexists. eexists. split; [reflexivity|]. split; [|lia]. cbn [irep G.Iterator_set_position G.Iterator_set_entry G.Iterator_position G.Iterator_node G.Iterator_entry].
        split; [reflexivity|]. exists pt, pn, (e + 1)%nat, v1. subst pn. repeat split; try reflexivity; assumption.
      * (* up along the Parent pointers *)
        assert (Hlt2 : (Z.of_nat e + 1 <? Z.of_nat (length en)) = false) by (apply nth_error_None in En; lia).
        rewrite Hlt2.
        destruct (Next_loop2_spec mag tr h pt key v Hrep (fuel_of (erase pt)) path pn fuel n1 G.between Hs) as (n' & it' & Hrun & Hres & Hle).
        { cbn [erase] in Hhn. pose proof (BTreeCostProofs.mh_pos (BT.N en (map erase cn))). unfold fuel_of. lia. }
        { cbn [erase] in Hhn. pose proof (BTreeCostProofs.mh_pos (BT.N en (map erase cn))). lia. }
        subst pn. cbn [paddr] in Hrun. rewrite Hrun.
        destruct (climb_next (G.Tree_Comparator tr) (erase pt) (fuel_of (erase pt)) path key) as [| |q k] eqn:Ecl; cbn [is_between] in *.
        -- exfalso. exact (climb_next_not_begin _ _ _ _ _ Ecl).
        -- unfold G.End. eexists. eexists. split; [reflexivity|]. split; [reflexivity|lia].
        -- eexists. eexists. split; [reflexivity|]. split; [exact (Hres eq_refl)|lia].
Qed.
Print Assumptions Next_correct.

Lemma last_eptrs : forall es, BT.last_opt (eptrs es) = option_map (@Some (Z * Z)) (BT.last_opt es).
Proof. intros. unfold eptrs. apply last_opt_map. Qed.
Lemma last_opt_nth : forall (A : Type) (l : list A) x, BT.last_opt l = Some x -> nth_error l (length l - 1) = Some x.
Proof. intros A l x H. exact H. Qed.
Lemma last_opt_ne : forall (A : Type) (l : list A), l <> [] -> exists x, BT.last_opt l = Some x.
Proof.
  intros A l H. unfold BT.last_opt. destruct (nth_error l (length l - 1)) as [x|] eqn:E; [eauto|].
  apply nth_error_None in E. destruct l; [congruence|cbn [length] in E; lia].
Qed.

(* OBLIGATION *)
Theorem Prev_correct : forall mag h tr opt it ip fuel n,
  orep h tr opt -> osize_ok tr opt -> opne opt -> irep opt it ip ->
  (omaxheight opt + owid opt <= fuel)%nat ->
  exists n' it',
    G.Prev mag fuel n h tr it = Some (n', it', is_between (iprev (G.Tree_Comparator tr) (oerase opt) ip)) /\
    irep opt it' (iprev (G.Tree_Comparator tr) (oerase opt) ip) /\ (n <= n')%nat.
Proof.
  intros mag h tr opt it ip fuel n Hroot Hsz Hne Hit Hfuel. unfold G.Prev. destruct ip as [| |path key]; cbn [irep] in Hit.
  - (* begin *)
    rewrite Hit. change (G.begin =? G.begin) with true. cbv iota. cbn [iprev is_between]. unfold G.Begin.
    eexists. eexists. split; [reflexivity|]. split; [reflexivity|lia].
  - (* end: the right-most entry *)
    rewrite Hit. change (G.end_ =? G.begin) with false. change (G.end_ =? G.end_) with true. cbv iota.
    unfold G.Right, G.right, G.Empty. rewrite Hsz. destruct opt as [pt|]; cbn [oerase option_map iprev].
    + destruct Hroot as [Hr Hrep]. rewrite Hr. cbn [omaxheight owid opne] in *.
      rewrite (right_loop_addr tr h (fuel_of (erase pt)) pt None fuel (Some (paddr pt)) Hrep) by (unfold fuel_of; lia).
      cbn [is_nil]. destruct (pright_spec (fuel_of (erase pt)) pt) as [Hp Hleaf]; [unfold fuel_of; lia|].
      rewrite psub_erase, Hp. cbn [option_map]. rewrite last_key_erase.
      pose proof (pne_entries _ (pne_psub _ _ _ Hne Hp)) as Hes.
      destruct (rep_psub h _ pt None _ Hrep Hp) as (ppl & Hrl). destruct (pright (fuel_of (erase pt)) pt) as [al el cl] eqn:El.
      cbn [paddr]. rewrite (rep_deref _ _ _ _ _ Hrl). cbn [node_of G.Node_Entries pentries] in *. rewrite sl_get_last, last_eptrs.
      destruct (last_opt_ne _ el Hes) as ([k v] & Hl). rewrite Hl. cbn [option_map fst is_between].
      eexists. eexists. split; [reflexivity|]. split; [|lia]. cbn [irep G.Iterator_set_position G.Iterator_set_entry G.Iterator_set_node G.Iterator_position G.Iterator_node G.Iterator_entry].
      split; [reflexivity|]. exists pt, (PN al el cl), (length el - 1)%nat, v. repeat split; try reflexivity; [exact Hp|exact Hl].
    + cbn [is_nil is_between]. unfold G.Begin. eexists. eexists. split; [reflexivity|]. split; [reflexivity|lia].
  - (* between *)
    destruct Hit as (Hpos & pt & pn & e0 & v & -> & Hs & Hnode & He0 & Hent).
    rewrite Hpos. change (G.between =? G.end_) with false. change (G.between =? G.begin) with false. cbv iota.
    destruct Hroot as [Hr Hrep]. cbn [omaxheight owid opne oerase option_map iprev] in *.
    rewrite psub_erase, Hs. cbn [option_map]. cbv zeta. rewrite erase_entries, erase_children.
    rewrite Hent, Hnode. cbn [Entry_Key fst].
    destruct (rep_psub h path pt None pn Hrep Hs) as (ppn & Hrn).
    pose proof (psub_wid _ _ _ Hs) as Hwn. pose proof (psub_height _ _ _ Hs) as Hhn.
    rewrite (search_at mag tr h pn ppn key fuel n Hrn ltac:(lia)).
    pose proof (BTreeInd.search_bound (G.Tree_Comparator tr) key (pentries pn) _ _ (surjective_pairing _)) as [Hb _].
    set (e := fst (BT.search (G.Tree_Comparator tr) key (pentries pn))) in *.
    set (n1 := (n + search_c (G.Tree_Comparator tr) key (pentries pn))%nat).
    destruct it as [itn ite itp]. cbn [G.Iterator_node G.Iterator_entry G.Iterator_position] in *. subst itn ite itp.
    destruct pn as [an en cn] eqn:Epn. pose proof (rep_deref _ _ _ _ _ Hrn) as Hdn. cbn [paddr pentries pchildren] in *.
    rewrite Hdn. cbn [node_of G.Node_Children G.Node_Entries]. rewrite sl_len_cptrs, nth_erase.
    destruct (nth_error cn e) as [pc|] eqn:Ec; cbn [option_map].
    + (* down into Children[e], then to its right-most leaf *)
      assert (Hlt : (Z.of_nat e <? Z.of_nat (length cn)) = true) by (assert (e < length cn)%nat by (apply nth_error_Some; congruence); lia).
      rewrite Hlt. rewrite sl_get_nat, nth_cptrs, Ec. cbn [option_map]. rewrite set_node_mk.
      pose proof (rep_child _ _ _ _ _ _ _ Hrn Ec) as Hrc.
      pose proof (BTreeMap.maxheight_child en (map erase cn) (erase pc) (in_map erase cn pc (nth_error_In _ _ Ec))) as Hmc.
      cbn [erase] in Hhn.
      rewrite (Prev_loop1_spec tr h (fuel_of (erase pt)) pc (Some an) fuel n1 (Z.of_nat e) (Some (key, v)) G.between Hrc)
        by (unfold fuel_of; lia).
      destruct (pright_spec (fuel_of (erase pt)) pc) as [Hp Hleaf]; [unfold fuel_of; lia|].
      assert (Hsp : psub pt (path ++ e :: rightmost (fuel_of (erase pt)) (erase pc)) = Some (pright (fuel_of (erase pt)) pc)).
      { rewrite psub_app, Hs. cbn [psub pchildren]. rewrite Ec. exact Hp. }
      rewrite psub_erase, Hsp. cbn [option_map]. rewrite last_key_erase.
      pose proof (pne_entries _ (pne_psub _ _ _ Hne Hsp)) as Hes.
      destruct (rep_psub h _ pt None _ Hrep Hsp) as (ppl & Hrl). destruct (pright (fuel_of (erase pt)) pc) as [al el cl] eqn:El.
      cbn [G.Iterator_node paddr]. rewrite (rep_deref _ _ _ _ _ Hrl). cbn [node_of G.Node_Entries pentries] in *. rewrite sl_get_last, last_eptrs.
      destruct (last_opt_ne _ el Hes) as ([k v1] & Hl). rewrite Hl. cbn [option_map fst is_between].
      eexists. eexists. split; [reflexivity|]. split; [|lia]. cbn [irep G.Iterator_set_position G.Iterator_set_entry G.Iterator_set_node G.Iterator_position G.Iterator_node G.Iterator_entry].
      split; [reflexivity|]. exists pt, (PN al el cl), (length el - 1)%nat, v1. repeat split; try reflexivity; [exact Hsp|exact Hl].
    + assert (Hlt : (Z.of_nat e <? Z.of_nat (length cn)) = false) by (apply nth_error_None in Ec; lia).
      rewrite Hlt. rewrite <- Epn in Hs. change (key_at_idx (BT.N en (map erase cn)) (e - 1)) with (key_at_idx (erase (PN an en cn)) (e - 1)).
      rewrite key_at_idx_erase. cbn [pentries].
      destruct (Nat.leb_spec 1 e) as [H1|H1].
      * (* the previous entry of the same node *)
        assert (Hge : (0 <=? Z.of_nat e - 1) = true) by lia. rewrite Hge. cbn [node_of G.Node_Entries].
        replace (Z.of_nat e - 1) with (Z.of_nat (e - 1)) by lia. rewrite sl_get_nat, nth_eptrs.
        destruct (nth_error en (e - 1)) as [[k v1]|] eqn:En; [|apply nth_error_None in En; lia].
        cbn [option_map fst is_between].
        eexists. eexists. split; [reflexivity|]. split; [|lia]. cbn [irep G.Iterator_set_position G.Iterator_set_entry G.Iterator_position G.Iterator_node G.Iterator_entry].
        split; [reflexivity|]. exists pt, pn, (e - 1)%nat, v1. subst pn. repeat split; try reflexivity; assumption.
      * (* up along the Parent pointers *)
        assert (Hge : (0 <=? Z.of_nat e - 1) = false) by lia. rewrite Hge.
        destruct (Prev_loop2_spec mag tr h pt key v Hrep (fuel_of (erase pt)) path pn fuel n1 G.between Hs) as (n' & it' & Hrun & Hres & Hle).
        { cbn [erase] in Hhn. pose proof (BTreeCostProofs.mh_pos (BT.N en (map erase cn))). unfold fuel_of. lia. }
        { cbn [erase] in Hhn. pose proof (BTreeCostProofs.mh_pos (BT.N en (map erase cn))). lia. }
        subst pn. cbn [paddr] in Hrun. rewrite Hrun.
        destruct (climb_prev (G.Tree_Comparator tr) (erase pt) (fuel_of (erase pt)) path key) as [| |q k] eqn:Ecl; cbn [is_between] in *.
        -- unfold G.Begin. eexists. eexists. split; [reflexivity|]. split; [reflexivity|lia].
        -- exfalso. exact (climb_prev_not_end _ _ _ _ _ Ecl).
        -- eexists. eexists. split; [reflexivity|]. split; [exact (Hres eq_refl)|lia].
Qed.
Print Assumptions Prev_correct.

(* OBLIGATION *)
Theorem First_Last_correct : forall mag h tr opt it fuel n,
  orep h tr opt -> osize_ok tr opt -> opne opt -> (omaxheight opt + owid opt <= fuel)%nat ->
  (exists n' it', G.First mag fuel n h tr it = Some (n', it', is_between (inext (G.Tree_Comparator tr) (oerase opt) IBegin)) /\
                  irep opt it' (inext (G.Tree_Comparator tr) (oerase opt) IBegin)) /\
  (exists n' it', G.Last mag fuel n h tr it = Some (n', it', is_between (iprev (G.Tree_Comparator tr) (oerase opt) IEnd)) /\
                  irep opt it' (iprev (G.Tree_Comparator tr) (oerase opt) IEnd)).
Proof.
  intros mag h tr opt it fuel n Hroot Hsz Hne Hfuel. unfold G.First, G.Last, G.Begin, G.End. split.
  - destruct (Next_correct mag h tr opt (G.Iterator_set_entry (G.Iterator_set_position (G.Iterator_set_node it None) G.begin) None)
                IBegin fuel n Hroot Hsz Hne eq_refl Hfuel) as (n' & it' & -> & Hi & _). eauto.
  - destruct (Prev_correct mag h tr opt (G.Iterator_set_entry (G.Iterator_set_position (G.Iterator_set_node it None) G.end_) None)
                IEnd fuel n Hroot Hsz Hne eq_refl Hfuel) as (n' & it' & -> & Hi & _). eauto.
Qed.
Print Assumptions First_Last_correct.

(* ---------- with Proofs/IterTreeBT.v: the generated iterator is the cursor over the in-order sequence ---------- *)
Lemma irep_valid : forall opt it ip, irep opt it ip -> IterTreeBT.bt_valid (oerase opt) ip.
Proof.
  intros opt it [| |path key] H; cbn [IterTreeBT.bt_valid]; try exact I.
  destruct H as (_ & pt & pn & e & v & -> & Hs & _ & He & _). cbn [oerase option_map].
  exists (erase pn), e. split; [rewrite psub_erase, Hs; reflexivity|]. exists v. now rewrite erase_entries.
Qed.

Lemma is_between_eq : forall ip, is_between ip = IterTreeBT.bt_between ip.
Proof. destruct ip; reflexivity. Qed.

Lemma irep_entry : forall cmp, SWO cmp -> forall h opt it ip,
  IterTreeBT.bt_good cmp (oerase opt) -> irep opt it ip -> is_between ip = true ->
  exists kv, nth_error (Machine.bt_inorder (oerase opt)) (Z.to_nat (IterTreeBT.bt_pos cmp (oerase opt) ip)) = Some kv /\
             G.Key h it = Some (fst kv) /\ G.Value h it = Some (snd kv).
Proof.
  intros cmp Hswo h opt it [| |path key] Hg Hi Hb; try discriminate.
  destruct Hi as (_ & pt & pn & e & v & -> & Hs & _ & He & Hent). cbn [oerase option_map IterTreeBT.bt_good Machine.bt_inorder] in *.
  assert (Ha : IterTreeBT.at_entry (erase pt) path key (erase pn) e).
  { split; [rewrite psub_erase, Hs; reflexivity|]. exists v. now rewrite erase_entries. }
  destruct (IterTreeBT.at_entry_facts cmp Hswo (erase pt) path key (erase pn) e Hg Ha) as (Hp & _ & _).
  rewrite Hp, Nat2Z.id. exists (key, v). split.
  - destruct Hg as (Hwf & _ & _). apply (IterTreeBT.nth_brank path (erase pt) (erase pn) e (key, v) Hwf); [rewrite psub_erase, Hs; reflexivity|now rewrite erase_entries].
  - unfold G.Key, G.Value. rewrite Hent. split; reflexivity.
Qed.

(* OBLIGATION *)
Theorem Next_Prev_inorder : forall mag h tr opt it ip fuel n,
  SWO (G.Tree_Comparator tr) -> IterTreeBT.bt_good (G.Tree_Comparator tr) (oerase opt) ->
  orep h tr opt -> osize_ok tr opt -> irep opt it ip -> (omaxheight opt + owid opt <= fuel)%nat ->
  let xs := Machine.bt_inorder (oerase opt) in
  let pos := IterTreeBT.bt_pos (G.Tree_Comparator tr) (oerase opt) in
  (exists n' it' ip', G.Next mag fuel n h tr it = Some (n', it', IterTreeRB.c_in xs (IterTreeRB.c_next xs (pos ip))) /\
     irep opt it' ip' /\ pos ip' = IterTreeRB.c_next xs (pos ip) /\
     (IterTreeRB.c_in xs (pos ip') = true ->
      exists kv, nth_error xs (Z.to_nat (pos ip')) = Some kv /\ G.Key h it' = Some (fst kv) /\ G.Value h it' = Some (snd kv))) /\
  (exists n' it' ip', G.Prev mag fuel n h tr it = Some (n', it', IterTreeRB.c_in xs (IterTreeRB.c_prev (pos ip))) /\
     irep opt it' ip' /\ pos ip' = IterTreeRB.c_prev (pos ip) /\
     (IterTreeRB.c_in xs (pos ip') = true ->
      exists kv, nth_error xs (Z.to_nat (pos ip')) = Some kv /\ G.Key h it' = Some (fst kv) /\ G.Value h it' = Some (snd kv))).
Proof.
  intros mag h tr opt it ip fuel n Hswo Hg Hroot Hsz Hit Hfuel xs pos.
  assert (Hne : opne opt).
  { destruct opt as [pt|]; [|exact I]. cbn [oerase option_map IterTreeBT.bt_good] in Hg. destruct Hg as (_ & Hn & _). now apply pne_erase. }
  pose proof (irep_valid _ _ _ Hit) as Hv. split.
  - destruct (Next_correct mag h tr opt it ip fuel n Hroot Hsz Hne Hit Hfuel) as (n' & it' & Hrun & Hi' & _).
    destruct (IterTreeBT.bt_inext_pos _ Hswo _ Hg ip Hv) as [Hv' Hp'].
    exists n', it', (inext (G.Tree_Comparator tr) (oerase opt) ip). rewrite Hrun.
    rewrite is_between_eq, (IterTreeBT.bt_between_in _ Hswo _ Hg _ Hv'). unfold pos, xs. rewrite Hp'.
    split; [reflexivity|]. split; [exact Hi'|]. split; [reflexivity|]. intros Hin. rewrite <- Hp' in *.
    apply (irep_entry _ Hswo h opt it' _ Hg Hi'). now rewrite is_between_eq, (IterTreeBT.bt_between_in _ Hswo _ Hg _ Hv').
  - destruct (Prev_correct mag h tr opt it ip fuel n Hroot Hsz Hne Hit Hfuel) as (n' & it' & Hrun & Hi' & _).
    destruct (IterTreeBT.bt_iprev_pos _ Hswo _ Hg ip Hv) as [Hv' Hp'].
    exists n', it', (iprev (G.Tree_Comparator tr) (oerase opt) ip). rewrite Hrun.
    rewrite is_between_eq, (IterTreeBT.bt_between_in _ Hswo _ Hg _ Hv'). unfold pos, xs. rewrite Hp'.
    split; [reflexivity|]. split; [exact Hi'|]. split; [reflexivity|]. intros Hin. rewrite <- Hp' in *.
    apply (irep_entry _ Hswo h opt it' _ Hg Hi'). now rewrite is_between_eq, (IterTreeBT.bt_between_in _ Hswo _ Hg _ Hv').
Qed.
Print Assumptions Next_Prev_inorder.
