(* lists/{singlylinkedlist,doublylinkedlist}/serialization.go (in GodsGen.{Singly,Doubly}LinkedListEnumGen; the list is an
   opaque receiver instantiated with Model/Lists.v), encoding/json abstract: FromJSON is atomic on a decode error and
   otherwise Machine.load_array (Clear, then ONE Add(elements...) of the freshly decoded slice); ToJSON marshals
   Values(); MarshalJSON / UnmarshalJSON delegate. *)
From Coq Require Import ZArith List Lia Bool Arith.
From Gods Require Import Common.Cmp Common.ListAux Spec.SeqSpec Model.Ops Model.Lists Model.Machine.
From GodsGen Require SinglyLinkedListEnumGen DoublyLinkedListEnumGen.
From GodsGenProofs Require Import GenIterRun WrapCommon GoJson ListEnumProofs.
Import ListNotations.
Local Open Scope Z_scope.

Section Json.
Variable um : bytes -> list Z -> list Z * bool.
Variable ms : list Z -> bytes * bool.
Variable c : config.

(* OBLIGATION *)
Theorem SLL_FromJSON_equiv : ckind c = SinglyLinkedList -> forall (l : list Z) data,
  if snd (um data []) then SE.FromJSON um IS l data = (l, true)
  else StSeq (fst (SE.FromJSON um IS l data)) = load_array c (fst (um data [])) /\ snd (SE.FromJSON um IS l data) = false.
Proof.
  intros Hk l data. unfold SE.FromJSON. destruct (um data []) as [vs e]. destruct e; cbn; [reflexivity|].
  unfold load_array, add_values, init. rewrite Hk. split; reflexivity.
Qed.

(* OBLIGATION *)
Theorem SLL_ToJSON_equiv : forall (l : list Z),
  SE.ToJSON ms IS l = ms l /\ SE.MarshalJSON ms IS l = SE.ToJSON ms IS l /\
  (forall data, SE.UnmarshalJSON um IS l data = SE.FromJSON um IS l data).
Proof.
  intros l. unfold SE.ToJSON, SE.MarshalJSON, SE.UnmarshalJSON. cbn [SE.List_Values IS]. repeat split.
  - now destruct (ms l).
  - unfold SE.ToJSON. cbn [SE.List_Values IS]. now destruct (ms l).
  - intros data. now destruct (SE.FromJSON um IS l data).
Qed.

(* OBLIGATION *)
Theorem DLL_FromJSON_equiv : ckind c = DoublyLinkedList -> forall (l : list Z) data,
  if snd (um data []) then DE.FromJSON um ID l data = (l, true)
  else StSeq (fst (DE.FromJSON um ID l data)) = load_array c (fst (um data [])) /\ snd (DE.FromJSON um ID l data) = false.
Proof.
  intros Hk l data. unfold DE.FromJSON. destruct (um data []) as [vs e]. destruct e; cbn; [reflexivity|].
  unfold load_array, add_values, init. rewrite Hk. split; reflexivity.
Qed.

(* OBLIGATION *)
Theorem DLL_ToJSON_equiv : forall (l : list Z),
  DE.ToJSON ms ID l = ms l /\ DE.MarshalJSON ms ID l = DE.ToJSON ms ID l /\
  (forall data, DE.UnmarshalJSON um ID l data = DE.FromJSON um ID l data).
Proof.
  intros l. unfold DE.ToJSON, DE.MarshalJSON, DE.UnmarshalJSON. cbn [DE.List_Values ID]. repeat split.
  - now destruct (ms l).
  - unfold DE.ToJSON. cbn [DE.List_Values ID]. now destruct (ms l).
  - intros data. now destruct (DE.FromJSON um ID l data).
Qed.
End Json.

Print Assumptions SLL_FromJSON_equiv.
Print Assumptions SLL_ToJSON_equiv.
Print Assumptions DLL_FromJSON_equiv.
Print Assumptions DLL_ToJSON_equiv.
