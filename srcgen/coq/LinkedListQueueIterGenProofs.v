(* queues/linkedlistqueue/iterator.go and the two methods of linkedlistqueue.go it calls (Size, withinRange), regenerated
   in one module over an ABSTRACT singly linked list (GodsGen.LinkedListQueueIterGen), with the list instantiated by the
   sequence model (sll_get, zlen), against the forward-only index iterator of Model/Iter.v that Machine.run_iter runs
   for kind LinkedListQueue: Next / Begin / First / Index / Value / NextTo; corollary: every script (Prev, End, Last,
   PrevTo are not offered: has_prev = false) run by the generated functions = run_iter = the C08 cursor. *)
From Coq Require Import ZArith List Lia Bool Arith.
From Gods Require Import Common.Cmp Common.ListAux Spec.SeqSpec Model.Ops Model.Lists Model.Iter Model.Machine.
From Gods Require Import Proofs.IterLinear.
From GodsGen Require LinkedListQueueIterGen.
From GodsGenProofs Require Import GenIterRun GenIterRunRel.
Import ListNotations.
Local Open Scope Z_scope.

Module I := LinkedListQueueIterGen.

(* the wrapped singlylinkedlist.List as the sequence model has it *)
Definition LI : I.list_iface := I.mk_list_iface (list Z) (fun l i => opt_pair (sll_get i l)) (fun l => zlen l).

Module Names.
Import Coq.Strings.String.
(* OBLIGATION *)
Theorem translated_functions :
  I.translated = ["Begin"; "First"; "Index"; "Next"; "NextTo"; "Queue_Iterator"; "Size"; "Value"; "withinRange"]%string
  /\ I.skipped = [] /\ I.not_selected = ["New"; "Enqueue"; "Dequeue"; "Peek"; "Empty"; "Clear"; "Values"; "String"]%string.
Proof. repeat split. Qed.
Print Assumptions translated_functions.
End Names.

(* OBLIGATION *)
Theorem Container_equiv : forall g i, I.Size LI g = zlen (I.list_ LI g) /\ I.withinRange LI g i = within i (I.list_ LI g).
Proof. intros g i. split; reflexivity. Qed.
Print Assumptions Container_equiv.

Section WithContainer.
Variable g : I.Queue LI.
Let l : list Z := I.list_ LI g.
Let n := zlen l.
Notation It := (I.Iterator).

(* OBLIGATION *)
Theorem Iterator_equiv : I.index (I.Queue_Iterator LI g) = -1.
Proof. reflexivity. Qed.

(* OBLIGATION *)
Theorem Next_equiv : step_equiv It I.index (fun it => I.Next LI it g) (ix_next n).
Proof.
  intros [i]. unfold I.Next, ix_next. rewrite (proj1 (Container_equiv g 0)). fold l n. unfold I.set_index. cbn [I.index].
  destruct (Z.ltb_spec i n); cbn [I.index fst snd]; now rewrite (proj2 (Container_equiv g _)).
Qed.

(* OBLIGATION *)
Theorem Begin_equiv : jump_equiv It I.index I.Begin ix_begin.
Proof. intros [i]. reflexivity. Qed.

(* OBLIGATION *)
Theorem First_equiv : forall it,
  ix_next n (ix_begin (I.index it)) = Some (I.index (fst (I.First LI it g)), snd (I.First LI it g)).
Proof.
  intros it. unfold I.First.
  pose proof (Begin_equiv it) as HB. destruct (I.Begin it) as [it1 u]. cbn [fst] in HB. rewrite <- HB.
  pose proof (Next_equiv it1) as HN. cbn beta in HN. destruct (I.Next LI it1 g) as [it2 b]. exact HN.
Qed.

(* OBLIGATION *)
Theorem Value_equiv : cur_equiv It I.index I.Index (fun it => I.Value LI it g) n (fun i => sll_get i l).
Proof.
  intros [i] Hin. unfold ix_cur. cbn [I.index] in *. unfold I.Value, I.Index. cbn [I.index I.list_Get LI]. fold l.
  unfold sll_get. change (inrange n i) with (within i l) in Hin. rewrite Hin. cbn [negb].
  destruct (nth_error l (Z.to_nat i)) as [v|] eqn:E; [reflexivity|].
  apply nth_error_None in E. unfold within, zlen in Hin. lia.
Qed.

Lemma NextTo_unfolds : loop_unfolds It I.Index (fun it => I.Value LI it g)
  (fun fuel it f => I.NextTo LI fuel it g f) (fun it => I.Next LI it g).
Proof.
  split; [reflexivity|]. intros fuel it f. unfold I.NextTo. cbn [I.NextTo_loop1].
  destruct (I.Next LI it g) as [it' [|]]; reflexivity.
Qed.

(* OBLIGATION *)
Theorem NextTo_equiv :
  loop_equiv It I.index (fun i => sll_get i l) (fun fuel it f => I.NextTo LI fuel it g f) (ix_next n).
Proof.
  eapply loop_equiv_of_unfolds;
    [apply ix_next_inrange | exact Next_equiv | exact Value_equiv | exact NextTo_unfolds].
Qed.

Definition gen_iter_script (fuel : nat) (it : It) (cs : list icall) : list obs :=
  GenIterRunRel.gen_script It (fun it => Some (I.Next LI it g)) (fun _ => None) (fun it => Some (I.First LI it g)) (fun _ => None)
    (fun it => Some (I.Begin it)) (fun _ => None) (fun it => Some (I.Index it)) (fun it => Some (I.Value LI it g))
    (fun it f => I.NextTo LI fuel it g f) (fun _ _ => None) false it cs.

(* OBLIGATION: every script, run by the generated functions on a fresh iterator = the machine's run_iter = the
   forward-only C08 cursor over the elements *)
Theorem gen_iter_is_cursor : forall c cs, ckind c = LinkedListQueue ->
  gen_iter_script (S (S (Z.to_nat (I.Size LI g)))) (I.Queue_Iterator LI g) cs = run_iter c (StSeq l) cs /\
  gen_iter_script (S (S (Z.to_nat (I.Size LI g)))) (I.Queue_Iterator LI g) cs = cursor_script (indexed l) false cs.
Proof.
  intros c cs Hk.
  assert (E : gen_iter_script (S (S (Z.to_nat (I.Size LI g)))) (I.Queue_Iterator LI g) cs = run_iter c (StSeq l) cs).
  { unfold run_iter, script_fuel. cbn [size_of]. rewrite Hk. unfold gen_iter_script.
    apply (GenIterRunRel.gen_script_is_run_script It Z (fun it s => I.index it = s) (fun s => inrange n s = true)).
    - intros it s <-. cbn [sim_res]. pose proof (Next_equiv it) as H. cbn beta in H. fold n. rewrite H.
      destruct (I.Next LI it g) as [it' b]. split; reflexivity.
    - intros s s' H. symmetry. exact (ix_next_inrange n _ _ _ H).
    - discriminate.
    - intros it s <-. exists (fst (I.Begin it)). split; [destruct (I.Begin it) as [it' []]; reflexivity|]. apply Begin_equiv.
    - intros it s <-. cbn [sim_res]. pose proof (First_equiv it) as H. fold n. rewrite H.
      destruct (I.First LI it g) as [it' b]. split; reflexivity.
    - intros it s <- Hin. fold n. rewrite (Value_equiv it Hin). split; reflexivity.
    - intros p it s <-. pose proof (NextTo_equiv (S (S (Z.to_nat (I.Size LI g)))) it p) as H. cbn beta in H. fold n.
      rewrite (proj1 (Container_equiv g 0)). fold l n.
      rewrite (proj1 (Container_equiv g 0)) in H. fold l n in H. unfold sim_res.
      destruct (I.NextTo LI _ it g _) as [[it' b]|]; destruct (move_to _ _ _ _ _ _) as [[i' b']|]; exact H.
    - discriminate.
    - discriminate.
    - discriminate.
    - discriminate.
    - reflexivity. }
  split; [exact E|]. rewrite E, (iter_LinkedListStack c l cs (or_intror Hk)). unfold values_of. now rewrite Hk.
Qed.
End WithContainer.

Print Assumptions Iterator_equiv.
Print Assumptions Next_equiv.
Print Assumptions Begin_equiv.
Print Assumptions First_equiv.
Print Assumptions Value_equiv.
Print Assumptions NextTo_equiv.
Print Assumptions gen_iter_is_cursor.
