(* Lemmas for the WRITE PATH of the AVL tree in tree pointer mode (no obligations): explicit heap updates ([hset]), frame and
   re-parenting lemmas for the representation predicate of AVLTreeHeapRep.v, a normaliser for the distinctness of
   addresses ([nd_facts]), and what a LINK (GoTreeLink.link: Go's **Node) points to ([link_ok]). *)
From Coq Require Import ZArith List Lia Bool Arith Setoid Morphisms.
From Gods Require Import Common.Cmp Model.AVLTree.
From GodsGenProofs Require Import GoCmp GoTreeHeap GoTreeLink AVLTreeHeapRep.
From GodsGen Require AVLTreeHeapGen.
Import ListNotations.
Local Open Scope Z_scope.

(* ---------- explicit heap updates ---------- *)
Definition hset (h : heap G.Node) (a : nat) (n : G.Node) : heap G.Node := mkheap ((a, n) :: hcells h) (hnext h).

Lemma hread_hset : forall h a n x, hread (hset h a n) x = if Nat.eqb x a then Some n else hread h x.
Proof. reflexivity. Qed.
Lemma store_hset : forall h a c f, hread h a = Some c -> store h (Some a) f = Some (hset h a (f c)).
Proof. intros h a c f H. unfold store. now rewrite H. Qed.
Lemma hnext_hset : forall h a n, hnext (hset h a n) = hnext h.
Proof. reflexivity. Qed.
Lemma heap_ok_hset : forall h a n, heap_ok h -> hread h a <> None -> heap_ok (hset h a n).
Proof.
  intros h a n Hok Ha x Hx. rewrite hnext_hset. rewrite hread_hset in Hx. destruct (Nat.eqb x a) eqn:E.
  - apply Nat.eqb_eq in E. subst. now apply Hok.
  - now apply Hok.
Qed.

(* ---------- distinct addresses ---------- *)
Definition disj (l1 l2 : list nat) : Prop := forall x, In x l1 -> In x l2 -> False.

Lemma NoDup_app_iff : forall l1 l2 : list nat, NoDup (l1 ++ l2) <-> NoDup l1 /\ NoDup l2 /\ disj l1 l2.
Proof.
  intros l1 l2. split.
  - intro H. split; [eapply NoDup_app_l; eauto|]. split; [eapply NoDup_app_r; eauto|]. intros x H1 H2. eapply NoDup_app_disj; eauto.
  - intros (H1 & H2 & H3). induction l1 as [|y l1 IH]; [exact H2|]. inversion H1; subst. cbn [app]. constructor.
    + intro Hy. apply in_app_or in Hy. destruct Hy as [Hy|Hy]; [contradiction|]. apply (H3 y); [now left|exact Hy].
    + apply IH; [assumption|]. intros x Hx1 Hx2. apply (H3 x); [now right|exact Hx2].
Qed.
Lemma NoDup_cons_iff' : forall (a : nat) l, NoDup (a :: l) <-> ~ In a l /\ NoDup l.
Proof. intros. apply NoDup_cons_iff. Qed.
Lemma NoDup_nil_iff : NoDup (@nil nat) <-> True.
Proof. split; [auto|constructor]. Qed.
Lemma notin_app_iff : forall (a : nat) l1 l2, ~ In a (l1 ++ l2) <-> ~ In a l1 /\ ~ In a l2.
Proof. intros. rewrite in_app_iff. tauto. Qed.
Lemma notin_cons_iff : forall (a b : nat) l, ~ In a (b :: l) <-> b <> a /\ ~ In a l.
Proof. intros. cbn [In]. tauto. Qed.
Lemma notin_nil_iff : forall a : nat, ~ In a [] <-> True.
Proof. intros. cbn. tauto. Qed.
Lemma disj_cons_l : forall a l1 l2, disj (a :: l1) l2 <-> ~ In a l2 /\ disj l1 l2.
Proof.
  intros. unfold disj. split.
  - intro H. split; [intro Ha; apply (H a); [now left|exact Ha]|]. intros x H1 H2. apply (H x); [now right|exact H2].
  - intros (H1 & H2) x [->|Hx] Hx2; [contradiction|eauto].
Qed.
Lemma disj_cons_r : forall a l1 l2, disj l1 (a :: l2) <-> ~ In a l1 /\ disj l1 l2.
Proof.
  intros. unfold disj. split.
  - intro H. split; [intro Ha; apply (H a); [exact Ha|now left]|]. intros x H1 H2. apply (H x); [exact H1|now right].
  - intros (H1 & H2) x Hx [->|Hx2]; [contradiction|eauto].
Qed.
Lemma disj_app_l : forall l1 l1' l2, disj (l1 ++ l1') l2 <-> disj l1 l2 /\ disj l1' l2.
Proof.
  intros. unfold disj. split.
  - intro H. split; intros x H1 H2; apply (H x); auto; apply in_or_app; auto.
  - intros (H1 & H2) x Hx Hx2. apply in_app_or in Hx. destruct Hx; eauto.
Qed.
Lemma disj_app_r : forall l1 l2 l2', disj l1 (l2 ++ l2') <-> disj l1 l2 /\ disj l1 l2'.
Proof.
  intros. unfold disj. split.
  - intro H. split; intros x H1 H2; apply (H x); auto; apply in_or_app; auto.
  - intros (H1 & H2) x Hx Hx2. apply in_app_or in Hx2. destruct Hx2; eauto.
Qed.
Lemma disj_nil_l : forall l, disj [] l <-> True.
Proof. unfold disj. intros. cbn. tauto. Qed.
Lemma disj_nil_r : forall l, disj l [] <-> True.
Proof. unfold disj. intros. cbn. firstorder. Qed.
Lemma and_True_l : forall P : Prop, True /\ P <-> P.
Proof. tauto. Qed.
Lemma and_True_r : forall P : Prop, P /\ True <-> P.
Proof. tauto. Qed.

Lemma addrs_PT : forall a b l k v r, addrs (PT a b l k v r) = a :: addrs l ++ addrs r.
Proof. reflexivity. Qed.
Lemma addrs_PE : addrs PE = [].
Proof. reflexivity. Qed.

Global Hint Rewrite addrs_PT addrs_PE NoDup_app_iff NoDup_cons_iff' NoDup_nil_iff notin_app_iff notin_cons_iff notin_nil_iff
  disj_cons_l disj_cons_r disj_app_l disj_app_r disj_nil_l disj_nil_r and_True_l and_True_r : nd.

(* H : NoDup (addrs <explicit tree>)  ~~>  atomic facts  a <> b, ~ In a (addrs s), disj (addrs s1) (addrs s2), NoDup (addrs s) *)
Ltac nd_facts H := autorewrite with nd in H; try (decompose [and] H; clear H).

Ltac nd_auto := solve
  [ assumption
  | apply not_eq_sym; assumption
  | intro; subst; contradiction
  | match goal with
    | D : disj ?l1 ?l2, H1 : In ?x ?l1 |- ~ In ?x ?l2 => exact (D x H1)
    | D : disj ?l1 ?l2, H2 : In ?x ?l2 |- ~ In ?x ?l1 => exact (fun H1 => D x H1 H2)
    | D : disj ?l1 ?l2, H1 : In ?x ?l1, H2 : In ?x ?l2 |- _ => exfalso; exact (D x H1 H2)
    | D : disj ?l1 ?l2 |- disj ?l2 ?l1 => let x := fresh in let H1 := fresh in let H2 := fresh in intros x H1 H2; exact (D x H2 H1)
    end
  | intro; subst;
    match goal with
    | D : disj ?l1 ?l2, H1 : In ?x ?l1, H2 : In ?x ?l2 |- _ => exact (D x H1 H2)
    end ].

(* H : In x (addrs <explicit tree>): case analysis *)
Ltac in_cases H := repeat (cbn [addrs In] in H; rewrite ?in_app_iff in H); intuition (subst; try contradiction; try congruence).

Ltac eqb_simpl := repeat match goal with
  | |- context [Nat.eqb ?a ?a] => rewrite (Nat.eqb_refl a)
  | |- context [Nat.eqb ?a ?b] => rewrite (proj2 (Nat.eqb_neq a b)) by nd_auto
  end.

Ltac hstep := match goal with
  | |- context [deref ?h (Some ?a)] => change (deref h (Some a)) with (hread h a)
  | |- context [hread (hset ?h ?a ?n) ?x] => rewrite (hread_hset h a n x); eqb_simpl
  | |- context [store ?h (Some ?a) ?f] =>
      erewrite (store_hset h a _ f) by (repeat (rewrite hread_hset; eqb_simpl); first [eassumption | reflexivity])
  end.

Ltac gproj := cbn [G.Node_Key G.Node_Value G.Node_Parent G.Node_Children G.Node_b G.Node_with_Key G.Node_with_Value
                   G.Node_with_Parent G.Node_with_Children G.Node_with_b node_of fst snd is_nil negb root_ptr].

Ltac hsim := repeat first
  [ progress cbv beta iota
  | hstep
  | match goal with H : hread ?h ?a = Some _ |- context [hread ?h ?a] => rewrite H end
  | progress gproj ].

(* ---------- frame / re-parenting ---------- *)
Lemma rep_frame : forall h h' pt pp, (forall a, In a (addrs pt) -> hread h' a = hread h a) -> rep h pp pt -> rep h' pp pt.
Proof.
  induction pt as [|a c l IHl k v r IHr]; intros pp Hf H; [exact I|].
  simpl in H. destruct H as (Ha & Hl & Hr). simpl. repeat split.
  - rewrite Hf; [exact Ha|]. simpl. now left.
  - apply IHl; [|exact Hl]. intros x Hx. apply Hf. simpl. right. apply in_or_app. now left.
  - apply IHr; [|exact Hr]. intros x Hx. apply Hf. simpl. right. apply in_or_app. now right.
Qed.

Lemma rep_PT_intro : forall h pp a b l k v r,
  hread h a = Some (node_of pp b l k v r) -> rep h (Some a) l -> rep h (Some a) r -> rep h pp (PT a b l k v r).
Proof. intros. simpl. auto. Qed.
Lemma rep_PT_inv : forall h pp a b l k v r, rep h pp (PT a b l k v r) ->
  hread h a = Some (node_of pp b l k v r) /\ rep h (Some a) l /\ rep h (Some a) r.
Proof. intros. simpl in *. auto. Qed.

(* the root gets another Parent, nothing else in the subtree changes *)
Lemma rep_reparent : forall h h' pp pp' t, rep h pp t -> NoDup (addrs t) ->
  (forall y, root_ptr t = Some y -> hread h' y = option_map (G.Node_with_Parent pp') (hread h y)) ->
  (forall x, In x (addrs t) -> root_ptr t <> Some x -> hread h' x = hread h x) ->
  rep h' pp' t.
Proof.
  intros h h' pp pp' [|a b l k v r] Hrep Hnd Hy Hfr; [exact I|].
  simpl in Hrep. destruct Hrep as (Ha & Hl & Hr). nd_facts Hnd. cbn [rep]. split; [|split].
  - rewrite (Hy a eq_refl), Ha. reflexivity.
  - eapply rep_frame; [|exact Hl]. intros x Hx. apply Hfr; [cbn [addrs]; right; apply in_or_app; now left|].
    cbn [root_ptr]. intro E. injection E as ->. contradiction.
  - eapply rep_frame; [|exact Hr]. intros x Hx. apply Hfr; [cbn [addrs]; right; apply in_or_app; now right|].
    cbn [root_ptr]. intro E. injection E as ->. contradiction.
Qed.

Lemma rep_in_read : forall h t pp x, rep h pp t -> In x (addrs t) -> hread h x <> None.
Proof.
  induction t as [|a c l IHl k v r IHr]; intros pp x Hrep Hx; [contradiction|].
  simpl in Hrep. destruct Hrep as (Ha & Hl & Hr). cbn [addrs] in Hx. destruct Hx as [<-|Hx]; [congruence|].
  apply in_app_or in Hx. destruct Hx; eauto.
Qed.
Lemma rep_lt_next : forall h t pp x, heap_ok h -> rep h pp t -> In x (addrs t) -> (x < hnext h)%nat.
Proof. intros h t pp x Hok Hrep Hx. apply Hok. eapply rep_in_read; eauto. Qed.

Lemma in_addrs_root : forall t y, root_ptr t = Some y -> In y (addrs t).
Proof. destruct t; intros y H; [discriminate|]. injection H as <-. now left. Qed.

(* replacing a child subtree by one with the same root, represented in a heap that differs only inside the old child *)
Lemma rep_replace_L : forall h h' pp a b l l' k v r,
  rep h pp (PT a b l k v r) -> NoDup (addrs (PT a b l k v r)) ->
  root_ptr l' = root_ptr l -> rep h' (Some a) l' ->
  (forall z, ~ In z (addrs l) -> hread h' z = hread h z) ->
  rep h' pp (PT a b l' k v r).
Proof.
  intros h h' pp a b l l' k v r Hrep Hnd Hroot Hl' Hfr. simpl in Hrep. destruct Hrep as (Ha & Hl & Hr). nd_facts Hnd.
  cbn [rep]. split; [|split; [exact Hl'|]].
  - rewrite Hfr by assumption. unfold node_of. rewrite Hroot. exact Ha.
  - eapply rep_frame; [|exact Hr]. intros x Hx. apply Hfr. nd_auto.
Qed.
Lemma rep_replace_R : forall h h' pp a b l k v r r',
  rep h pp (PT a b l k v r) -> NoDup (addrs (PT a b l k v r)) ->
  root_ptr r' = root_ptr r -> rep h' (Some a) r' ->
  (forall z, ~ In z (addrs r) -> hread h' z = hread h z) ->
  rep h' pp (PT a b l k v r').
Proof.
  intros h h' pp a b l k v r r' Hrep Hnd Hroot Hr' Hfr. simpl in Hrep. destruct Hrep as (Ha & Hl & Hr). nd_facts Hnd.
  cbn [rep]. split; [|split; [|exact Hr']].
  - rewrite Hfr by assumption. unfold node_of. rewrite Hroot. exact Ha.
  - eapply rep_frame; [|exact Hl]. intros x Hx. apply Hfr. nd_auto.
Qed.

(* s.b = b' at the root of a represented subtree *)
Lemma store_b_root : forall h pp a b l k v r b',
  rep h pp (PT a b l k v r) -> NoDup (addrs (PT a b l k v r)) ->
  exists h', store h (Some a) (G.Node_with_b b') = Some h' /\ rep h' pp (PT a b' l k v r) /\ hnext h' = hnext h /\
    (forall z, z <> a -> hread h' z = hread h z).
Proof.
  intros h pp a b l k v r b' Hrep Hnd. simpl in Hrep. destruct Hrep as (Ha & Hl & Hr). nd_facts Hnd.
  exists (hset h a (node_of pp b' l k v r)). split; [rewrite (store_hset _ _ _ _ Ha); reflexivity|].
  split; [|split; [reflexivity|]].
  - cbn [rep]. split; [rewrite hread_hset, Nat.eqb_refl; reflexivity|]. split.
    + eapply rep_frame; [|exact Hl]. intros x Hx. rewrite hread_hset. eqb_simpl. reflexivity.
    + eapply rep_frame; [|exact Hr]. intros x Hx. rewrite hread_hset. eqb_simpl. reflexivity.
  - intros z Hz. rewrite hread_hset. eqb_simpl. reflexivity.
Qed.

(* ---------- links ---------- *)
Definition link_owner (qp : link) : option nat := match qp with LRoot => None | LChild a _ => Some a end.
Definition new_root (qp : link) (root p' : ptr) : ptr := match qp with LRoot => p' | LChild _ _ => root end.
Definition set_slot (nd : G.Node) (i : Z) (p : ptr) : G.Node :=
  G.Node_with_Children (match arr2_set (G.Node_Children nd) i p with Some ar => ar | None => G.Node_Children nd end) nd.

(* the link qp is the slot that holds p, the pointer to a subtree whose parent pointer is pp *)
Definition link_ok (h : heap G.Node) (root : ptr) (qp : link) (pp p : ptr) : Prop :=
  match qp with
  | LRoot => pp = None /\ root = p
  | LChild a i => pp = Some a /\ exists nd, hread h a = Some nd /\ arr2_get (G.Node_Children nd) i = Some p
  end.
(* the node that owns the slot is the old one with the slot set to p' *)
Definition owner_upd (h h' : heap G.Node) (qp : link) (p' : ptr) : Prop :=
  match qp with
  | LRoot => True
  | LChild a i => exists nd, hread h a = Some nd /\ hread h' a = Some (set_slot nd i p')
  end.

Lemma set_slot_same : forall nd i p, arr2_get (G.Node_Children nd) i = Some p -> set_slot nd i p = nd.
Proof.
  intros [k v pp [x y] b] i p. unfold set_slot, arr2_get, arr2_set. cbn [G.Node_Children fst snd G.Node_with_Children G.Node_Key G.Node_Value G.Node_Parent G.Node_b].
  destruct (i =? 0); [intro E; injection E as ->; reflexivity|]. destruct (i =? 1); [intro E; injection E as ->; reflexivity|discriminate].
Qed.
Lemma arr2_get_set_slot : forall nd i p p', arr2_get (G.Node_Children nd) i = Some p ->
  arr2_get (G.Node_Children (set_slot nd i p')) i = Some p'.
Proof.
  intros [k v pp [x y] b] i p p'. unfold set_slot, arr2_get, arr2_set. cbn [G.Node_Children fst snd G.Node_with_Children].
  destruct (i =? 0); [reflexivity|]. destruct (i =? 1); [reflexivity|discriminate].
Qed.

Lemma link_get_ok : forall h root qp pp p, link_ok h root qp pp p ->
  link_get G.Node_Children h root qp = Some p.
Proof.
  intros h root [|a i] pp p H; cbn [link_ok link_get] in *.
  - destruct H as (_ & ->). reflexivity.
  - destruct H as (_ & nd & Ha & Hg). rewrite Ha. exact Hg.
Qed.

Lemma link_set_ok : forall h root qp pp p p', link_ok h root qp pp p ->
  exists h', link_set G.Node_Children G.Node_with_Children h root qp p' = Some (h', new_root qp root p') /\
    hnext h' = hnext h /\ link_ok h' (new_root qp root p') qp pp p' /\ owner_upd h h' qp p' /\
    (forall z, link_owner qp <> Some z -> hread h' z = hread h z) /\
    (heap_ok h -> heap_ok h').
Proof.
  intros h root [|a i] pp p p' H; cbn [link_ok link_set new_root owner_upd link_owner] in *.
  - destruct H as (-> & ->). exists h. repeat split; auto.
  - destruct H as (-> & nd & Ha & Hg). rewrite Ha.
    assert (Hs : arr2_set (G.Node_Children nd) i p' = Some (G.Node_Children (set_slot nd i p'))).
    { unfold set_slot. destruct nd as [k v pp [x y] b]. unfold arr2_get in Hg. unfold arr2_set. cbn [G.Node_Children G.Node_with_Children fst snd] in *.
      destruct (i =? 0); [reflexivity|]. destruct (i =? 1); [reflexivity|discriminate]. }
    rewrite Hs. rewrite (store_hset _ _ _ _ Ha).
    assert (Hn : G.Node_with_Children (G.Node_Children (set_slot nd i p')) nd = set_slot nd i p').
    { unfold set_slot. destruct nd as [k v pp [x y] b]. reflexivity. }
    rewrite Hn. exists (hset h a (set_slot nd i p')). split; [reflexivity|]. split; [reflexivity|].
    split; [|split; [|split]].
    + split; [reflexivity|]. exists (set_slot nd i p'). split; [rewrite hread_hset, Nat.eqb_refl; reflexivity|].
      eapply arr2_get_set_slot; eauto.
    + exists nd. split; [reflexivity|]. rewrite hread_hset, Nat.eqb_refl. reflexivity.
    + intros z Hz. rewrite hread_hset. destruct (Nat.eqb z a) eqn:E; [|reflexivity]. apply Nat.eqb_eq in E. subst. congruence.
    + intro Hok. apply heap_ok_hset; [exact Hok|congruence].
Qed.

(* nothing happened to the slot *)
Lemma link_keep : forall h h' root qp pp p, link_ok h root qp pp p ->
  (forall a, link_owner qp = Some a -> hread h' a = hread h a) ->
  new_root qp root p = root /\ link_ok h' root qp pp p /\ owner_upd h h' qp p.
Proof.
  intros h h' root [|a i] pp p H Hfr; cbn [link_ok new_root owner_upd link_owner] in *.
  - destruct H as (-> & ->). auto.
  - destruct H as (-> & nd & Ha & Hg). split; [reflexivity|]. split.
    + split; [reflexivity|]. exists nd. rewrite (Hfr a eq_refl). auto.
    + exists nd. split; [exact Ha|]. rewrite (Hfr a eq_refl), Ha. now rewrite (set_slot_same _ _ _ Hg).
Qed.
Lemma link_ok_frame : forall h h' root qp pp p, link_ok h root qp pp p ->
  (forall a, link_owner qp = Some a -> hread h' a = hread h a) -> link_ok h' root qp pp p.
Proof. intros. eapply link_keep; eauto. Qed.
Lemma owner_upd_frame : forall h h1 h' qp p, owner_upd h1 h' qp p ->
  (forall a, link_owner qp = Some a -> hread h1 a = hread h a) -> owner_upd h h' qp p.
Proof.
  intros h h1 h' [|a i] p H Hfr; cbn [owner_upd link_owner] in *; [exact I|].
  destruct H as (nd & Ha & Ha'). exists nd. rewrite <- (Hfr a eq_refl). auto.
Qed.

(* the same addresses, still distinct *)
Definition same_addrs (s' s : ptree) : Prop := NoDup (addrs s') /\ forall x, In x (addrs s') <-> In x (addrs s).
Lemma same_addrs_refl : forall s, NoDup (addrs s) -> same_addrs s s.
Proof. intros s H. split; [exact H|tauto]. Qed.
Lemma same_addrs_trans : forall a b c, same_addrs a b -> same_addrs b c -> same_addrs a c.
Proof. intros a b c (H1 & H2) (H3 & H4). split; [exact H1|]. intro x. rewrite H2. apply H4. Qed.
Ltac same_addrs_tac := split; [autorewrite with nd; repeat split; nd_auto
                              |let x := fresh "x" in intro x; repeat progress (cbn [addrs In]; rewrite ?in_app_iff); tauto].

(* the closed integer expressions of the generated code *)
Lemma quot_c1 : Z.quot (1 + 1) 2 = 1. Proof. reflexivity. Qed.
Lemma quot_cm1 : Z.quot (-1 + 1) 2 = 0. Proof. reflexivity. Qed.
