(* END-TO-END COROLLARIES, property C01 (Properties/C01.v, Proofs/MachineMaps.v) about runs of GENERATED code:
   - maps/hashmap (HashMapGenProofs.gen_run: generated Put / Remove / Clear, any list, from the generated New(); Go's map = GoMap.gmap,
     the iteration order of Keys() / Values() is a parameter [mo], any permutation of the entries);
   - maps/linkedhashmap COMPOSED with the generated doubly linked list cells (LinkedHashMapOverCellsProofs.gen_run_p).
   With hs = the Put / Remove / Clear history and es = MapSpec.mrun Z.compare hs: the generated Get(k) returns (v, true) exactly when
   the most recent Put(k, v) is not followed by Remove(k) or Clear (MapSpec.last_live), else (0, false); Size() is the number of live
   keys; Keys() / Values() list the live entries exactly once -- HashMap: a permutation of map fst es / map snd es for every order;
   LinkedHashMap: position-aligned (the i-th value is the current value of the i-th key), no key twice. *)
From Coq Require Import ZArith List Lia Bool Arith Sorted SetoidList Permutation.
From Gods Require Import Common.Cmp Common.ListAux Spec.MapSpec Model.Ops Model.Machine.
From Gods Require Proofs.MapSpecProofs Proofs.MachineMaps.
From GodsGen Require HashMapGen LinkedHashMapGen.
From GodsGenProofs Require Import GenIterRun WrapCommon GoCmp GoMap.
From GodsGenProofs Require HashMapGenProofs LinkedHashMapGenProofs LinkedHashMapOverCellsProofs.
Import ListNotations.
Local Open Scope Z_scope.

Module HM := HashMapGenProofs. Module H := HashMapGen.
Module LO := LinkedHashMapOverCellsProofs. Module LP := LinkedHashMapGenProofs. Module L := LinkedHashMapGen.
Module MM := MachineMaps.

Definition to_mop (o : HM.gop) : mop := match o with HM.GPut k v => MPut k v | HM.GRemove k => MRemove k | HM.GClear => MClear end.
Definition to_mop' (o : LP.gop) : mop := match o with LP.GPut k v => MPut k v | LP.GRemove k => MRemove k | LP.GClear => MClear end.

Lemma hist_to_op : forall c ops, MM.hist c (map HM.to_op ops) = map to_mop ops.
Proof. intros c ops. unfold MM.hist. induction ops as [|[k v|k|] ops IH]; cbn [map flat_map MM.hist1 HM.to_op to_mop app]; congruence. Qed.
Lemma hist_to_op' : forall c ops, MM.hist c (map LP.to_op ops) = map to_mop' ops.
Proof. intros c ops. unfold MM.hist. induction ops as [|[k v|k|] ops IH]; cbn [map flat_map MM.hist1 LP.to_op to_mop' app]; congruence. Qed.

Lemma oopt_pair : forall (p : Z * bool) (o : option (Z * Z)), (snd p = false -> fst p = 0) ->
  obs_pair p = oopt (option_map snd o) -> p = match o with Some e => (snd e, true) | None => (0, false) end.
Proof.
  intros [v [|]] [e|] H0 E; unfold obs_pair in E; cbn in *; try discriminate.
  - injection E as ->. reflexivity.
  - rewrite H0; reflexivity.
Qed.

(* OBLIGATION (C01 for the generated HashMap) *)
Theorem gen_hashmap_get_last_live : forall c ops, ckind c = HashMap ->
  let hs := map to_mop ops in let es := mrun Z.compare hs in let g := HM.gen_run ops in
  (forall k, obs_pair (H.Get g k) = oopt (option_map snd (last_live Z.compare (rev hs) k))) /\
  H.Size g = Z.of_nat (length es) /\ H.Empty g = (Z.of_nat (length es) =? 0) /\
  (forall mo, Permutation (mo (H.m g)) (H.m g) ->
     Permutation (H.Keys mo g) (map fst es) /\ Permutation (H.Values mo g) (map snd es)) /\
  (forall e, In e es <-> last_live Z.compare (rev hs) (fst e) = Some e) /\
  NoDupA (fun a b => Z.compare a b = Eq) (map fst es).
Proof.
  intros c ops K hs es g.
  assert (Hv : MM.valid c) by (unfold MM.valid; rewrite K; split; [reflexivity|discriminate]).
  assert (Hcf : MM.cmp_for c = Z.compare) by (unfold MM.cmp_for; rewrite K; reflexivity).
  assert (Hl : ckind c <> LinkedHashMap) by (rewrite K; discriminate).
  pose proof (HM.gen_run_simulates c K ops) as Hrun. fold g in Hrun.
  destruct (MM.C01_keys_values c (map HM.to_op ops) Hv Hl) as (Ek & Ev). rewrite Hcf, hist_to_op in Ek, Ev. fold hs in Ek, Ev. fold es in Ek, Ev.
  pose proof (MM.C01_size c (map HM.to_op ops) Hv) as Es. rewrite Hcf, hist_to_op in Es. fold hs in Es. fold es in Es.
  split; [|split; [|split; [|split; [|split]]]].
  - intro k. rewrite <- (HM.Get_equiv c g k), <- Hrun. pose proof (MM.C01_get c (map HM.to_op ops) k Hv) as E. rewrite Hcf, hist_to_op in E. exact E.
  - rewrite (HM.Size_equiv c g), <- Hrun. exact Es.
  - rewrite (HM.Empty_equiv c g), <- Hrun, Es. reflexivity.
  - intros mo Hp. destruct (HM.Keys_Values_any_order c mo g Hp) as (P1 & P2 & _). rewrite <- Hrun, Ek in P1. rewrite <- Hrun, Ev in P2. split; assumption.
  - intro e. pose proof (MM.C01_entry_iff c (map HM.to_op ops) e Hv) as E. rewrite Hcf, hist_to_op, (MM.refines_tree c _ Hv Hl), Hcf, hist_to_op in E. exact E.
  - pose proof (MM.C01_nodup c (map HM.to_op ops) Hv) as E. rewrite Hcf, Ek in E. exact E.
Qed.
Print Assumptions gen_hashmap_get_last_live.

(* OBLIGATION (C01 for the generated LinkedHashMap over the generated list cells) *)
Theorem gen_linkedhashmap_get_last_live : forall c ops, ckind c = LinkedHashMap ->
  let hs := map to_mop' ops in let es := mrun Z.compare hs in let g := LO.gen_run_p ops in
  L.ordering LO.Ip g <> None /\
  (forall k, obs_pair (L.Get LO.Ip g k) = oopt (option_map snd (last_live Z.compare (rev hs) k))) /\
  L.Size LO.Ip g = Z.of_nat (length es) /\ L.Empty LO.Ip g = (Z.of_nat (length es) =? 0) /\
  Permutation (L.Keys LO.Ip g) (map fst es) /\ Permutation (L.Values LO.Ip LO.enum_p g) (map snd es) /\ NoDup (L.Keys LO.Ip g) /\
  L.Values LO.Ip LO.enum_p g =
    map (fun k => match last_live Z.compare (rev hs) k with Some e => snd e | None => 0 end) (L.Keys LO.Ip g).
Proof.
  intros c ops K hs es g.
  assert (Hv : MM.valid c) by (unfold MM.valid; rewrite K; split; [reflexivity|discriminate]).
  assert (Hcf : MM.cmp_for c = Z.compare) by (unfold MM.cmp_for; rewrite K; reflexivity).
  destruct (LO.linkedhashmap_over_cells_run c K ops) as (d & ord & Hd & _ & _ & O1 & O2 & O3 & O4 & O5). fold g in Hd, O1, O2, O3, O4, O5.
  pose proof (MM.C01_size c (map LP.to_op ops) Hv) as Es. rewrite Hcf, hist_to_op' in Es. fold hs in Es. fold es in Es.
  destruct (MM.C01_linked c (map LP.to_op ops) Hv K) as (_ & Pk & Pv & Nd). rewrite hist_to_op' in Pk, Pv. fold hs in Pk, Pv. fold es in Pk, Pv.
  destruct (MM.C01_aligned c (map LP.to_op ops) Hv) as (_ & _ & Al). rewrite Hcf, hist_to_op' in Al. fold hs in Al.
  split; [rewrite Hd; discriminate|].
  split; [intro k; rewrite (O5 k); pose proof (MM.C01_get c (map LP.to_op ops) k Hv) as E; rewrite Hcf, hist_to_op' in E; exact E|].
  rewrite O1, O2, O3, O4, Es. repeat split; assumption.
Qed.
Print Assumptions gen_linkedhashmap_get_last_live.

(* a concrete run (an Example; keyword Lemma so that run.py can isolate it) *)
Lemma ex_hashmap_generated_run :
  let ops := [HM.GPut 5 50; HM.GPut 1 10; HM.GPut 3 30; HM.GPut 1 11; HM.GRemove 5; HM.GPut 5 55; HM.GRemove 9] in
  let lops := [LP.GPut 5 50; LP.GPut 1 10; LP.GPut 3 30; LP.GPut 1 11; LP.GRemove 5; LP.GPut 5 55; LP.GPut 2 20; LP.GRemove 1; LP.GPut 1 12] in
  (H.Get (HM.gen_run ops) 1, H.Get (HM.gen_run ops) 9, H.Size (HM.gen_run ops), mrun Z.compare (map to_mop ops),
   L.Keys LO.Ip (LO.gen_run_p lops), L.Values LO.Ip LO.enum_p (LO.gen_run_p lops), L.Get LO.Ip (LO.gen_run_p lops) 1, L.Size LO.Ip (LO.gen_run_p lops)) =
  ((11, true), (0, false), 3, [(1, 11); (3, 30); (5, 55)], [3; 5; 2; 1], [30; 55; 20; 12], (12, true), 4).
Proof. vm_compute. reflexivity. Qed.
