(* Lemmas about LINKS for the write path of the AVL tree in tree pointer mode (no obligations): what a call through a link
   guarantees ([link_post]), the step after a recursive call into a child slot ([put_step], [remove_step]), storing a subtree
   through a link, effects on nodes outside the subtree ([kvupd], [slotupd]). *)
From Coq Require Import ZArith List Lia Bool Arith ZifyBool ZifyNat.
From Gods Require Import Common.Cmp Model.AVLTree Proofs.AVLInv.
From GodsGenProofs Require Import GoCmp GoTreeHeap GoTreeLink AVLTreeHeapRep AVLTreeHeapWriteLemmas.
From GodsGen Require AVLTreeHeapGen.
Import ListNotations.
Local Open Scope Z_scope.

(* what a call through the link qp that replaces the subtree s (parent pointer pp) by s' guarantees *)
Definition link_post (h h' : heap G.Node) (root : ptr) (qp : link) (pp : ptr) (s s' : ptree) (root' : ptr) : Prop :=
  root' = new_root qp root (root_ptr s') /\ rep h' pp s' /\
  link_ok h' root' qp pp (root_ptr s') /\ owner_upd h h' qp (root_ptr s').

Lemma heap_ok_post : forall h h' root qp pp s p,
  heap_ok h -> rep h pp s -> link_ok h root qp pp p -> hnext h' = hnext h ->
  (forall z, ~ In z (addrs s) -> link_owner qp <> Some z -> hread h' z = hread h z) -> heap_ok h'.
Proof.
  intros h h' root qp pp s p Hok Hrep Hlk Hn Hfr a Ha. rewrite Hn.
  destruct (in_dec Nat.eq_dec a (addrs s)) as [Hin|Hin]; [eapply rep_lt_next; eauto|].
  destruct qp as [|b i]; cbn [link_owner link_ok] in *.
  - apply Hok. rewrite <- Hfr; [exact Ha|exact Hin|discriminate].
  - destruct (Nat.eq_dec a b) as [->|Hab].
    + destruct Hlk as (_ & nd & Hb & _). apply Hok. congruence.
    + apply Hok. rewrite <- Hfr; [exact Ha|exact Hin|congruence].
Qed.

Lemma link_owner_lt : forall h root qp pp p a, heap_ok h -> link_ok h root qp pp p -> link_owner qp = Some a -> (a < hnext h)%nat.
Proof.
  intros h root [|b i] pp p a Hok Hlk Ha; [discriminate|]. cbn [link_owner] in Ha. injection Ha as ->.
  cbn [link_ok] in Hlk. destruct Hlk as (_ & nd & Hb & _). apply Hok. congruence.
Qed.

Lemma to_int8_m1 : to_int8 (-1) = -1. Proof. reflexivity. Qed.
Lemma to_int8_1 : to_int8 1 = 1. Proof. reflexivity. Qed.

Definition put_post (h h' : heap G.Node) (rt : ptr) (qp : link) (pp : ptr) (pt pt' : ptree) (rt' : ptr) : Prop :=
  link_post h h' rt qp pp pt pt' rt' /\ NoDup (addrs pt') /\
  (forall x, In x (addrs pt') -> In x (addrs pt) \/ x = hnext h) /\ heap_ok h' /\
  (forall z, ~ In z (addrs pt) -> z <> hnext h -> link_owner qp <> Some z -> hread h' z = hread h z).

(* the step after the recursive call: the child subtree was replaced through the link into this node *)
Lemma put_step : forall h h1 rt qp pp qa b l k v r (d : Z) sub sub' rt1,
  (d = 0 \/ d = 1) -> sub = (if d =? 0 then l else r) ->
  heap_ok h -> rep h pp (PT qa b l k v r) -> NoDup (addrs (PT qa b l k v r)) -> link_ok h rt qp pp (Some qa) ->
  (forall a, link_owner qp = Some a -> ~ In a (addrs (PT qa b l k v r))) ->
  put_post h h1 rt (LChild qa d) (Some qa) sub sub' rt1 ->
  let S1 := if d =? 0 then PT qa b sub' k v r else PT qa b l k v sub' in
  rt1 = rt /\ rep h1 pp S1 /\ NoDup (addrs S1) /\ link_ok h1 rt qp pp (Some qa) /\
  (forall a, link_owner qp = Some a -> ~ In a (addrs S1)) /\
  (forall x, In x (addrs S1) -> In x (addrs (PT qa b l k v r)) \/ x = hnext h) /\
  owner_upd h h1 qp (Some qa) /\ new_root qp rt (Some qa) = rt /\
  (forall z, ~ In z (addrs (PT qa b l k v r)) -> z <> hnext h -> hread h1 z = hread h z).
Proof.
  intros h h1 rt qp pp qa b l k v r d sub sub' rt1 Hd Hsub Hok Hrep Hnd Hlk Hown ((Hrt & Hrs & Hlk1 & Hup) & Hnd' & Hin' & Hok1 & Hfr) S1.
  destruct (rep_PT_inv _ _ _ _ _ _ _ _ Hrep) as (Hq & Hl & Hr). pose proof Hnd as Hnd0. nd_facts Hnd.
  cbn [new_root] in Hrt. cbn [owner_upd] in Hup. destruct Hup as (nd & Hnd1 & Hq1). rewrite Hq in Hnd1. injection Hnd1 as <-.
  assert (Hlt : forall x, In x (addrs (PT qa b l k v r)) -> (x < hnext h)%nat) by (intros x Hx; exact (rep_lt_next h _ pp x Hok Hrep Hx)).
  assert (Hfr' : forall z, ~ In z (addrs (PT qa b l k v r)) -> z <> hnext h -> hread h1 z = hread h z).
  { intros z Hz Hzn. nd_facts Hz. apply Hfr; [destruct Hd as [-> | ->]; subst sub; cbn [Z.eqb]; assumption|exact Hzn|cbn [link_owner]; congruence]. }
  assert (Hkeep : new_root qp rt (Some qa) = rt /\ link_ok h1 rt qp pp (Some qa) /\ owner_upd h h1 qp (Some qa)).
  { apply link_keep; [exact Hlk|]. intros a Ha. apply Hfr'; [exact (Hown _ Ha)|].
    pose proof (link_owner_lt _ _ _ _ _ _ Hok Hlk Ha). lia. }
  destruct Hkeep as (K1 & K2 & K3).
  split; [exact Hrt|].
  destruct Hd as [-> | ->]; cbn [Z.eqb Pos.eqb] in *; subst sub S1.
  - assert (Hqa' : ~ In qa (addrs sub')) by (intro Hx; destruct (Hin' _ Hx) as [Hx'|Hx']; [contradiction|specialize (Hlt qa ltac:(now left)); lia]).
    assert (Hdj : disj (addrs sub') (addrs r)).
    { intros x Hx1 Hx2. destruct (Hin' _ Hx1) as [Hx'|Hx']; [nd_auto|]. specialize (Hlt x ltac:(cbn [addrs]; right; apply in_or_app; now right)). lia. }
    split; [|split; [|split; [exact K2|split; [|split; [|split; [exact K3|split; [exact K1|exact Hfr']]]]]]].
    + apply rep_PT_intro; [rewrite Hq1; reflexivity|exact Hrs|].
      eapply rep_frame; [|exact Hr]. intros x Hx. apply Hfr; [nd_auto| |cbn [link_owner]; intro E; injection E as ->; contradiction].
      specialize (Hlt x ltac:(cbn [addrs]; right; apply in_or_app; now right)). lia.
    + autorewrite with nd. repeat split; assumption.
    + intros a Ha Hx. pose proof (Hown _ Ha) as Hn. nd_facts Hn. cbn [addrs In] in Hx. rewrite in_app_iff in Hx.
      destruct Hx as [->|[Hx|Hx]]; [congruence| |contradiction].
      destruct (Hin' _ Hx) as [Hx'|Hx']; [contradiction|]. pose proof (link_owner_lt _ _ _ _ _ _ Hok Hlk Ha). lia.
    + intros x Hx. cbn [addrs In] in Hx |- *. rewrite in_app_iff in Hx |- *. destruct Hx as [->|[Hx|Hx]]; [tauto| |tauto].
      destruct (Hin' _ Hx); tauto.
  - assert (Hqa' : ~ In qa (addrs sub')) by (intro Hx; destruct (Hin' _ Hx) as [Hx'|Hx']; [contradiction|specialize (Hlt qa ltac:(now left)); lia]).
    assert (Hdj : disj (addrs l) (addrs sub')).
    { intros x Hx1 Hx2. destruct (Hin' _ Hx2) as [Hx'|Hx']; [nd_auto|]. specialize (Hlt x ltac:(cbn [addrs]; right; apply in_or_app; now left)). lia. }
    split; [|split; [|split; [exact K2|split; [|split; [|split; [exact K3|split; [exact K1|exact Hfr']]]]]]].
    + apply rep_PT_intro; [rewrite Hq1; reflexivity| |exact Hrs].
      eapply rep_frame; [|exact Hl]. intros x Hx. apply Hfr; [nd_auto| |cbn [link_owner]; intro E; injection E as ->; contradiction].
      specialize (Hlt x ltac:(cbn [addrs]; right; apply in_or_app; now left)). lia.
    + autorewrite with nd. repeat split; assumption.
    + intros a Ha Hx. pose proof (Hown _ Ha) as Hn. nd_facts Hn. cbn [addrs In] in Hx. rewrite in_app_iff in Hx.
      destruct Hx as [->|[Hx|Hx]]; [congruence|contradiction|].
      destruct (Hin' _ Hx) as [Hx'|Hx']; [contradiction|]. pose proof (link_owner_lt _ _ _ _ _ _ Hok Hlk Ha). lia.
    + intros x Hx. cbn [addrs In] in Hx |- *. rewrite in_app_iff in Hx |- *. destruct Hx as [->|[Hx|Hx]]; [tauto|tauto|].
      destruct (Hin' _ Hx); tauto.
Qed.

Definition bump (ins : bool) : Z := if ins then 1 else 0.

(* a subtree s1 built from the nodes of s (in a heap h1 that differs from h only inside s) is stored through the link *)
Lemma store_through_link : forall h h1 root qp pp s s1,
  link_ok h root qp pp (root_ptr s) -> (forall a, link_owner qp = Some a -> ~ In a (addrs s)) ->
  rep h1 pp s1 -> (forall x, In x (addrs s1) -> In x (addrs s)) -> hnext h1 = hnext h ->
  (forall z, ~ In z (addrs s) -> hread h1 z = hread h z) ->
  exists h2, link_set G.Node_Children G.Node_with_Children h1 root qp (root_ptr s1) = Some (h2, new_root qp root (root_ptr s1)) /\
    link_post h h2 root qp pp s s1 (new_root qp root (root_ptr s1)) /\ hnext h2 = hnext h /\
    (forall z, ~ In z (addrs s) -> link_owner qp <> Some z -> hread h2 z = hread h z).
Proof.
  intros h h1 root qp pp s s1 Hlk Hown Hr1 Hin Hn1 Hf1.
  assert (Hlk1 : link_ok h1 root qp pp (root_ptr s)).
  { eapply link_ok_frame; [exact Hlk|]. intros a Ha. apply Hf1. apply (Hown _ Ha). }
  destruct (link_set_ok h1 root qp pp (root_ptr s) (root_ptr s1) Hlk1) as (h2 & Es & Hn2 & Hlk2 & Hup2 & Hf2 & _).
  exists h2. split; [exact Es|]. split; [|split; [congruence|]].
  - split; [reflexivity|]. split; [|split; [exact Hlk2|]].
    + eapply rep_frame; [|exact Hr1]. intros x Hx. apply Hf2. intro E. apply (Hown _ E). now apply Hin.
    + eapply owner_upd_frame; [exact Hup2|]. intros a Ha. apply Hf1. apply (Hown _ Ha).
  - intros z Hz Hzo. rewrite Hf2 by exact Hzo. apply Hf1. exact Hz.
Qed.

(* what happens to a node OUTSIDE the subtree: the node m that *minKey / *minVal point into gets the minimum's key and
   value; the node that owns the link gets the new subtree root in its slot *)
Definition kvupd (m : nat) (mk mv : Z) (z : nat) (nd : G.Node) : G.Node :=
  if Nat.eqb z m then G.Node_with_Value mv (G.Node_with_Key mk nd) else nd.
Definition slotupd (qp : link) (p' : ptr) (z : nat) (nd : G.Node) : G.Node :=
  match qp with LChild a i => if Nat.eqb z a then set_slot nd i p' else nd | LRoot => nd end.

Lemma kvupd_children : forall m mk mv z nd, G.Node_Children (kvupd m mk mv z nd) = G.Node_Children nd.
Proof. intros. unfold kvupd. destruct (Nat.eqb z m); reflexivity. Qed.

Lemma slotupd_other : forall qp p' z nd, link_owner qp <> Some z -> slotupd qp p' z nd = nd.
Proof.
  intros [|a i] p' z nd H; [reflexivity|]. cbn [slotupd link_owner] in *.
  destruct (Nat.eqb z a) eqn:E; [apply Nat.eqb_eq in E; congruence|reflexivity].
Qed.

Lemma link_ok_eff : forall h h' root qp pp p (F : nat -> G.Node -> G.Node),
  link_ok h root qp pp p -> (forall z nd, G.Node_Children (F z nd) = G.Node_Children nd) ->
  (forall a, link_owner qp = Some a -> hread h' a = option_map (F a) (hread h a)) -> link_ok h' root qp pp p.
Proof.
  intros h h' root [|a i] pp p F H HF Hfr; cbn [link_ok link_owner] in *; [exact H|].
  destruct H as (-> & nd & Ha & Hg). split; [reflexivity|]. exists (F a nd). rewrite (Hfr a eq_refl), Ha. split; [reflexivity|]. now rewrite HF.
Qed.

Lemma link_store_eff : forall h h3 root qp pp s p' (F : nat -> G.Node -> G.Node),
  link_ok h root qp pp (root_ptr s) -> (forall a, link_owner qp = Some a -> ~ In a (addrs s)) ->
  (forall z nd, G.Node_Children (F z nd) = G.Node_Children nd) ->
  (forall z, ~ In z (addrs s) -> hread h3 z = option_map (F z) (hread h z)) ->
  exists h4, link_set G.Node_Children G.Node_with_Children h3 root qp p' = Some (h4, new_root qp root p') /\
    hnext h4 = hnext h3 /\
    (forall z, link_owner qp <> Some z -> hread h4 z = hread h3 z) /\
    (forall z, ~ In z (addrs s) -> hread h4 z = option_map (fun nd => slotupd qp p' z (F z nd)) (hread h z)).
Proof.
  intros h h3 root qp pp s p' F Hlk Hown HF Hfr.
  assert (Hlk3 : link_ok h3 root qp pp (root_ptr s)).
  { eapply link_ok_eff; [exact Hlk|exact HF|]. intros a Ha. apply Hfr. apply (Hown _ Ha). }
  destruct (link_set_ok h3 root qp pp (root_ptr s) p' Hlk3) as (h4 & Es & Hn4 & _ & Hup4 & Hf4 & _).
  exists h4. split; [exact Es|]. split; [exact Hn4|]. split; [exact Hf4|].
  intros z Hz. destruct qp as [|a i]; cbn [slotupd].
  - rewrite Hf4 by discriminate. apply Hfr. exact Hz.
  - destruct (Nat.eqb z a) eqn:E.
    + apply Nat.eqb_eq in E. subst z. cbn [owner_upd] in Hup4. destruct Hup4 as (nd3 & H3 & H4). rewrite H4.
      rewrite (Hfr a Hz) in H3. destruct (hread h a) as [nd|]; [|discriminate]. cbn [option_map] in *. injection H3 as <-. reflexivity.
    + apply Nat.eqb_neq in E. rewrite Hf4 by (cbn [link_owner]; congruence). apply Hfr. exact Hz.
Qed.

Lemma new_root_same : forall h root qp pp p, link_ok h root qp pp p -> new_root qp root p = root.
Proof. intros h root [|a i] pp p H; cbn [new_root link_ok] in *; [destruct H; congruence|reflexivity]. Qed.
Lemma option_map_id' : forall (o : option G.Node) (f : G.Node -> G.Node), (forall x, f x = x) -> option_map f o = o.
Proof. intros [x|] f H; cbn; [now rewrite H|reflexivity]. Qed.
Lemma kvupd_other : forall m mk mv z nd, z <> m -> kvupd m mk mv z nd = nd.
Proof. intros. unfold kvupd. destruct (Nat.eqb z m) eqn:E; [apply Nat.eqb_eq in E; congruence|reflexivity]. Qed.

Definition remove_post (h h' : heap G.Node) (rt : ptr) (qp : link) (pp : ptr) (pt pt' : ptree) (rt' : ptr) : Prop :=
  link_post h h' rt qp pp pt pt' rt' /\ NoDup (addrs pt') /\ (forall x, In x (addrs pt') -> In x (addrs pt)) /\
  hnext h' = hnext h /\ (forall z, ~ In z (addrs pt) -> link_owner qp <> Some z -> hread h' z = hread h z).

Lemma hread_next_none : forall h : heap G.Node, heap_ok h -> hread h (hnext h) = None.
Proof. intros h Hok. destruct (hread h (hnext h)) eqn:E; [|reflexivity]. assert (hnext h < hnext h)%nat by (apply Hok; congruence). lia. Qed.

Lemma remove_step : forall h h1 rt qp pp qa b l k v r (d : Z) sub sub' rt1,
  (d = 0 \/ d = 1) -> sub = (if d =? 0 then l else r) ->
  heap_ok h -> rep h pp (PT qa b l k v r) -> NoDup (addrs (PT qa b l k v r)) -> link_ok h rt qp pp (Some qa) ->
  (forall a, link_owner qp = Some a -> ~ In a (addrs (PT qa b l k v r))) ->
  remove_post h h1 rt (LChild qa d) (Some qa) sub sub' rt1 ->
  let S1 := if d =? 0 then PT qa b sub' k v r else PT qa b l k v sub' in
  rt1 = rt /\ rep h1 pp S1 /\ NoDup (addrs S1) /\ link_ok h1 rt qp pp (Some qa) /\
  (forall a, link_owner qp = Some a -> ~ In a (addrs S1)) /\
  (forall x, In x (addrs S1) -> In x (addrs (PT qa b l k v r))) /\
  owner_upd h h1 qp (Some qa) /\ new_root qp rt (Some qa) = rt /\
  (forall z, ~ In z (addrs (PT qa b l k v r)) -> hread h1 z = hread h z) /\ heap_ok h1.
Proof.
  intros h h1 rt qp pp qa b l k v r d sub sub' rt1 Hd Hsub Hok Hrep Hnd Hlk Hown (Hlp & Hnd' & Hin' & Hn1 & Hfr) S1.
  destruct (rep_PT_inv _ _ _ _ _ _ _ _ Hrep) as (Hq & Hl & Hr).
  assert (Hsubrep : rep h (Some qa) sub) by (destruct Hd as [-> | ->]; subst sub; cbn [Z.eqb Pos.eqb]; assumption).
  assert (Hsublk : link_ok h rt (LChild qa d) (Some qa) (root_ptr sub)).
  { split; [reflexivity|]. eexists. split; [exact Hq|]. destruct Hd as [-> | ->]; subst sub; reflexivity. }
  assert (Hok1 : heap_ok h1) by (eapply heap_ok_post; [exact Hok|exact Hsubrep|exact Hsublk|exact Hn1|exact Hfr]).
  assert (Hpp : put_post h h1 rt (LChild qa d) (Some qa) sub sub' rt1).
  { split; [exact Hlp|]. split; [exact Hnd'|]. split; [intros x Hx; left; now apply Hin'|]. split; [exact Hok1|].
    intros z Hz _ Hzo. apply Hfr; assumption. }
  destruct (put_step h h1 rt qp pp qa b l k v r d sub sub' rt1 Hd Hsub Hok Hrep Hnd Hlk Hown Hpp)
    as (P1 & P2 & P3 & P4 & P5 & P6 & P7 & P8 & P9).
  split; [exact P1|]. split; [exact P2|]. split; [exact P3|]. split; [exact P4|].
  assert (Hsubset : forall x, In x (addrs S1) -> In x (addrs (PT qa b l k v r))).
  { intros x Hx. subst S1. destruct Hd as [-> | ->]; subst sub; cbn [Z.eqb Pos.eqb] in *; cbn [addrs In] in Hx |- *; rewrite in_app_iff in Hx |- *;
      destruct Hx as [->|[Hx|Hx]]; try tauto; apply Hin' in Hx; tauto. }
  split; [|split; [exact Hsubset|split; [exact P7|split; [exact P8|split; [|exact Hok1]]]]].
  - intros a Ha Hx. apply (Hown _ Ha). now apply Hsubset.
  - intros z Hz. destruct (Nat.eq_dec z (hnext h)) as [->|Hne]; [|apply P9; assumption].
    rewrite (hread_next_none h Hok). rewrite <- Hn1. apply hread_next_none. exact Hok1.
Qed.

