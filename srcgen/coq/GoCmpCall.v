(* CALLS of comparators by translated code (hand-written once; see /verif/srcgen/cmpcall.go).
   A Go comparator (utils.Comparator[T]) returns an int of which only the sign is meaningful; the model's
   comparator [cmpf] returns a [comparison] (Lt / Eq / Gt = negative / zero / positive).  The translator accepts a
   comparator call only as an operand of a comparison with the literal 0 and emits one of the six tests below, so
   the correspondence "sign of the Go result = the model's comparison" is all that is assumed of a comparator.
   [gt0] is, by conversion, [Model/Heap.gt]. *)
From Coq Require Import ZArith.
From Gods Require Import Common.Cmp.

Definition gt0 (c : cmpf) (a b : Z) : bool := match c a b with Gt => true | _ => false end.   (* c(a, b) > 0 *)
Definition lt0 (c : cmpf) (a b : Z) : bool := match c a b with Lt => true | _ => false end.   (* c(a, b) < 0 *)
Definition eq0 (c : cmpf) (a b : Z) : bool := match c a b with Eq => true | _ => false end.   (* c(a, b) == 0 *)
Definition le0 (c : cmpf) (a b : Z) : bool := negb (gt0 c a b).                               (* c(a, b) <= 0 *)
Definition ge0 (c : cmpf) (a b : Z) : bool := negb (lt0 c a b).                               (* c(a, b) >= 0 *)
Definition ne0 (c : cmpf) (a b : Z) : bool := negb (eq0 c a b).                               (* c(a, b) != 0 *)
