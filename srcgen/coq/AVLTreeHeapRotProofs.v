(* ROTATIONS of trees/avltree/avltree.go in TREE POINTER MODE (GodsGen.AVLTreeHeapGen): the GENERATED rotate / singlerot /
   doublerot (the latter in AVLTreeHeapDblRotProofs.v, split for compile time) transform a represented subtree (AVLTreeHeapRep.v: rep h pp s, distinct addresses) into the represented
   subtree that Model/AVLTree.v's rotate / singlerot / doublerot compute: keys, values, BALANCE FACTORS, shape, every
   Children / Parent link (the new root's Parent is the old root's: the caller stores the new root into the link), the nodes
   keep their addresses, nothing outside the subtree's addresses is written, no allocation.  Never None when the model
   succeeds. *)
From Coq Require Import ZArith List Lia Bool Arith.
From Gods Require Import Common.Cmp Model.AVLTree.
From GodsGenProofs Require Import GoCmp GoTreeHeap GoTreeLink AVLTreeHeapRep AVLTreeHeapWriteLemmas.
From GodsGen Require AVLTreeHeapGen.
Import ListNotations.
Local Open Scope Z_scope.

Lemma arr2_set_0 : forall x y p : ptr, arr2_set (x, y) 0 p = Some (p, y).
Proof. reflexivity. Qed.
Lemma arr2_set_1 : forall x y p : ptr, arr2_set (x, y) 1 p = Some (x, p).
Proof. reflexivity. Qed.

Ltac csim := repeat first
  [ progress cbv beta iota zeta
  | progress change (Z.quot (1 + 1) 2) with 1
  | progress change (Z.quot (-1 + 1) 2) with 0
  | progress change (Z.quot (- (1) + 1) 2) with 0
  | progress change (Z.lxor 1 1) with 0
  | progress change (Z.lxor 0 1) with 1
  | progress change (- (1)) with (-1)
  | progress change (- -1) with 1
  | progress change (- (-1)) with 1
  | progress rewrite ?arr2_get_0, ?arr2_get_1, ?arr2_set_0, ?arr2_set_1
  | hstep
  | match goal with H : hread ?h ?a = Some _ |- context [hread ?h ?a] => rewrite H end
  | progress gproj ].

(* rep goals about a heap built by hset from one in which the subtrees are represented *)
Ltac rep_tac := lazymatch goal with
  | |- True => exact I
  | |- _ /\ _ => split; rep_tac
  | |- hread _ _ = _ => csim; reflexivity
  | |- rep _ _ PE => exact I
  | |- rep _ _ (PT _ _ _ _ _ _) => cbn [rep]; rep_tac
  | |- rep _ _ _ => (eapply rep_frame; [|eassumption]); let x := fresh "x" in let Hx := fresh "Hx" in
                    intros x Hx; repeat (rewrite hread_hset; eqb_simpl); reflexivity
  end.

Ltac frame_tac := let z := fresh "z" in let Hz := fresh "Hz" in
  intros z Hz; nd_facts Hz; repeat (rewrite hread_hset; eqb_simpl); reflexivity.

(* ---------- rotate ---------- *)
Lemma rotate_L : forall h pp sa sb sl sk sv ra rb rl rk rv rr,
  rep h pp (PT sa sb sl sk sv (PT ra rb rl rk rv rr)) -> NoDup (addrs (PT sa sb sl sk sv (PT ra rb rl rk rv rr))) ->
  exists h', G.rotate h 1 (Some sa) = Some (h', Some ra) /\
    rep h' pp (PT ra rb (PT sa sb sl sk sv rl) rk rv rr) /\ hnext h' = hnext h /\
    (forall z, ~ In z (addrs (PT sa sb sl sk sv (PT ra rb rl rk rv rr))) -> hread h' z = hread h z).
Proof.
  intros h pp sa sb sl sk sv ra rb rl rk rv rr Hrep Hnd.
  simpl in Hrep. destruct Hrep as (Hs & Hsl & Hr & Hrl & Hrr).
  unfold G.rotate. destruct rl as [|ya yb yl yk yv yr].
  - nd_facts Hnd. csim. eexists. split; [reflexivity|]. split; [rep_tac|]. split; [reflexivity|frame_tac].
  - simpl in Hrl. destruct Hrl as (Hy & Hyl & Hyr). nd_facts Hnd. csim.
    eexists. split; [reflexivity|]. split; [rep_tac|]. split; [reflexivity|frame_tac].
Qed.

Lemma rotate_R : forall h pp sa sb sl sk sv ra rb rl rk rv rr,
  rep h pp (PT sa sb (PT ra rb rl rk rv rr) sk sv sl) -> NoDup (addrs (PT sa sb (PT ra rb rl rk rv rr) sk sv sl)) ->
  exists h', G.rotate h (-1) (Some sa) = Some (h', Some ra) /\
    rep h' pp (PT ra rb rl rk rv (PT sa sb rr sk sv sl)) /\ hnext h' = hnext h /\
    (forall z, ~ In z (addrs (PT sa sb (PT ra rb rl rk rv rr) sk sv sl)) -> hread h' z = hread h z).
Proof.
  intros h pp sa sb sl sk sv ra rb rl rk rv rr Hrep Hnd.
  simpl in Hrep. destruct Hrep as (Hs & (Hr & Hrl & Hrr) & Hsl).
  unfold G.rotate. destruct rr as [|ya yb yl yk yv yr].
  - nd_facts Hnd. csim. eexists. split; [reflexivity|]. split; [rep_tac|]. split; [reflexivity|frame_tac].
  - simpl in Hrr. destruct Hrr as (Hy & Hyl & Hyr). nd_facts Hnd. csim.
    eexists. split; [reflexivity|]. split; [rep_tac|]. split; [reflexivity|frame_tac].
Qed.

Lemma rotate_not_E : forall c s t', AVL.rotate c s = Some t' -> t' <> AVL.E.
Proof.
  intros c [|sb sl sk sv sr] t' H; [discriminate|]. cbn [AVL.rotate] in H. destruct (c =? 1).
  - destruct sr; [discriminate|]. injection H as <-. discriminate.
  - destruct sl; [discriminate|]. injection H as <-. discriminate.
Qed.

(* OBLIGATION *)
Theorem rotate_correct : forall h pp c s t',
  (c = 1 \/ c = -1) -> rep h pp s -> NoDup (addrs s) -> AVL.rotate c (erase s) = Some t' ->
  exists h' s', G.rotate h c (root_ptr s) = Some (h', root_ptr s') /\ erase s' = t' /\
    rep h' pp s' /\ same_addrs s' s /\ hnext h' = hnext h /\
    (forall z, ~ In z (addrs s) -> hread h' z = hread h z).
Proof.
  intros h pp c s t' Hc Hrep Hnd Hm. destruct s as [|sa sb sl sk sv sr]; [discriminate|].
  destruct Hc as [-> | ->]; cbn [erase AVL.rotate Z.eqb Pos.eqb] in Hm.
  - destruct sr as [|ra rb rl rk rv rr]; [discriminate|]. cbn [erase] in Hm. injection Hm as <-.
    destruct (rotate_L _ _ _ _ _ _ _ _ _ _ _ _ _ Hrep Hnd) as (h' & E & Hrep' & Hn & Hfr).
    exists h', (PT ra rb (PT sa sb sl sk sv rl) rk rv rr). split; [exact E|]. split; [reflexivity|]. split; [exact Hrep'|].
    split; [|split; [exact Hn|exact Hfr]]. nd_facts Hnd. same_addrs_tac.
  - destruct sl as [|ra rb rl rk rv rr]; [discriminate|]. cbn [erase] in Hm. injection Hm as <-.
    destruct (rotate_R _ _ _ _ _ _ _ _ _ _ _ _ _ Hrep Hnd) as (h' & E & Hrep' & Hn & Hfr).
    exists h', (PT ra rb rl rk rv (PT sa sb rr sk sv sr)). split; [exact E|]. split; [reflexivity|]. split; [exact Hrep'|].
    split; [|split; [exact Hn|exact Hfr]]. nd_facts Hnd. same_addrs_tac.
Qed.
Print Assumptions rotate_correct.

(* ---------- singlerot ---------- *)
(* OBLIGATION *)
Theorem singlerot_correct : forall h pp c s t',
  (c = 1 \/ c = -1) -> rep h pp s -> NoDup (addrs s) -> AVL.singlerot c (erase s) = Some t' ->
  exists h' s', G.singlerot h c (root_ptr s) = Some (h', root_ptr s') /\ erase s' = t' /\
    rep h' pp s' /\ same_addrs s' s /\ hnext h' = hnext h /\
    (forall z, ~ In z (addrs s) -> hread h' z = hread h z).
Proof.
  intros h pp c s t' Hc Hrep Hnd Hm. destruct s as [|sa sb sl sk sv sr]; [discriminate|].
  unfold AVL.singlerot in Hm. cbn [erase AVL.setb] in Hm.
  destruct (AVL.rotate c (AVL.T 0 (erase sl) sk sv (erase sr))) as [t2|] eqn:Hr; [|discriminate]. injection Hm as <-.
  destruct (store_b_root h pp sa sb sl sk sv sr 0 Hrep Hnd) as (h1 & E1 & Hrep1 & Hn1 & Hfr1).
  destruct (rotate_correct h1 pp c (PT sa 0 sl sk sv sr) t2 Hc Hrep1 Hnd Hr) as (h2 & s2 & E2 & He2 & Hrep2 & Hsa2 & Hn2 & Hfr2).
  destruct s2 as [|a2 b2 l2 k2 v2 r2]; [exfalso; apply (rotate_not_E _ _ _ Hr); now rewrite <- He2|].
  destruct Hsa2 as (Hnd2 & Hin2).
  destruct (store_b_root h2 pp a2 b2 l2 k2 v2 r2 0 Hrep2 Hnd2) as (h3 & E3 & Hrep3 & Hn3 & Hfr3).
  exists h3, (PT a2 0 l2 k2 v2 r2). unfold G.singlerot. cbn [root_ptr] in *. rewrite E1, E2, E3.
  split; [reflexivity|]. split; [rewrite <- He2; reflexivity|]. split; [exact Hrep3|].
  split; [split; [exact Hnd2|exact Hin2]|]. split; [congruence|].
  intros z Hz. rewrite Hfr3, Hfr2, Hfr1; auto.
  - intros ->. apply Hz. now left.
  - intros ->. apply Hz. apply Hin2. now left.
Qed.
Print Assumptions singlerot_correct.

(* the balance factors doublerot gives the two lower nodes, from the balance factor pb of the node that comes up *)
Definition dbl_bs (c pb : Z) : Z * Z := if pb =? c then (- c, 0) else if pb =? - c then (0, c) else (0, 0).

