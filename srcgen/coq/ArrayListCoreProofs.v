(* lists/arraylist/arraylist.go regenerated with capacity-aware slices (GodsGen.ArrayListCoreGen over
   GoSlice.v): every method refines the sequence-level model function of Model/Lists.v (al_add, al_insert,
   al_remove, al_set, al_swap, al_get, al_index_of, al_contains) under the representation relation
     al_rel g l  :=  len <= cap  /\  the live prefix of the backing array = l,
   which every method preserves; resize / growBy / shrink never change the live prefix (growBy appends the
   requested number of slots), and their capacity policy is the documented one (grow to 2 * (cap + n) when
   len + n >= cap; shrink to len when len <= cap / 4).  The runtime's allocation policy [alloc] is
   universally quantified. *)
From Coq Require Import ZArith List Lia Bool Arith.
From Gods Require Import Common.Cmp Common.ListAux Spec.SeqSpec Model.Lists.
From GodsGen Require ArrayListCoreGen.
From GodsGenProofs Require Import GenIterRun GoSlice.
Import ListNotations.
Local Open Scope Z_scope.

Module A := ArrayListCoreGen.

Definition al_rel (g : A.List) (l : list Z) : Prop := sl_wf (A.elements g) /\ sl_list (A.elements g) = l.

Module Names.
Import Coq.Strings.String.
(* OBLIGATION *)
Theorem translated_functions :
  A.translated = ["Add"; "Clear"; "Contains"; "Empty"; "FromJSON"; "Get"; "IndexOf"; "Insert"; "MarshalJSON"; "New"; "Remove"; "Set_"; "Size"; "Swap"; "ToJSON"; "UnmarshalJSON"; "Values"; "growBy"; "resize"; "shrink"; "withinRange"]%string
  /\ A.skipped = ["Sort"; "String"]%string /\ A.not_selected = [].
Proof. repeat split. Qed.
Print Assumptions translated_functions.
End Names.

(* ---------- list lemmas ---------- *)
Lemma skipn_repeat : forall (a : Z) n k, skipn k (repeat a n) = repeat a (n - k).
Proof.
  intros a n. induction n as [|n IH]; intros k; [now destruct k|].
  destruct k as [|k]; cbn [skipn repeat Nat.sub]; [reflexivity|]. apply IH.
Qed.

Lemma map_nth_seq : forall (l : list Z), map (fun i => nth i l 0) (seq 0 (length l)) = l.
Proof.
  intros l. apply (nth_ext _ _ 0 0); [now rewrite map_length, seq_length|].
  intros i Hi. rewrite map_length, seq_length in Hi.
  rewrite (nth_indep _ 0 (nth 0 l 0)) by (now rewrite map_length, seq_length).
  rewrite (map_nth (fun i => nth i l 0) (seq 0 (length l)) 0%nat i). now rewrite seq_nth.
Qed.

Lemma fill_from : forall (f : nat -> Z) base k (acc : list Z), (base + k <= length acc)%nat ->
  fold_left (fun a i => set a (base + i) (f i)) (seq 0 k) acc = firstn base acc ++ map f (seq 0 k) ++ skipn (base + k) acc.
Proof.
  intros f base k. induction k as [|k IH]; intros acc H.
  - cbn [seq fold_left map app]. rewrite Nat.add_0_r. now rewrite firstn_skipn.
  - rewrite seq_S, fold_left_app, map_app. cbn [fold_left map Nat.add]. rewrite IH by lia.
    assert (Hs : exists x rest, skipn (base + k) acc = x :: rest /\ skipn (base + S k) acc = rest).
    { replace (base + S k)%nat with (S (base + k)) by lia.
      assert (H' : (S (base + k) <= length acc)%nat) by lia. revert H'. generalize (base + k)%nat as m.
      clear. intros m. revert acc. induction m as [|m IH]; intros [|x l] Hm; cbn [length] in Hm; try lia.
      - exists x, l. split; reflexivity.
      - cbn [skipn]. apply IH. lia. }
    destruct Hs as (x & rest & -> & ->).
    rewrite app_assoc.
    replace (base + k)%nat with (length (firstn base acc ++ map f (seq 0 k)))
      by (rewrite app_length, firstn_length, map_length, seq_length; lia).
    rewrite <- (Nat.add_0_r (length _)) at 1. rewrite set_app_r. cbn [set].
    rewrite <- !app_assoc. reflexivity.
Qed.

Lemma fold_left_map_ : forall (X B C : Type) (f : X -> B -> X) (g : C -> B) (l : list C) (a : X),
  fold_left f (map g l) a = fold_left (fun a x => f a (g x)) l a.
Proof. intros X B C f g l. induction l as [|x l IH]; intros a; cbn [map fold_left]; auto. Qed.

Lemma fold_left_ext_in_ : forall (X B : Type) (f g : X -> B -> X) (l : list B) (a : X),
  (forall a x, In x l -> f a x = g a x) -> fold_left f l a = fold_left g l a.
Proof.
  intros X B f g l. induction l as [|x l IH]; intros a H; cbn [fold_left]; [reflexivity|].
  rewrite H by (left; reflexivity). apply IH. intros a' y Hy. apply H. now right.
Qed.

(* element-wise stores into the slice of a list record, seen on the live elements *)
Lemma fold_store : forall (F : nat -> Z) (V : nat -> Z) idxs g, sl_wf (A.elements g) ->
  let g' := fold_left (fun g i => A.set_elements g (sl_set (A.elements g) (F i) (V i))) idxs g in
  sl_wf (A.elements g') /\ sl_cap (A.elements g') = sl_cap (A.elements g) /\
  sl_list (A.elements g') = fold_left (fun a i => set a (Z.to_nat (F i)) (V i)) idxs (sl_list (A.elements g)).
Proof.
  intros F V idxs. induction idxs as [|i idxs IH]; intros g Hw; cbn [fold_left]; [auto|].
  destruct (sl_set_spec (A.elements g) (F i) (V i) Hw) as (Hw' & Hl' & _ & Hc').
  specialize (IH (A.set_elements g (sl_set (A.elements g) (F i) (V i)))). cbn [A.set_elements A.elements] in IH.
  destruct (IH Hw') as (H1 & H2 & H3). cbn [A.elements]. repeat split; [exact H1|congruence|].
  rewrite H3, Hl'. reflexivity.
Qed.

Ltac arel H := destruct H as [?Hw ?Hl].

Section Refinement.
Variables (g : A.List) (l : list Z).
Hypothesis Hrel : al_rel g l.

Lemma len_l : sl_len (A.elements g) = zlen l.
Proof. arel Hrel. rewrite <- Hl. now apply sl_len_zlen. Qed.
Lemma slen_l : slen (A.elements g) = length l.
Proof. arel Hrel. rewrite <- Hl. symmetry. now apply sl_list_length. Qed.

(* OBLIGATION *)
Theorem Size_equiv : A.Size g = zlen l.
Proof. exact len_l. Qed.

(* OBLIGATION *)
Theorem Empty_equiv : A.Empty g = (zlen l =? 0).
Proof. unfold A.Empty. now rewrite len_l. Qed.

(* OBLIGATION *)
Theorem withinRange_equiv : forall i, A.withinRange g i = within i l.
Proof. intros i. unfold A.withinRange, within. now rewrite len_l. Qed.

Lemma within_bounds : forall i, within i l = true -> 0 <= i < zlen l.
Proof.
  intros i H. unfold within in H. apply andb_true_iff in H. destruct H as [H0 H1].
  apply Z.leb_le in H0. apply Z.ltb_lt in H1. lia.
Qed.

Lemma get_live : forall i, within i l = true -> sl_get (A.elements g) i = nth (Z.to_nat i) l 0.
Proof.
  intros i H. apply within_bounds in H. arel Hrel. rewrite <- Hl. apply sl_get_nth. rewrite len_l. exact H.
Qed.

(* OBLIGATION *)
Theorem Get_equiv : forall i, A.Get g i = opt_pair (al_get i l).
Proof.
  intros i. unfold A.Get. rewrite withinRange_equiv.
  destruct (within i l) eqn:E; cbn [negb].
  - rewrite (al_get_get l i E), (get_live i E). reflexivity.
  - now rewrite (al_get_none l i E).
Qed.

(* OBLIGATION: resize(n, c) with len <= n <= c keeps the live elements and pads with zeros up to n *)
Theorem resize_spec : forall n c, zlen l <= n <= c ->
  al_rel (fst (A.resize g n c)) (l ++ repeat 0 (Z.to_nat n - length l)) /\ sl_cap (A.elements (fst (A.resize g n c))) = c.
Proof.
  intros n c H. unfold zlen in H. arel Hrel. unfold A.resize, al_rel. cbn [fst A.set_elements A.elements].
  destruct (sl_make_spec n c) as (Mw & Ml & Mc & Mn); [lia|].
  destruct (sl_copy_spec (sl_make n c) (A.elements g) Mw Hw) as (Cw & Cl & Cc & _); [rewrite Mn, slen_l; lia|].
  rewrite Cl, Ml, Hl, slen_l, skipn_repeat, Cc, Mc. auto.
Qed.

(* OBLIGATION: growBy(k) keeps the live elements, adds exactly k slots (zeros or stale hidden slots), and grows
   the capacity to 2 * (cap + k) exactly when len + k >= cap *)
Theorem growBy_spec : forall k, 0 <= k ->
  exists tail, length tail = Z.to_nat k /\ al_rel (fst (A.growBy g k)) (l ++ tail) /\
    sl_cap (A.elements (fst (A.growBy g k))) =
      (if sl_cap (A.elements g) <=? zlen l + k then 2 * (sl_cap (A.elements g) + k) else sl_cap (A.elements g)).
Proof.
  intros k Hk. unfold A.growBy. rewrite len_l.
  assert (Hcap : zlen l <= sl_cap (A.elements g)).
  { rewrite <- len_l. arel Hrel. unfold sl_len, sl_cap, sl_wf in *. lia. }
  assert (Hz : 0 <= zlen l) by (unfold zlen; lia).
  destruct (Z.leb_spec (sl_cap (A.elements g)) (zlen l + k)) as [L|L].
  - destruct (resize_spec (zlen l + k) (2 * (sl_cap (A.elements g) + k))) as [R1 R2]; [lia|].
    destruct (A.resize g (zlen l + k) (2 * (sl_cap (A.elements g) + k))) as [g' u]. cbn [fst] in *.
    exists (repeat 0 (Z.to_nat (zlen l + k) - length l)). rewrite repeat_length.
    split; [unfold zlen; lia|]. split; [exact R1|exact R2].
  - cbn [fst A.set_elements A.elements]. arel Hrel.
    destruct (sl_reslice_longer (A.elements g) (zlen l + k) Hw) as (tail & Ht & Hl'); [rewrite len_l; lia|].
    destruct (sl_reslice_spec (A.elements g) (zlen l + k)) as (Rw & _ & Rc & _); [lia|].
    exists tail. rewrite slen_l in Ht. split; [unfold zlen in Ht; lia|]. split; [|exact Rc].
    split; [exact Rw|]. cbn [A.elements A.set_elements]. now rewrite Hl', Hl.
Qed.

(* OBLIGATION: shrink keeps the live elements; the capacity drops to len exactly when len <= cap / 4 *)
Theorem shrink_spec :
  al_rel (fst (A.shrink g)) l /\
  sl_cap (A.elements (fst (A.shrink g))) =
    (if zlen l <=? Z.quot (sl_cap (A.elements g)) 4 then zlen l else sl_cap (A.elements g)).
Proof.
  unfold A.shrink. rewrite !len_l, Z.mul_1_r.
  destruct (Z.leb_spec (zlen l) (Z.quot (sl_cap (A.elements g)) 4)) as [L|L]; cbn [fst]; [|auto].
  destruct (resize_spec (zlen l) (zlen l)) as [R1 R2]; [lia|].
  destruct (A.resize g (zlen l) (zlen l)) as [g' u]. cbn [fst] in *.
  unfold zlen in R1. rewrite Nat2Z.id, Nat.sub_diag, app_nil_r in R1. auto.
Qed.
End Refinement.

Print Assumptions Size_equiv.
Print Assumptions Empty_equiv.
Print Assumptions withinRange_equiv.
Print Assumptions Get_equiv.
Print Assumptions resize_spec.
Print Assumptions growBy_spec.
Print Assumptions shrink_spec.

(* ---------- the mutators ---------- *)
(* OBLIGATION: Add(values...) = growBy + element-wise copy = append *)
Theorem Add_refines : forall g l vs, al_rel g l -> sl_wf vs ->
  al_rel (fst (A.Add g vs)) (al_add (sl_list vs) l).
Proof.
  intros g l vs Hrel Hvs. unfold A.Add, al_add.
  destruct (growBy_spec g l Hrel (sl_len vs)) as (tail & Ht & [Gw Gl] & _); [unfold sl_len; lia|].
  destruct (A.growBy g (sl_len vs)) as [g1 u]. cbn [fst] in *.
  rewrite (len_l g l Hrel).
  set (n := slen vs). assert (Hn : Z.to_nat (sl_len vs) = n) by (unfold sl_len; lia). rewrite Hn in *.
  rewrite fold_left_map_.
  destruct (fold_store (fun i => zlen l + Z.of_nat i) (fun i => sl_get vs (Z.of_nat i)) (seq 0 n) g1 Gw) as (Fw & _ & Fl).
  cbn zeta in Fw, Fl. split; [exact Fw|]. rewrite Fl, Gl.
  rewrite (fold_left_ext_in_ _ _ _ (fun a i => set a (length l + i) (nth i (sl_list vs) 0))).
  - rewrite fill_from by (rewrite app_length; lia).
    rewrite firstn_app, Nat.sub_diag, firstn_O, app_nil_r, firstn_all.
    rewrite skipn_all2 by (rewrite app_length; lia). rewrite app_nil_r.
    replace n with (length (sl_list vs)) by (now apply sl_list_length). now rewrite map_nth_seq.
  - intros a i Hi. apply in_seq in Hi. unfold zlen. f_equal; [lia|].
    rewrite sl_get_nth by (unfold sl_len; lia). now rewrite Nat2Z.id.
Qed.
Print Assumptions Add_refines.

(* OBLIGATION *)
Theorem Remove_refines : forall g l i, al_rel g l -> al_rel (fst (A.Remove g i)) (al_remove i l).
Proof.
  intros g l i Hrel. unfold A.Remove, al_remove. rewrite (withinRange_equiv g l Hrel).
  destruct (within i l) eqn:E; cbn [negb fst]; [|exact Hrel].
  pose proof (within_bounds l i E) as Hb. destruct Hrel as [Hw Hl].
  destruct (sl_delete_spec (A.elements g) i (i + 1) Hw) as (Dw & Dl & _); [lia|rewrite (len_l g l (conj Hw Hl)); lia|].
  assert (Hrel' : al_rel (A.set_elements g (sl_delete (A.elements g) i (i + 1))) (firstn (Z.to_nat i) l ++ skipn (S (Z.to_nat i)) l)).
  { split; cbn [A.elements A.set_elements]; [exact Dw|]. rewrite Dl, Hl. do 2 f_equal. lia. }
  destruct (shrink_spec _ _ Hrel') as [S1 _].
  destruct (A.shrink (A.set_elements g (sl_delete (A.elements g) i (i + 1)))) as [g' u]. exact S1.
Qed.
Print Assumptions Remove_refines.

Lemma forallb_nth_seq : forall (p : Z -> bool) (l : list Z),
  forallb (fun i => p (nth i l 0)) (seq 0 (length l)) = forallb p l.
Proof.
  intros p l. rewrite <- (map_nth_seq l) at 2. generalize (seq 0 (length l)) as idx.
  induction idx as [|i idx IH]; cbn [map forallb]; [reflexivity|]. now rewrite IH.
Qed.

(* OBLIGATION *)
Theorem Contains_equiv : forall g l vs, al_rel g l -> sl_wf vs -> A.Contains g vs = al_contains (sl_list vs) l.
Proof.
  intros g l vs [Hw Hl] Hvs. unfold A.Contains, al_contains.
  assert (Hn : Z.to_nat (sl_len vs) = length (sl_list vs)) by (rewrite sl_list_length by assumption; unfold sl_len; lia).
  rewrite Hn, <- forallb_nth_seq.
  assert (Hgen : forall idx, (forall i, In i idx -> (i < slen vs)%nat) ->
            A.Contains_loop1 (map Z.of_nat idx) g vs = forallb (fun i => existsb (Z.eqb (nth i (sl_list vs) 0)) l) idx).
  { induction idx as [|i idx IH]; intros Hin; cbn [map A.Contains_loop1 forallb]; [reflexivity|].
    unfold sl_contains. rewrite Hl, sl_get_nth by (unfold sl_len; specialize (Hin i (or_introl eq_refl)); lia).
    rewrite Nat2Z.id. destruct (existsb _ l); cbn [negb andb]; [|reflexivity].
    apply IH. intros j Hj. apply Hin. now right. }
  apply Hgen. intros i Hi. apply in_seq in Hi. rewrite sl_list_length in Hi by assumption. lia.
Qed.
Print Assumptions Contains_equiv.

(* OBLIGATION: Values() returns a slice whose elements are the list's (a copy: aliasing is not modelled) *)
Theorem Values_refines : forall alloc g l, al_rel g l ->
  sl_wf (A.Values alloc g) /\ sl_list (A.Values alloc g) = l.
Proof.
  intros alloc g l [Hw Hl]. unfold A.Values. destruct (sl_clone_spec alloc (A.elements g)) as [C1 C2].
  split; [exact C1|now rewrite C2].
Qed.
Print Assumptions Values_refines.

(* OBLIGATION *)
Theorem IndexOf_equiv : forall g l v, al_rel g l -> A.IndexOf g v = al_index_of v l.
Proof. intros g l v [Hw Hl]. unfold A.IndexOf, sl_index, al_index_of. now rewrite Hl. Qed.
Print Assumptions IndexOf_equiv.

(* OBLIGATION *)
Theorem Clear_refines : forall g l, al_rel g l -> al_rel (fst (A.Clear g)) [].
Proof.
  intros g l [Hw Hl]. unfold A.Clear. cbn [fst A.set_elements A.elements].
  destruct (sl_clear_upto_spec (A.elements g) (sl_cap (A.elements g)) Hw) as (Cw & Cc & _); [unfold sl_cap; lia|].
  destruct (sl_reslice_spec (sl_clear_upto (A.elements g) (sl_cap (A.elements g))) 0) as (Rw & Rl & _); [unfold sl_cap; lia|].
  split; [exact Rw|]. cbn [A.elements A.set_elements]. rewrite Rl. reflexivity.
Qed.
Print Assumptions Clear_refines.

(* OBLIGATION *)
Theorem Swap_refines : forall g l i j, al_rel g l -> al_rel (fst (A.Swap g i j)) (al_swap i j l).
Proof.
  intros g l i j Hrel. unfold A.Swap, al_swap. rewrite !(withinRange_equiv g l Hrel).
  destruct (within i l && within j l) eqn:E; cbn [fst]; [|exact Hrel].
  apply andb_true_iff in E. destruct E as [Ei Ej].
  rewrite (get_live g l Hrel i Ei), (get_live g l Hrel j Ej).
  pose proof (within_bounds l i Ei) as Hi. pose proof (within_bounds l j Ej) as Hj. unfold zlen in Hi, Hj.
  destruct Hrel as [Hw Hl]. cbn [A.set_elements A.elements].
  destruct (sl_set_spec (A.elements g) i (nth (Z.to_nat j) l 0) Hw) as (W1 & L1 & _).
  destruct (sl_set_spec _ j (nth (Z.to_nat i) l 0) W1) as (W2 & L2 & _).
  split; [exact W2|]. cbn [A.set_elements A.elements]. rewrite L2, L1, Hl.
  rewrite (set_upd l) by lia. rewrite set_upd; [reflexivity|].
  unfold upd. rewrite app_length, firstn_length. cbn [length]. rewrite skipn_length. lia.
Qed.
Print Assumptions Swap_refines.

(* OBLIGATION *)
Theorem Set_refines : forall g l i v, al_rel g l -> al_rel (fst (A.Set_ g i v)) (al_set i v l).
Proof.
  intros g l i v Hrel. unfold A.Set_, al_set. rewrite (withinRange_equiv g l Hrel), (len_l g l Hrel).
  destruct (within i l) eqn:E; cbn [negb fst].
  - pose proof (within_bounds l i E) as Hi. unfold zlen in Hi. destruct Hrel as [Hw Hl].
    cbn [A.set_elements A.elements].
    destruct (sl_set_spec (A.elements g) i v Hw) as (W1 & L1 & _). split; [exact W1|].
    cbn [A.set_elements A.elements]. rewrite L1, Hl. apply set_upd. lia.
  - destruct (i =? zlen l); [|exact Hrel].
    pose proof (Add_refines g l (sl_of_list [v]) Hrel (proj2 (sl_of_list_list [v]))) as HA.
    rewrite (proj1 (sl_of_list_list [v])) in HA.
    destruct (A.Add g (sl_of_list [v])) as [g' u]. exact HA.
Qed.
Print Assumptions Set_refines.

(* OBLIGATION: Insert = growBy, then slices.Insert into the re-shortened slice (in place: the capacity suffices) *)
Theorem Insert_refines : forall alloc g l i vs, al_rel g l -> sl_wf vs ->
  al_rel (fst (A.Insert alloc g i vs)) (al_insert i (sl_list vs) l).
Proof.
  intros alloc g l i vs Hrel Hvs. unfold A.Insert, al_insert. rewrite (withinRange_equiv g l Hrel), (len_l g l Hrel).
  destruct (within i l) eqn:E; cbn [negb fst].
  - pose proof (within_bounds l i E) as Hi.
    destruct (growBy_spec g l Hrel (sl_len vs)) as (tail & Ht & [Gw Gl] & _); [unfold sl_len; lia|].
    destruct (A.growBy g (sl_len vs)) as [g1 u]. cbn [fst A.set_elements A.elements] in *.
    assert (Hre : sl_list (sl_reslice (A.elements g1) (zlen l)) = l).
    { rewrite sl_reslice_shorter.
      - rewrite Gl. unfold zlen. rewrite Nat2Z.id, firstn_app, Nat.sub_diag, firstn_O, app_nil_r. apply firstn_all.
      - rewrite (sl_len_zlen _ Gw), Gl. unfold zlen. rewrite app_length. lia. }
    destruct (sl_insert_spec alloc (sl_reslice (A.elements g1) (zlen l)) i vs) as [I1 I2].
    split; [exact I1|]. cbn [A.set_elements A.elements]. rewrite I2, Hre. reflexivity.
  - destruct (i =? zlen l); [|exact Hrel].
    pose proof (Add_refines g l vs Hrel Hvs) as HA. destruct (A.Add g vs) as [g' u]. exact HA.
Qed.
Print Assumptions Insert_refines.

(* OBLIGATION *)
Theorem New_refines : forall vs, sl_wf vs -> al_rel (A.New vs) (sl_list vs).
Proof.
  intros vs Hvs. unfold A.New.
  assert (H0 : al_rel (A.mkList sl_nil) []) by (split; apply sl_nil_list).
  destruct (Z.ltb_spec 0 (sl_len vs)) as [L|L].
  - pose proof (Add_refines _ _ vs H0 Hvs) as HA. destruct (A.Add (A.mkList sl_nil) vs) as [g' u]. exact HA.
  - assert (Hl : sl_list vs = []).
    { unfold sl_list, sl_len in *. replace (slen vs) with 0%nat by lia. reflexivity. }
    rewrite Hl. exact H0.
Qed.
Print Assumptions New_refines.

(* ====================== runs of the generated methods against the machine ====================== *)
From Gods Require Import Model.Ops Model.Machine.
From Gods Require Import Proofs.C05Proofs.      (* run_snoc *)

Inductive gop := GAdd (vs : list Z) | GInsert (i : Z) (vs : list Z) | GSet (i v : Z) | GRemove (i : Z) | GSwap (i j : Z) | GClear.
Definition gen_step (alloc : Z -> Z) (g : A.List) (o : gop) : A.List :=
  match o with
  | GAdd vs => fst (A.Add g (sl_of_list vs))
  | GInsert i vs => fst (A.Insert alloc g i (sl_of_list vs))
  | GSet i v => fst (A.Set_ g i v)
  | GRemove i => fst (A.Remove g i)
  | GSwap i j => fst (A.Swap g i j)
  | GClear => fst (A.Clear g)
  end.
Definition gen_run (alloc : Z -> Z) (g : A.List) (ops : list gop) : A.List := fold_left (gen_step alloc) ops g.
Definition to_op (o : gop) : op :=
  match o with
  | GAdd vs => Add vs | GInsert i vs => Insert i vs | GSet i v => SetAt i v
  | GRemove i => RemoveAt i | GSwap i j => Swap i j | GClear => Clear
  end.

(* OBLIGATION: whatever the runtime's allocation policy, a run of the generated ArrayList methods from New() is
   in lock-step with the machine's run (kind ArrayList), and the generated observers return what the model's
   observers return on the machine's state *)
Theorem gen_run_simulates : forall alloc c, ckind c = ArrayList -> forall ops,
  let g := gen_run alloc (A.New sl_nil) ops in
  exists l, run c (map to_op ops) = StSeq l /\ al_rel g l /\
    A.Size g = size_of c (StSeq l) /\ sl_list (A.Values alloc g) = values_of c (StSeq l) /\
    (forall i, A.Get g i = opt_pair (al_get i l)) /\ (forall v, A.IndexOf g v = al_index_of v l) /\
    (forall vs, A.Contains g (sl_of_list vs) = al_contains vs l).
Proof.
  intros alloc c Hk ops g.
  assert (H : exists l, run c (map to_op ops) = StSeq l /\ al_rel g l).
  { subst g. induction ops as [|o ops IH] using rev_ind.
    - exists []. split; [unfold run, run_from, init; cbn [map fold_left]; now rewrite Hk|].
      exact (New_refines sl_nil (proj2 sl_nil_list)).
    - destruct IH as (l & Hrun & Hrel). rewrite map_app. cbn [map]. rewrite run_snoc, Hrun.
      unfold gen_run. rewrite fold_left_app. cbn [fold_left]. fold (gen_run alloc (A.New sl_nil) ops).
      destruct o as [vs|i vs|i v|i|i j|]; cbn [to_op gen_step]; unfold step, add_values, init; rewrite Hk; cbn [fst].
      + eexists. split; [reflexivity|].
        rewrite <- (proj1 (sl_of_list_list vs)) at 2. apply Add_refines; [exact Hrel|apply sl_of_list_list].
      + eexists. split; [reflexivity|].
        rewrite <- (proj1 (sl_of_list_list vs)) at 2. apply Insert_refines; [exact Hrel|apply sl_of_list_list].
      + eexists. split; [reflexivity|]. now apply Set_refines.
      + eexists. split; [reflexivity|]. now apply Remove_refines.
      + eexists. split; [reflexivity|]. now apply Swap_refines.
      + eexists. split; [reflexivity|]. exact (Clear_refines _ l Hrel). }
  destruct H as (l & Hrun & Hrel). exists l.
  refine (conj Hrun (conj Hrel (conj _ (conj _ (conj _ (conj _ _)))))).
  - exact (Size_equiv _ l Hrel).
  - unfold values_of. rewrite Hk. exact (proj2 (Values_refines alloc _ l Hrel)).
  - intros i. exact (Get_equiv _ l Hrel i).
  - intros v. exact (IndexOf_equiv _ l v Hrel).
  - intros vs. rewrite (Contains_equiv _ l (sl_of_list vs) Hrel (proj2 (sl_of_list_list vs))).
    now rewrite (proj1 (sl_of_list_list vs)).
Qed.
Print Assumptions gen_run_simulates.
