(* maps/hashmap/hashmap.go regenerated over GoMap.v (GodsGen.HashMapGen) against Model/Machine.v for a StHMap
   state: Put / Remove / Clear = step, Get = get_of, Size = size_of; Keys() / Values() collect the entries in the
   order of the parameter map_order (Go leaves the iteration order unspecified): for ANY enumeration that is a
   permutation of the entries they are permutations of the model's keys_of / values_of. *)
From Coq Require Import ZArith List Lia Bool Arith Permutation.
From Gods Require Import Common.Cmp Common.ListAux Spec.SeqSpec Model.Ops Model.Machine.
From Gods Require Import Proofs.C05Proofs.
From GodsGen Require HashMapGen.
From GodsGenProofs Require Import GenIterRun WrapCommon GoMap.
From GodsGenProofs Require GoSlice.
Import ListNotations.
Local Open Scope Z_scope.

Module H := HashMapGen.

Module Names.
Import Coq.Strings.String.
(* OBLIGATION *)
Theorem translated_functions :
  H.translated = ["Clear"; "Empty"; "FromJSON"; "Get"; "Keys"; "MarshalJSON"; "New"; "Put"; "Remove"; "Size"; "ToJSON"; "UnmarshalJSON"; "Values"]%string
  /\ H.skipped = ["String"]%string /\ H.not_selected = [].
Proof. repeat split. Qed.
Print Assumptions translated_functions.
End Names.

(* the collecting loop of Keys() / Values() / HashSet.Values(): arr[count] = f entry; count++ *)
Lemma collect_fold : forall (f : Z * Z -> Z) (es : list (Z * Z)) (pre rest : list Z), (length es <= length rest)%nat ->
  fold_left (fun '(arr, count) (kv : Z * Z) => (set arr (Z.to_nat count) (f kv), count + 1)) es (pre ++ rest, Z.of_nat (length pre))
  = (pre ++ map f es ++ skipn (length es) rest, Z.of_nat (length pre + length es)).
Proof.
  intros f es. induction es as [|e es IH]; intros pre rest H; cbn [fold_left map length skipn app].
  - now rewrite Nat.add_0_r.
  - destruct rest as [|r rest]; cbn [length] in H; [lia|].
    rewrite Nat2Z.id. rewrite <- (Nat.add_0_r (length pre)) at 1. rewrite GoSlice.set_app_r. cbn [set].
    replace (pre ++ f e :: rest) with ((pre ++ [f e]) ++ rest) by (now rewrite <- app_assoc).
    replace (Z.of_nat (length pre) + 1) with (Z.of_nat (length (pre ++ [f e]))) by (rewrite app_length; cbn [length]; lia).
    rewrite IH by lia. rewrite <- app_assoc. cbn [app skipn]. f_equal. rewrite app_length. cbn [length]. lia.
Qed.

Lemma collect_all : forall (f : Z * Z -> Z) (es : list (Z * Z)) n, n = length es ->
  fst (fold_left (fun '(arr, count) (kv : Z * Z) => (set arr (Z.to_nat count) (f kv), count + 1)) es (repeat 0 n, 0)) = map f es.
Proof.
  intros f es n ->. pose proof (collect_fold f es [] (repeat 0 (length es))) as H. cbn [app length Z.of_nat] in H.
  rewrite H by (rewrite repeat_length; lia). cbn [fst].
  rewrite skipn_all2 by (rewrite repeat_length; lia). now rewrite app_nil_r.
Qed.

Section Equiv.
Variable c : config.
Notation content g := (H.m g).

(* OBLIGATION *)
Theorem New_equiv : ckind c = HashMap -> init c = StHMap (content H.New).
Proof. intros Hk. unfold init. now rewrite Hk. Qed.

(* OBLIGATION *)
Theorem Put_equiv : forall g k v,
  step c (StHMap (content g)) (Put k v) = (StHMap (content (fst (H.Put g k v))), ounit, onone).
Proof. intros [l] k v. reflexivity. Qed.

(* OBLIGATION *)
Theorem Remove_equiv : forall g k,
  step c (StHMap (content g)) (Remove k) = (StHMap (content (fst (H.Remove g k))), ounit, onone).
Proof. intros [l] k. reflexivity. Qed.

(* OBLIGATION *)
Theorem Clear_equiv : ckind c = HashMap -> forall g,
  step c (StHMap (content g)) Clear = (StHMap (content (fst (H.Clear g))), ounit, onone).
Proof. intros Hk [l]. unfold step, init. now rewrite Hk. Qed.

(* OBLIGATION *)
Theorem Get_equiv : forall g k, get_of c (StHMap (content g)) k = obs_pair (H.Get g k).
Proof.
  intros [l] k. unfold get_of, H.Get, gm_lookup. cbn [H.m].
  destruct (hget k l) as [v|]; reflexivity.
Qed.

(* OBLIGATION *)
Theorem Size_equiv : forall g, H.Size g = size_of c (StHMap (content g)).
Proof. intros [l]. reflexivity. Qed.

(* OBLIGATION *)
Theorem Empty_equiv : forall g, H.Empty g = (size_of c (StHMap (content g)) =? 0).
Proof. intros [l]. reflexivity. Qed.

(* OBLIGATION: Keys() lists the keys in the enumeration's order *)
Theorem Keys_equiv : forall mo g, length (mo (content g)) = length (content g) ->
  H.Keys mo g = map fst (mo (content g)).
Proof.
  intros mo [l] Hlen. unfold H.Keys, H.Size, gm_len, zlen. cbn [H.m] in *. rewrite Nat2Z.id.
  cbv zeta.
  match goal with |- (let '(a, _) := ?X in a) = _ => transitivity (fst X); [destruct X; reflexivity|] end.
  exact (collect_all fst (mo l) (length l) (eq_sym Hlen)).
Qed.

(* OBLIGATION *)
Theorem Values_equiv : forall mo g, length (mo (content g)) = length (content g) ->
  H.Values mo g = map snd (mo (content g)).
Proof.
  intros mo [l] Hlen. unfold H.Values, H.Size, gm_len, zlen. cbn [H.m] in *. rewrite Nat2Z.id.
  cbv zeta.
  match goal with |- (let '(a, _) := ?X in a) = _ => transitivity (fst X); [destruct X; reflexivity|] end.
  exact (collect_all snd (mo l) (length l) (eq_sym Hlen)).
Qed.

(* OBLIGATION: whatever order `range` uses, Keys() / Values() are the model's keys / values up to order *)
Theorem Keys_Values_any_order : forall mo g, Permutation (mo (content g)) (content g) ->
  Permutation (H.Keys mo g) (keys_of c (StHMap (content g))) /\
  Permutation (H.Values mo g) (values_of c (StHMap (content g))) /\
  (forall k, In k (H.Keys mo g) <-> In k (keys_of c (StHMap (content g)))).
Proof.
  intros mo g HP. pose proof (Permutation_length HP) as HL.
  rewrite (Keys_equiv mo g HL), (Values_equiv mo g HL).
  assert (HK : Permutation (map fst (mo (content g))) (keys_of c (StHMap (content g)))).
  { unfold keys_of, entries_of. now apply Permutation_map. }
  refine (conj HK (conj _ _)).
  - unfold values_of. now apply Permutation_map.
  - intros k. split; intros Hin; [exact (Permutation_in k HK Hin)|exact (Permutation_in k (Permutation_sym HK) Hin)].
Qed.
End Equiv.

Print Assumptions New_equiv.
Print Assumptions Put_equiv.
Print Assumptions Remove_equiv.
Print Assumptions Clear_equiv.
Print Assumptions Get_equiv.
Print Assumptions Size_equiv.
Print Assumptions Empty_equiv.
Print Assumptions Keys_equiv.
Print Assumptions Values_equiv.
Print Assumptions Keys_Values_any_order.

(* ---------- runs ---------- *)
Inductive gop := GPut (k v : Z) | GRemove (k : Z) | GClear.
Definition gen_step (g : H.Map) (o : gop) : H.Map :=
  match o with GPut k v => fst (H.Put g k v) | GRemove k => fst (H.Remove g k) | GClear => fst (H.Clear g) end.
Definition gen_run (ops : list gop) : H.Map := fold_left gen_step ops H.New.
Definition to_op (o : gop) : op := match o with GPut k v => Put k v | GRemove k => Remove k | GClear => Clear end.

(* OBLIGATION *)
Theorem gen_run_simulates : forall c, ckind c = HashMap -> forall ops,
  run c (map to_op ops) = StHMap (H.m (gen_run ops)).
Proof.
  intros c Hk ops. induction ops as [|o ops IH] using rev_ind.
  - unfold run, run_from. cbn [map fold_left]. exact (New_equiv c Hk).
  - rewrite map_app. cbn [map]. rewrite run_snoc, IH. unfold gen_run. rewrite fold_left_app. cbn [fold_left].
    fold (gen_run ops). destruct o as [k v|k|]; cbn [to_op gen_step].
    + now rewrite Put_equiv.
    + now rewrite Remove_equiv.
    + now rewrite (Clear_equiv c Hk).
Qed.
Print Assumptions gen_run_simulates.
