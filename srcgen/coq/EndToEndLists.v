(* END-TO-END COROLLARIES (properties C03 and, for the lists, C15 of /verif/coq/theories/Properties) stated directly about runs of
   GENERATED code: the generated capacity-aware ArrayList core (ArrayListCoreProofs.v, for every allocation policy) and the generated
   pointer code of the singly and doubly linked lists (SinglyLinkedListCellsProofs.v / DoublyLinkedListCellsProofs.v), for ALL lists of
   the operations the three share (Add, Insert, Set, Remove, Swap, Clear) from the generated New(): the three GENERATED implementations
   never fail and compute the same abstract sequence [seq_run] (one kind-independent fold of the history); Get / IndexOf / Contains /
   Size / Empty / Values answer from that sequence: the three are interchangeable.  No hypothesis at all. *)
From Coq Require Import ZArith List Lia Bool Arith.
From Gods Require Import Common.Cmp Common.ListAux Spec.SeqSpec Model.Ops Model.Lists Model.Machine Model.LinkedCells.
From Gods Require Import Proofs.C03Proofs Proofs.ListsProofs.
From GodsGen Require ArrayListCoreGen SinglyLinkedListCellsGen DoublyLinkedListCellsGen.
From GodsGenProofs Require Import GoSlice GenIterRun.
From GodsGenProofs Require ArrayListCoreProofs SinglyLinkedListCellsProofs DoublyLinkedListCellsProofs.
Import ListNotations.
Local Open Scope Z_scope.

Module AP := ArrayListCoreProofs.
Module SP := SinglyLinkedListCellsProofs.
Module DP := DoublyLinkedListCellsProofs.
Module A := ArrayListCoreGen.
Module SL := SinglyLinkedListCellsGen.
Module DL := DoublyLinkedListCellsGen.

(* the operations the three lists share *)
Inductive cop := CAdd (vs : list Z) | CInsert (i : Z) (vs : list Z) | CSet (i v : Z) | CRemove (i : Z) | CSwap (i j : Z) | CClear.
Definition to_a (o : cop) : AP.gop := match o with CAdd vs => AP.GAdd vs | CInsert i vs => AP.GInsert i vs | CSet i v => AP.GSet i v | CRemove i => AP.GRemove i | CSwap i j => AP.GSwap i j | CClear => AP.GClear end.
Definition to_s (o : cop) : SP.gop := match o with CAdd vs => SP.GAdd vs | CInsert i vs => SP.GInsert i vs | CSet i v => SP.GSet i v | CRemove i => SP.GRemove i | CSwap i j => SP.GSwap i j | CClear => SP.GClear end.
Definition to_d (o : cop) : DP.gop := match o with CAdd vs => DP.GAdd vs | CInsert i vs => DP.GInsert i vs | CSet i v => DP.GSet i v | CRemove i => DP.GRemove i | CSwap i j => DP.GSwap i j | CClear => DP.GClear end.
Definition m_op (o : cop) : op := match o with CAdd vs => Add vs | CInsert i vs => Insert i vs | CSet i v => SetAt i v | CRemove i => RemoveAt i | CSwap i j => Swap i j | CClear => Clear end.
Definition abs (ops : list cop) : list Z := seq_run (map m_op ops).

Lemma maps : forall ops, map AP.to_op (map to_a ops) = map m_op ops /\ map SP.to_op (map to_s ops) = map m_op ops /\ map DP.to_op (map to_d ops) = map m_op ops.
Proof. intros ops. repeat split; rewrite map_map; apply map_ext; intros [vs|i vs|i v|i|i j|]; reflexivity. Qed.

Definition al_cfg : config := {| ckind := ArrayList; kcmp := CNat; vcmp := CNat; ccap := 0; corder := 3; cuni := 3 |}.

(* OBLIGATION (C03 + C15 for the lists) *)
Theorem gen_lists_interchangeable : forall alloc ops, let l := abs ops in
  (let g := AP.gen_run alloc (A.New sl_nil) (map to_a ops) in
   sl_wf (A.elements g) /\ sl_list (A.elements g) = l /\ sl_list (A.Values alloc g) = l /\ A.Size g = zlen l /\ A.Empty g = (zlen l =? 0) /\
   (forall i, A.Get g i = opt_pair (seq_get i l)) /\ (forall v, A.IndexOf g v = seq_index_of v l) /\
   (forall vs, A.Contains g (sl_of_list vs) = seq_contains vs l)) /\
  (exists d, SP.gen_run (map to_s ops) = Some d /\ SL.Values d = Some l /\ SL.Size d = Some (zlen l) /\ SL.Empty d = Some (zlen l =? 0) /\
   (forall i, SL.Get d i = Some (opt_pair (seq_get i l))) /\ (forall v, SL.IndexOf d v = Some (seq_index_of v l)) /\
   (forall vs, SL.Contains d vs = Some (seq_contains vs l))) /\
  (exists d, DP.gen_run (map to_d ops) = Some d /\ DL.Values d = Some l /\ DL.Size d = Some (zlen l) /\ DL.Empty d = Some (zlen l =? 0) /\
   (forall i, DL.Get d i = Some (opt_pair (seq_get i l))) /\ (forall v, DL.IndexOf d v = Some (seq_index_of v l)) /\
   (forall vs, DL.Contains d vs = Some (seq_contains vs l))) /\
  0 <= zlen l.
Proof.
  intros alloc ops l. destruct (maps ops) as (Ma & Ms & Md). split; [|split; [|split]].
  - intro g. destruct (AP.gen_run_simulates alloc al_cfg eq_refl (map to_a ops)) as (l0 & Hrun & Hrel & HS & HV & HG & HI & HC). fold g in Hrel, HS, HV, HG, HI, HC.
    assert (E : l0 = l).
    { pose proof (C03_run_is_seq_run al_cfg (map AP.to_op (map to_a ops)) eq_refl) as H. rewrite Hrun, Ma in H. cbn [values_of al_cfg ckind] in H.
      apply H. clear. induction ops as [|[vs|i vs|i v|i|i j|] ops IH]; cbn; auto. }
    subst l0. destruct Hrel as [Hw Hl]. split; [exact Hw|]. split; [exact Hl|]. split; [exact HV|]. split; [exact HS|].
    split; [exact (AP.Empty_equiv g l (conj Hw Hl))|]. split; [intro i; rewrite HG, al_get_eq; reflexivity|].
    split; [exact HI|exact HC].
  - destruct (SP.gen_observers_ok (map to_s ops)) as (d & Hd & O). rewrite Ms in O. cbv zeta in O. fold (abs ops) in O. fold l in O.
    destruct O as (O1 & O2 & O3 & O4 & O5 & O6). exists d. split; [exact Hd|]. split; [exact O3|]. split; [exact O1|]. split; [exact O2|].
    split; [intro i; rewrite O6; cbn [SP.lift_get]; destruct (seq_get i l); reflexivity|]. split; [exact O5|exact O4].
  - destruct (DP.gen_observers_ok (map to_d ops)) as (d & Hd & O). rewrite Md in O. cbv zeta in O. fold (abs ops) in O. fold l in O.
    destruct O as (O1 & O2 & O3 & O4 & O5 & O6). exists d. split; [exact Hd|]. split; [exact O3|]. split; [exact O1|]. split; [exact O2|].
    split; [intro i; rewrite O6; cbn [DP.lift_get]; destruct (seq_get i l); reflexivity|]. split; [exact O5|exact O4].
  - unfold zlen. lia.
Qed.
Print Assumptions gen_lists_interchangeable.

(* non-vacuity: the three generated implementations, run by the kernel *)
Lemma lists_nonvacuous :
  let ops := [CAdd [1; 2; 3]; CInsert 1 [9]; CRemove 0; CSwap 0 2; CSet 1 7] in
  abs ops = [3; 7; 9] /\
  sl_list (A.elements (AP.gen_run (fun n => n) (A.New sl_nil) (map to_a ops))) = [3; 7; 9] /\
  match SP.gen_run (map to_s ops) with Some d => SL.Values d = Some [3; 7; 9] | None => False end /\
  match DP.gen_run (map to_d ops) with Some d => DL.Values d = Some [3; 7; 9] | None => False end.
Proof. vm_compute. repeat split. Qed.
