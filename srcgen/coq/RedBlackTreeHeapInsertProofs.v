(* Put of trees/redblacktree/redblacktree.go in TREE POINTER MODE (GodsGen.RedBlackTreeHeapGen) against the model's RB.put:
   the descent loop with its comparator calls, the allocation and linking of the red leaf (or the overwrite of an equal key),
   and the bottom-up fix-up insertCase1..5 (mutual recursion on fuel, uncle / grandparent / sibling through the Parent
   pointers, recolouring, the two rotations) on a represented tree.  See [Put_correct] at the end. *)
From Coq Require Import ZArith List Lia Bool Arith Permutation.
From Gods Require Import Common.Cmp Model.RBTree.
From GodsGenProofs Require Import GoCmp GoTreeHeap RBTreeHeapRep RedBlackTreeHeapInsertModel RedBlackTreeHeapRotProofs.
From GodsGen Require RedBlackTreeHeapGen.
Import ListNotations.
Local Open Scope Z_scope.

(* ---------- parent pointers along a path ---------- *)
Fixpoint pptr_from (pp : ptr) (t : ptree) (q : list RB.side) {struct q} : ptr :=
  match q with
  | [] => pp
  | d :: q' => match t with PE => None | PT a _ l _ _ r => pptr_from (Some a) (pchild d l r) q' end
  end.

Lemma rep_sub : forall q h pp t, rep h pp t -> rep h (pptr_from pp t q) (pget t q).
Proof.
  induction q as [|d q IH]; intros h pp t H; [exact H|]. cbn [pptr_from pget].
  destruct t as [|a c l k v r]; [exact I|]. simpl in H. destruct H as (_ & Hl & Hr).
  destruct d; cbn [pchild]; now apply IH.
Qed.
Lemma pptr_pupd : forall q pp t s, pvalid t q -> pptr_from pp (pupd t q s) q = pptr_from pp t q.
Proof.
  induction q as [|d q IH]; intros pp t s H; [reflexivity|]. cbn [pptr_from pupd pvalid] in *.
  destruct t as [|a c l k v r]; [contradiction|]. destruct d; cbn [pptr_from pchild] in *; now apply IH.
Qed.

(* the state of a tree header + heap that represents T *)
Definition tree_inv (h : heap G.Node) (tr : G.Tree) (T : ptree) : Prop :=
  rep h None T /\ NoDup (addrs T) /\ G.Tree_Root tr = root_ptr T.

(* one update step: T becomes T' in place (same addresses), nothing else is touched *)
Definition upd_ok (h : heap G.Node) (tr : G.Tree) (T : ptree) (h' : heap G.Node) (tr' : G.Tree) (T' : ptree) : Prop :=
  tree_inv h' tr' T' /\ G.Tree_size tr' = G.Tree_size tr /\ G.Tree_Comparator tr' = G.Tree_Comparator tr /\
  (forall y, ~ In y (addrs T) -> hread h' y = hread h y) /\ hnext h' = hnext h /\
  (forall y, In y (addrs T') -> In y (addrs T)).

Lemma upd_ok_refl : forall h tr T, tree_inv h tr T -> upd_ok h tr T h tr T.
Proof. intros. repeat split; auto; apply H. Qed.
Lemma upd_ok_trans : forall h tr T h1 tr1 T1 h2 tr2 T2,
  upd_ok h tr T h1 tr1 T1 -> upd_ok h1 tr1 T1 h2 tr2 T2 -> upd_ok h tr T h2 tr2 T2.
Proof.
  intros h tr T h1 tr1 T1 h2 tr2 T2 (I1 & S1 & C1 & F1 & N1 & A1) (I2 & S2 & C2 & F2 & N2 & A2).
  split; [exact I2|]. split; [congruence|]. split; [congruence|]. split.
  - intros y Hy. rewrite F2; [apply F1; exact Hy|]. intro Hy1. apply Hy. now apply A1.
  - split; [congruence|]. intros y Hy. apply A1. now apply A2.
Qed.

(* facts about the subtree at a valid path *)
Lemma inv_sub : forall h tr T Q G, tree_inv h tr (pupd T Q G) -> pvalid T Q -> G <> PE ->
  rep h (pptr_from None T Q) G /\ NoDup (addrs G).
Proof.
  intros h tr T Q G (Hrep & Hnd & _) Hv Hne. split.
  - pose proof (rep_sub Q h None _ Hrep) as H. rewrite pget_pupd_valid, pptr_pupd in H by exact Hv. exact H.
  - eapply (psub_nodup Q); [exact Hnd|]. rewrite <- (pget_pupd_valid Q T G Hv) at 2. apply pget_psub.
    rewrite pget_pupd_valid by exact Hv. exact Hne.
Qed.

Lemma pupd_sub : forall T Q G r X, pvalid T Q -> pupd (pupd T Q G) (Q ++ r) X = pupd T Q (pupd G r X).
Proof. intros. rewrite pupd_app_get, pget_pupd_valid, pupd_pupd by assumption. reflexivity. Qed.
Lemma pget_sub : forall T Q G r, pvalid T Q -> pget (pupd T Q G) (Q ++ r) = pget G r.
Proof. intros. rewrite pget_app, pget_pupd_valid by assumption. reflexivity. Qed.

(* ---------- recolouring the node at a path ---------- *)
Lemma recolor_at : forall h tr T q a c l k v r c',
  tree_inv h tr T -> pget T q = PT a c l k v r ->
  exists h', store h (Some a) (G.Node_with_color (colb c')) = Some h' /\
             upd_ok h tr T h' tr (pupd T q (PT a c' l k v r)).
Proof.
  intros h tr T q a c l k v r c' (Hrep & Hnd & Hroot) Hg.
  assert (Hs : psub T q = Some (PT a c l k v r)) by (rewrite <- Hg; apply pget_psub; rewrite Hg; discriminate).
  destruct (rep_psub _ _ _ _ _ Hrep Hs) as (pps & Hrs).
  pose proof (rep_root_deref _ _ _ _ _ _ _ _ Hrs) as Hd. cbn [deref] in Hd.
  exists (hset h a (G.Node_with_color (colb c') (node_of pps c l k v r))). split; [apply store_hset; exact Hd|].
  destruct (rep_pupd_same_root h (hset h a (G.Node_with_color (colb c') (node_of pps c l k v r))) (PT a c l k v r) (PT a c' l k v r) q T None Hrep Hnd Hs)
    as (R1 & R2 & R3 & R4); auto.
  - exact (psub_nodup _ _ _ Hnd Hs).
  - intros pps0 Hr0. pose proof (rep_root_deref _ _ _ _ _ _ _ _ Hr0) as Hd0. cbn [deref] in Hd0. rewrite Hd in Hd0. injection Hd0 as E.
    assert (pps0 = pps) by (unfold node_of in E; congruence). subst pps0.
    pose proof (psub_nodup _ _ _ Hnd Hs) as Hnds. destruct (nodup_root_children _ _ _ _ _ _ Hnds) as (Dl & Dr).
    simpl in Hr0. destruct Hr0 as (_ & Hl & Hr). cbn [rep]. split; [rewrite hread_hset, Nat.eqb_refl; reflexivity|]. split.
    + eapply rep_frame; [|exact Hl]. intros y Hy. rewrite hread_hset. specialize (Dl y Hy). now eqb_simpl.
    + eapply rep_frame; [|exact Hr]. intros y Hy. rewrite hread_hset. specialize (Dr y Hy). now eqb_simpl.
  - intros y Hy Hny. rewrite hread_hset. assert (y <> a) by (intros ->; apply Hny; now left). now eqb_simpl.
  - split; [split; [exact R1|split; [exact R2|now rewrite R4]]|]. split; [reflexivity|]. split; [reflexivity|]. split.
    + intros y Hy. rewrite hread_hset. assert (y <> a) by (intros ->; apply Hy; eapply psub_addrs; [exact Hs|now left]). now eqb_simpl.
    + split; [reflexivity|exact R3].
Qed.

(* ---------- the rotations, at a path, as update steps ---------- *)
Lemma rotateLeft_at : forall h tr T q a c l k v x c' rl rk rv rr,
  tree_inv h tr T -> pget T q = PT a c l k v (PT x c' rl rk rv rr) ->
  exists h' tr', G.rotateLeft h tr (Some a) = Some (h', tr') /\
                 upd_ok h tr T h' tr' (pupd T q (PT x c' (PT a c l k v rl) rk rv rr)).
Proof.
  intros h tr T q a c l k v x c' rl rk rv rr (Hrep & Hnd & Hroot) Hg.
  assert (Hs : psub T q = Some (PT a c l k v (PT x c' rl rk rv rr))) by (rewrite <- Hg; apply pget_psub; rewrite Hg; discriminate).
  destruct (rotateLeft_correct h tr T q a c l k v x c' rl rk rv rr Hrep Hnd Hroot Hs) as (h' & tr' & Hrun & R1 & R2 & R3 & R4 & R5 & R6 & R7 & R8 & _).
  exists h', tr'. split; [exact Hrun|]. repeat split; assumption.
Qed.
Lemma rotateRight_at : forall h tr T q a c k v r x c' ll lk lv lr,
  tree_inv h tr T -> pget T q = PT a c (PT x c' ll lk lv lr) k v r ->
  exists h' tr', G.rotateRight h tr (Some a) = Some (h', tr') /\
                 upd_ok h tr T h' tr' (pupd T q (PT x c' ll lk lv (PT a c lr k v r))).
Proof.
  intros h tr T q a c k v r x c' ll lk lv lr (Hrep & Hnd & Hroot) Hg.
  assert (Hs : psub T q = Some (PT a c (PT x c' ll lk lv lr) k v r)) by (rewrite <- Hg; apply pget_psub; rewrite Hg; discriminate).
  destruct (rotateRight_correct h tr T q a c k v r x c' ll lk lv lr Hrep Hnd Hroot Hs) as (h' & tr' & Hrun & R1 & R2 & R3 & R4 & R5 & R6 & R7 & R8 & _).
  exists h', tr'. split; [exact Hrun|]. repeat split; assumption.
Qed.

(* ---------- reading through a represented tree ---------- *)
Ltac rsim := repeat first
  [ progress cbv beta iota
  | match goal with |- context [deref ?h (Some ?a)] => change (deref h (Some a)) with (hread h a) end
  | match goal with H : hread ?h ?a = Some _ |- context [hread ?h ?a] => rewrite H end
  | match goal with H : ptr_eqb ?p ?q = _ |- context [ptr_eqb ?p ?q] => rewrite H end
  | rewrite ptr_eqb_refl
  | progress cbn [node_of root_ptr G.Node_Parent G.Node_Left G.Node_Right G.Node_Key G.Node_Value G.Node_color is_nil negb andb orb] ].

Lemma nodeColor_rep : forall h pp s, rep h pp s -> G.nodeColor h (root_ptr s) = Some (colb (pcol s)).
Proof.
  intros h pp [|a c l k v r] H; [reflexivity|]. unfold G.nodeColor. cbn [root_ptr is_nil].
  rewrite (rep_root_deref _ _ _ _ _ _ _ _ H). reflexivity.
Qed.

Lemma bind_eta : forall (A B : Type) (X : option (A * B)),
  match X with Some (a, b) => Some (a, b) | None => None end = X.
Proof. intros A B [[a b]|]; reflexivity. Qed.

Lemma ptr_neq_root : forall a c l k v r x, NoDup (addrs (PT a c l k v r)) ->
  (root_ptr l = Some x -> x <> a) /\ (root_ptr r = Some x -> x <> a).
Proof.
  intros a c l k v r x H. destruct (nodup_root_children _ _ _ _ _ _ H) as (Dl & Dr).
  split; intro E; [apply Dl|apply Dr]; now apply in_addrs_root.
Qed.

Lemma sib_l : forall a c l k v r x, NoDup (addrs (PT a c l k v r)) -> root_ptr l = Some x -> ptr_eqb (Some x) (root_ptr r) = false.
Proof.
  intros a c l k v r x Hnd Hl. apply ptr_eqb_neq. intro E. symmetry in E. revert E. eapply siblings_differ'; eauto.
Qed.
Lemma sib_r : forall a c l k v r x, NoDup (addrs (PT a c l k v r)) -> root_ptr r = Some x -> ptr_eqb (Some x) (root_ptr l) = false.
Proof.
  intros a c l k v r x Hnd Hr. apply ptr_eqb_neq. intro E. symmetry in E. revert E. eapply siblings_differ; eauto.
Qed.
Lemma not_red_black : forall t, pis_red t = false -> Bool.eqb (colb (pcol t)) G.red = false.
Proof. intros t H. unfold pis_red in H. destruct (pcol t); [discriminate|reflexivity]. Qed.

(* the node to fix is n = the child on side d of the red child p on side e of g *)
Definition gchild (e d : RB.side) (gl gr : ptree) : ptree :=
  match pchild e gl gr with PE => PE | PT _ _ pl _ _ pr => pchild d pl pr end.

Lemma insertCase3_step : forall h tr T Q g gc gl gk gv gr e d n nc nl nk nv nr G' st f,
  tree_inv h tr (pupd T Q (PT g gc gl gk gv gr)) -> pvalid T Q ->
  pcol (pchild e gl gr) = RB.Red -> gchild e d gl gr = PT n nc nl nk nv nr ->
  pins_fix_g g gc gl gk gv gr e d = Some (G', st) ->
  exists h' tr', upd_ok h tr (pupd T Q (PT g gc gl gk gv gr)) h' tr' (pupd T Q G') /\
    G.insertCase3 (S f) h tr (Some n) =
      match st with RB.ICheck => G.insertCase1 f h' tr' (Some g) | _ => Some (h', tr') end.
Proof.
  intros h tr T Q g gc gl gk gv gr e d n nc nl nk nv nr G' st f Hinv Hv Hred Hn Hfix.
  destruct (inv_sub _ _ _ _ _ Hinv Hv ltac:(discriminate)) as (Hrep & Hnd).
  set (PPg := pptr_from None T Q) in *.
  unfold gchild in Hn. destruct e; cbn [pchild] in Hred, Hn.
  - (* the parent is the LEFT child of the grandparent; the uncle is gr *)
    destruct gl as [|p pc pl pk pv pr]; [discriminate|]. cbn [pcol] in Hred. subst pc.
    pose proof Hrep as Hrep'. simpl in Hrep'. destruct Hrep' as (Hg & (Hp & Hpl & Hpr) & Hgr).
    fold (node_of PPg gc (PT p RB.Red pl pk pv pr) gk gv gr) in Hg. fold (node_of (Some g) RB.Red pl pk pv pr) in Hp.
    assert (Hpg : p <> g) by (apply (proj1 (ptr_neq_root _ _ _ _ _ _ p Hnd)); reflexivity).
    assert (Hunc : G.uncle h (Some n) = Some (root_ptr gr) /\ hread h n = Some (node_of (Some p) nc nl nk nv nr)).
    { destruct d; cbn [pchild] in Hn.
      - subst pl. simpl in Hpl. destruct Hpl as (Hn' & _). fold (node_of (Some p) nc nl nk nv nr) in Hn'. split; [|exact Hn'].
        unfold G.uncle, G.sibling. rsim. reflexivity.
      - subst pr. simpl in Hpr. destruct Hpr as (Hn' & _). fold (node_of (Some p) nc nl nk nv nr) in Hn'. split; [|exact Hn'].
        unfold G.uncle, G.sibling. rsim. reflexivity. }
    destruct Hunc as (Hunc & Hn').
    cbn [G.insertCase3]. rewrite Hunc. rewrite (nodeColor_rep _ _ _ Hgr).
    unfold pins_fix_g in Hfix. destruct (pis_red gr) eqn:Egr.
    + (* red uncle: recolour and go on at the grandparent *)
      injection Hfix as <- <-. destruct gr as [|u uc ul uk uv ur]; [discriminate|]. unfold pis_red in Egr. cbn [pcol] in *. destruct uc; [|discriminate].
      change (Bool.eqb (colb RB.Red) G.red) with true. cbv iota. rsim.
      (* p black *)
      destruct (recolor_at h tr _ (Q ++ [RB.L]) p RB.Red pl pk pv pr RB.Black Hinv ltac:(rewrite pget_sub by exact Hv; reflexivity)) as (h1 & Hs1 & U1).
      change (colb RB.Black) with G.black in Hs1. rewrite Hs1. rewrite pupd_sub in U1 by exact Hv. cbn [pupd] in U1.
      (* u black *)
      destruct (recolor_at h1 tr _ (Q ++ [RB.R]) u RB.Red ul uk uv ur RB.Black (proj1 U1) ltac:(rewrite pget_sub by exact Hv; reflexivity)) as (h2 & Hs2 & U2).
      change (colb RB.Black) with G.black in Hs2. rewrite Hs2. rewrite pupd_sub in U2 by exact Hv. cbn [pupd] in U2.
      (* grandparent in h2 *)
      destruct (inv_sub _ _ _ _ _ (proj1 U2) Hv ltac:(discriminate)) as (Hrep2 & _).
      simpl in Hrep2. destruct Hrep2 as (Hg2 & (Hp2 & Hpl2 & Hpr2) & _).
      assert (Hn2 : hread h2 n = Some (node_of (Some p) nc nl nk nv nr)).
      { destruct d; cbn [pchild] in Hn; [subst pl; simpl in Hpl2|subst pr; simpl in Hpr2]; tauto. }
      fold (node_of (Some g) RB.Black pl pk pv pr) in Hp2.
      assert (Hgp2 : G.grandparent h2 (Some n) = Some (Some g)) by (unfold G.grandparent; rsim; reflexivity).
      rewrite Hgp2.
      destruct (recolor_at h2 tr _ Q g gc _ gk gv _ RB.Red (proj1 U2) ltac:(rewrite pget_pupd_valid by exact Hv; reflexivity)) as (h3 & Hs3 & U3).
      change (colb RB.Red) with G.red in Hs3. rewrite Hs3. rewrite pupd_pupd in U3.
      destruct (inv_sub _ _ _ _ _ (proj1 U3) Hv ltac:(discriminate)) as (Hrep3 & _).
      simpl in Hrep3. destruct Hrep3 as (Hg3 & (Hp3 & Hpl3 & Hpr3) & _).
      assert (Hn3 : hread h3 n = Some (node_of (Some p) nc nl nk nv nr)).
      { destruct d; cbn [pchild] in Hn; [subst pl; simpl in Hpl3|subst pr; simpl in Hpr3]; tauto. }
      fold (node_of (Some g) RB.Black pl pk pv pr) in Hp3.
      assert (Hgp3 : G.grandparent h3 (Some n) = Some (Some g)) by (unfold G.grandparent; rsim; reflexivity).
      rewrite Hgp3. exists h3, tr. split.
      * eapply upd_ok_trans; [exact U1|]. eapply upd_ok_trans; [exact U2|exact U3].
      * rewrite !bind_eta. reflexivity.
    + (* black uncle: insertCase4 / insertCase5 *)
      rewrite (not_red_black _ Egr). cbv iota.
      pose proof (psub_nodup [RB.L] _ _ Hnd eq_refl) as Hndp.
      assert (Epg : ptr_eqb (Some p) (root_ptr gr) = false) by (eapply sib_l; [exact Hnd|reflexivity]).
      assert (Hgp : G.grandparent h (Some n) = Some (Some g)) by (unfold G.grandparent; rsim; reflexivity).
      unfold G.insertCase4. rewrite Hgp. destruct d; cbn [pchild] in Hn.
      * (* left-left: recolour, rotateRight(g) *)
        subst pl. injection Hfix as <- <-.
        assert (Enr : ptr_eqb (Some n) (root_ptr pr) = false) by (eapply sib_l; [exact Hndp|reflexivity]).
        rsim. unfold G.insertCase5. rsim.
        destruct (recolor_at h tr _ (Q ++ [RB.L]) p RB.Red _ pk pv pr RB.Black Hinv ltac:(rewrite pget_sub by exact Hv; reflexivity)) as (h1 & Hs1 & U1).
        change (colb RB.Black) with G.black in Hs1. rewrite Hs1. rewrite pupd_sub in U1 by exact Hv. cbn [pupd] in U1.
        destruct (inv_sub _ _ _ _ _ (proj1 U1) Hv ltac:(discriminate)) as (Hrep1 & _).
        simpl in Hrep1. destruct Hrep1 as (Hg1 & (Hp1 & (Hn1 & _) & _) & _).
        fold (node_of (Some g) RB.Black (PT n nc nl nk nv nr) pk pv pr) in Hp1. fold (node_of (Some p) nc nl nk nv nr) in Hn1.
        assert (Hgp1 : G.grandparent h1 (Some n) = Some (Some g)) by (unfold G.grandparent; rsim; reflexivity).
        rewrite Hgp1.
        destruct (recolor_at h1 tr _ Q g gc _ gk gv _ RB.Red (proj1 U1) ltac:(rewrite pget_pupd_valid by exact Hv; reflexivity)) as (h2 & Hs2 & U2).
        change (colb RB.Red) with G.red in Hs2. rewrite Hs2. rewrite pupd_pupd in U2.
        destruct (inv_sub _ _ _ _ _ (proj1 U2) Hv ltac:(discriminate)) as (Hrep2 & _).
        simpl in Hrep2. destruct Hrep2 as (Hg2 & (Hp2 & (Hn2 & _) & _) & _).
        fold (node_of PPg RB.Red (PT p RB.Black (PT n nc nl nk nv nr) pk pv pr) gk gv gr) in Hg2.
        fold (node_of (Some g) RB.Black (PT n nc nl nk nv nr) pk pv pr) in Hp2. fold (node_of (Some p) nc nl nk nv nr) in Hn2.
        rsim.
        destruct (rotateRight_at h2 tr _ Q g RB.Red gk gv gr p RB.Black _ pk pv pr (proj1 U2) ltac:(rewrite pget_pupd_valid by exact Hv; reflexivity)) as (h3 & tr3 & Hrun & U3).
        rewrite Hrun. rewrite pupd_pupd in U3. exists h3, tr3. split; [|reflexivity].
        eapply upd_ok_trans; [exact U1|]. eapply upd_ok_trans; [exact U2|exact U3].
      * (* left-right: rotateLeft(p), recolour, rotateRight(g) *)
        subst pr. injection Hfix as <- <-.
        rsim.
        destruct (rotateLeft_at h tr _ (Q ++ [RB.L]) p RB.Red pl pk pv n nc nl nk nv nr Hinv ltac:(rewrite pget_sub by exact Hv; reflexivity)) as (h1 & tr1 & Hrun1 & U1).
        rewrite Hrun1. rewrite pupd_sub in U1 by exact Hv. cbn [pupd] in U1.
        destruct (inv_sub _ _ _ _ _ (proj1 U1) Hv ltac:(discriminate)) as (Hrep1 & Hnd1).
        simpl in Hrep1. destruct Hrep1 as (Hg1 & (Hn1 & (Hp1 & _) & _) & _).
        fold (node_of PPg gc (PT n nc (PT p RB.Red pl pk pv nl) nk nv nr) gk gv gr) in Hg1.
        fold (node_of (Some g) nc (PT p RB.Red pl pk pv nl) nk nv nr) in Hn1. fold (node_of (Some n) RB.Red pl pk pv nl) in Hp1.
        rsim. unfold G.insertCase5. rsim.
        destruct (recolor_at h1 tr1 _ (Q ++ [RB.L]) n nc _ nk nv nr RB.Black (proj1 U1) ltac:(rewrite pget_sub by exact Hv; reflexivity)) as (h2 & Hs2 & U2).
        change (colb RB.Black) with G.black in Hs2. rewrite Hs2. rewrite pupd_sub in U2 by exact Hv. cbn [pupd] in U2.
        destruct (inv_sub _ _ _ _ _ (proj1 U2) Hv ltac:(discriminate)) as (Hrep2 & _).
        simpl in Hrep2. destruct Hrep2 as (Hg2 & (Hn2 & (Hp2 & _) & _) & _).
        fold (node_of (Some g) RB.Black (PT p RB.Red pl pk pv nl) nk nv nr) in Hn2. fold (node_of (Some n) RB.Red pl pk pv nl) in Hp2.
        assert (Hgp2 : G.grandparent h2 (Some p) = Some (Some g)) by (unfold G.grandparent; rsim; reflexivity).
        rewrite Hgp2.
        destruct (recolor_at h2 tr1 _ Q g gc _ gk gv _ RB.Red (proj1 U2) ltac:(rewrite pget_pupd_valid by exact Hv; reflexivity)) as (h3 & Hs3 & U3).
        change (colb RB.Red) with G.red in Hs3. rewrite Hs3. rewrite pupd_pupd in U3.
        destruct (inv_sub _ _ _ _ _ (proj1 U3) Hv ltac:(discriminate)) as (Hrep3 & _).
        simpl in Hrep3. destruct Hrep3 as (Hg3 & (Hn3 & (Hp3 & _) & _) & _).
        fold (node_of PPg RB.Red (PT n RB.Black (PT p RB.Red pl pk pv nl) nk nv nr) gk gv gr) in Hg3.
        fold (node_of (Some g) RB.Black (PT p RB.Red pl pk pv nl) nk nv nr) in Hn3. fold (node_of (Some n) RB.Red pl pk pv nl) in Hp3.
        rsim.
        destruct (rotateRight_at h3 tr1 _ Q g RB.Red gk gv gr n RB.Black _ nk nv nr (proj1 U3) ltac:(rewrite pget_pupd_valid by exact Hv; reflexivity)) as (h4 & tr4 & Hrun4 & U4).
        rewrite Hrun4. rewrite pupd_pupd in U4. exists h4, tr4. split; [|reflexivity].
        eapply upd_ok_trans; [exact U1|]. eapply upd_ok_trans; [exact U2|]. eapply upd_ok_trans; [exact U3|exact U4].
  - (* the parent is the RIGHT child of the grandparent; the uncle is gl *)
    destruct gr as [|p pc pl pk pv pr]; [discriminate|]. cbn [pcol] in Hred. subst pc.
    pose proof Hrep as Hrep'. simpl in Hrep'. destruct Hrep' as (Hg & Hgl & (Hp & Hpl & Hpr)).
    fold (node_of PPg gc gl gk gv (PT p RB.Red pl pk pv pr)) in Hg. fold (node_of (Some g) RB.Red pl pk pv pr) in Hp.
    assert (Epg : ptr_eqb (Some p) (root_ptr gl) = false) by (eapply sib_r; [exact Hnd|reflexivity]).
    assert (Hunc : G.uncle h (Some n) = Some (root_ptr gl) /\ hread h n = Some (node_of (Some p) nc nl nk nv nr)).
    { destruct d; cbn [pchild] in Hn.
      - subst pl. simpl in Hpl. destruct Hpl as (Hn' & _). fold (node_of (Some p) nc nl nk nv nr) in Hn'. split; [|exact Hn'].
        unfold G.uncle, G.sibling. rsim. reflexivity.
      - subst pr. simpl in Hpr. destruct Hpr as (Hn' & _). fold (node_of (Some p) nc nl nk nv nr) in Hn'. split; [|exact Hn'].
        unfold G.uncle, G.sibling. rsim. reflexivity. }
    destruct Hunc as (Hunc & Hn').
    cbn [G.insertCase3]. rewrite Hunc. rewrite (nodeColor_rep _ _ _ Hgl).
    unfold pins_fix_g in Hfix. destruct (pis_red gl) eqn:Egl.
    + injection Hfix as <- <-. destruct gl as [|u uc ul uk uv ur]; [discriminate|]. unfold pis_red in Egl. cbn [pcol] in *. destruct uc; [|discriminate].
      change (Bool.eqb (colb RB.Red) G.red) with true. cbv iota. rsim.
      destruct (recolor_at h tr _ (Q ++ [RB.R]) p RB.Red pl pk pv pr RB.Black Hinv ltac:(rewrite pget_sub by exact Hv; reflexivity)) as (h1 & Hs1 & U1).
      change (colb RB.Black) with G.black in Hs1. rewrite Hs1. rewrite pupd_sub in U1 by exact Hv. cbn [pupd] in U1.
      destruct (recolor_at h1 tr _ (Q ++ [RB.L]) u RB.Red ul uk uv ur RB.Black (proj1 U1) ltac:(rewrite pget_sub by exact Hv; reflexivity)) as (h2 & Hs2 & U2).
      change (colb RB.Black) with G.black in Hs2. rewrite Hs2. rewrite pupd_sub in U2 by exact Hv. cbn [pupd] in U2.
      destruct (inv_sub _ _ _ _ _ (proj1 U2) Hv ltac:(discriminate)) as (Hrep2 & _).
      simpl in Hrep2. destruct Hrep2 as (Hg2 & _ & (Hp2 & Hpl2 & Hpr2)).
      assert (Hn2 : hread h2 n = Some (node_of (Some p) nc nl nk nv nr)).
      { destruct d; cbn [pchild] in Hn; [subst pl; simpl in Hpl2|subst pr; simpl in Hpr2]; tauto. }
      fold (node_of (Some g) RB.Black pl pk pv pr) in Hp2.
      assert (Hgp2 : G.grandparent h2 (Some n) = Some (Some g)) by (unfold G.grandparent; rsim; reflexivity).
      rewrite Hgp2.
      destruct (recolor_at h2 tr _ Q g gc _ gk gv _ RB.Red (proj1 U2) ltac:(rewrite pget_pupd_valid by exact Hv; reflexivity)) as (h3 & Hs3 & U3).
      change (colb RB.Red) with G.red in Hs3. rewrite Hs3. rewrite pupd_pupd in U3.
      destruct (inv_sub _ _ _ _ _ (proj1 U3) Hv ltac:(discriminate)) as (Hrep3 & _).
      simpl in Hrep3. destruct Hrep3 as (Hg3 & _ & (Hp3 & Hpl3 & Hpr3)).
      assert (Hn3 : hread h3 n = Some (node_of (Some p) nc nl nk nv nr)).
      { destruct d; cbn [pchild] in Hn; [subst pl; simpl in Hpl3|subst pr; simpl in Hpr3]; tauto. }
      fold (node_of (Some g) RB.Black pl pk pv pr) in Hp3.
      assert (Hgp3 : G.grandparent h3 (Some n) = Some (Some g)) by (unfold G.grandparent; rsim; reflexivity).
      rewrite Hgp3. exists h3, tr. split.
      * eapply upd_ok_trans; [exact U1|]. eapply upd_ok_trans; [exact U2|exact U3].
      * rewrite !bind_eta. reflexivity.
    + rewrite (not_red_black _ Egl). cbv iota.
      pose proof (psub_nodup [RB.R] _ _ Hnd eq_refl) as Hndp.
      assert (Hgp : G.grandparent h (Some n) = Some (Some g)) by (unfold G.grandparent; rsim; reflexivity).
      unfold G.insertCase4. rewrite Hgp. destruct d; cbn [pchild] in Hn.
      * (* right-left: rotateRight(p), recolour, rotateLeft(g) *)
        subst pl. injection Hfix as <- <-.
        assert (Enr : ptr_eqb (Some n) (root_ptr pr) = false) by (eapply sib_l; [exact Hndp|reflexivity]).
        rsim.
        destruct (rotateRight_at h tr _ (Q ++ [RB.R]) p RB.Red pk pv pr n nc nl nk nv nr Hinv ltac:(rewrite pget_sub by exact Hv; reflexivity)) as (h1 & tr1 & Hrun1 & U1).
        rewrite Hrun1. rewrite pupd_sub in U1 by exact Hv. cbn [pupd] in U1.
        destruct (inv_sub _ _ _ _ _ (proj1 U1) Hv ltac:(discriminate)) as (Hrep1 & Hnd1).
        pose proof (psub_nodup [RB.R] _ _ Hnd1 eq_refl) as Hndn1.
        assert (Epnl : ptr_eqb (Some p) (root_ptr nl) = false) by (eapply sib_r; [exact Hndn1|reflexivity]).
        simpl in Hrep1. destruct Hrep1 as (Hg1 & _ & (Hn1 & _ & (Hp1 & _))).
        fold (node_of PPg gc gl gk gv (PT n nc nl nk nv (PT p RB.Red nr pk pv pr))) in Hg1.
        fold (node_of (Some g) nc nl nk nv (PT p RB.Red nr pk pv pr)) in Hn1. fold (node_of (Some n) RB.Red nr pk pv pr) in Hp1.
        rsim. unfold G.insertCase5. rsim.
        destruct (recolor_at h1 tr1 _ (Q ++ [RB.R]) n nc nl nk nv _ RB.Black (proj1 U1) ltac:(rewrite pget_sub by exact Hv; reflexivity)) as (h2 & Hs2 & U2).
        change (colb RB.Black) with G.black in Hs2. rewrite Hs2. rewrite pupd_sub in U2 by exact Hv. cbn [pupd] in U2.
        destruct (inv_sub _ _ _ _ _ (proj1 U2) Hv ltac:(discriminate)) as (Hrep2 & _).
        simpl in Hrep2. destruct Hrep2 as (Hg2 & _ & (Hn2 & _ & (Hp2 & _))).
        fold (node_of (Some g) RB.Black nl nk nv (PT p RB.Red nr pk pv pr)) in Hn2. fold (node_of (Some n) RB.Red nr pk pv pr) in Hp2.
        assert (Hgp2 : G.grandparent h2 (Some p) = Some (Some g)) by (unfold G.grandparent; rsim; reflexivity).
        rewrite Hgp2.
        destruct (recolor_at h2 tr1 _ Q g gc _ gk gv _ RB.Red (proj1 U2) ltac:(rewrite pget_pupd_valid by exact Hv; reflexivity)) as (h3 & Hs3 & U3).
        change (colb RB.Red) with G.red in Hs3. rewrite Hs3. rewrite pupd_pupd in U3.
        destruct (inv_sub _ _ _ _ _ (proj1 U3) Hv ltac:(discriminate)) as (Hrep3 & _).
        simpl in Hrep3. destruct Hrep3 as (Hg3 & _ & (Hn3 & _ & (Hp3 & _))).
        fold (node_of PPg RB.Red gl gk gv (PT n RB.Black nl nk nv (PT p RB.Red nr pk pv pr))) in Hg3.
        fold (node_of (Some g) RB.Black nl nk nv (PT p RB.Red nr pk pv pr)) in Hn3. fold (node_of (Some n) RB.Red nr pk pv pr) in Hp3.
        rsim.
        destruct (rotateLeft_at h3 tr1 _ Q g RB.Red gl gk gv n RB.Black nl nk nv _ (proj1 U3) ltac:(rewrite pget_pupd_valid by exact Hv; reflexivity)) as (h4 & tr4 & Hrun4 & U4).
        rewrite Hrun4. rewrite pupd_pupd in U4. exists h4, tr4. split; [|reflexivity].
        eapply upd_ok_trans; [exact U1|]. eapply upd_ok_trans; [exact U2|]. eapply upd_ok_trans; [exact U3|exact U4].
      * (* right-right: recolour, rotateLeft(g) *)
        subst pr. injection Hfix as <- <-.
        assert (Enl : ptr_eqb (Some n) (root_ptr pl) = false) by (eapply sib_r; [exact Hndp|reflexivity]).
        rsim. unfold G.insertCase5. rsim.
        destruct (recolor_at h tr _ (Q ++ [RB.R]) p RB.Red pl pk pv _ RB.Black Hinv ltac:(rewrite pget_sub by exact Hv; reflexivity)) as (h1 & Hs1 & U1).
        change (colb RB.Black) with G.black in Hs1. rewrite Hs1. rewrite pupd_sub in U1 by exact Hv. cbn [pupd] in U1.
        destruct (inv_sub _ _ _ _ _ (proj1 U1) Hv ltac:(discriminate)) as (Hrep1 & _).
        simpl in Hrep1. destruct Hrep1 as (Hg1 & _ & (Hp1 & _ & (Hn1 & _))).
        fold (node_of (Some g) RB.Black pl pk pv (PT n nc nl nk nv nr)) in Hp1. fold (node_of (Some p) nc nl nk nv nr) in Hn1.
        assert (Hgp1 : G.grandparent h1 (Some n) = Some (Some g)) by (unfold G.grandparent; rsim; reflexivity).
        rewrite Hgp1.
        destruct (recolor_at h1 tr _ Q g gc _ gk gv _ RB.Red (proj1 U1) ltac:(rewrite pget_pupd_valid by exact Hv; reflexivity)) as (h2 & Hs2 & U2).
        change (colb RB.Red) with G.red in Hs2. rewrite Hs2. rewrite pupd_pupd in U2.
        destruct (inv_sub _ _ _ _ _ (proj1 U2) Hv ltac:(discriminate)) as (Hrep2 & _).
        simpl in Hrep2. destruct Hrep2 as (Hg2 & _ & (Hp2 & _ & (Hn2 & _))).
        fold (node_of PPg RB.Red gl gk gv (PT p RB.Black pl pk pv (PT n nc nl nk nv nr))) in Hg2.
        fold (node_of (Some g) RB.Black pl pk pv (PT n nc nl nk nv nr)) in Hp2. fold (node_of (Some p) nc nl nk nv nr) in Hn2.
        rsim.
        destruct (rotateLeft_at h2 tr _ Q g RB.Red gl gk gv p RB.Black pl pk pv _ (proj1 U2) ltac:(rewrite pget_pupd_valid by exact Hv; reflexivity)) as (h3 & tr3 & Hrun & U3).
        rewrite Hrun. rewrite pupd_pupd in U3. exists h3, tr3. split; [|reflexivity].
        eapply upd_ok_trans; [exact U1|]. eapply upd_ok_trans; [exact U2|exact U3].
Qed.

(* ---------- insertCase1 = the fix-up function of the model file ---------- *)
(* one unfolding of the mutually recursive generated functions (cbn leaves the inner calls as anonymous fixpoints) *)
Lemma insertCase1_S : forall f h tr p, G.insertCase1 (S f) h tr p =
  (do c1 <- deref h p;
   do (h, v_tree) <- (if is_nil (G.Node_Parent c1)
                      then (do h <- store h p (G.Node_with_color G.black); Some (h, tr))
                      else (do (h, v_tree) <- G.insertCase2 f h tr p; Some (h, v_tree)));
   Some (h, v_tree)).
Proof. reflexivity. Qed.
Lemma insertCase2_S : forall f h tr p, G.insertCase2 (S f) h tr p =
  (do c1 <- deref h p;
   do r2 <- G.nodeColor h (G.Node_Parent c1);
   if Bool.eqb r2 G.black then Some (h, tr)
   else (do (h, v_tree) <- G.insertCase3 f h tr p; Some (h, v_tree))).
Proof. reflexivity. Qed.

Lemma list_ind2 : forall (A : Type) (P : list A -> Prop),
  P [] -> (forall d, P [d]) -> (forall d e rg, P rg -> P (d :: e :: rg)) -> forall l, P l.
Proof.
  intros A P H0 H1 H2. assert (H : forall l, P l /\ forall x, P (x :: l)).
  { induction l as [|y l [IH1 IH2]]; [split; auto|]. split; [apply IH2|]. intro x. now apply H2. }
  intro l. apply H.
Qed.

Lemma pins_fix_g_check : forall g gc gl gk gv gr s d G', pins_fix_g g gc gl gk gv gr s d = Some (G', RB.ICheck) ->
  exists l' r', G' = PT g RB.Red l' gk gv r'.
Proof.
  intros g gc gl gk gv gr s d G' H. unfold pins_fix_g in H. destruct s.
  - destruct (pis_red gr); [injection H as <-; eauto|]. destruct gl as [|? ? ? ? ? pr]; [discriminate|].
    destruct d; [discriminate|]. destruct pr; discriminate.
  - destruct (pis_red gl); [injection H as <-; eauto|]. destruct gr as [|? ? pl ? ? ?]; [discriminate|].
    destruct d; [|discriminate]. destruct pl; discriminate.
Qed.

(* the node at a path and its parent, read from the heap *)
Lemma child_facts : forall h T q d p pc pl pk pv pr n nc nl nk nv nr,
  rep h None T -> pget T q = PT p pc pl pk pv pr -> pchild d pl pr = PT n nc nl nk nv nr ->
  hread h p = Some (node_of (pptr_from None T q) pc pl pk pv pr) /\
  hread h n = Some (node_of (Some p) nc nl nk nv nr).
Proof.
  intros h T q d p pc pl pk pv pr n nc nl nk nv nr Hrep Hp Hn.
  pose proof (rep_sub q h None T Hrep) as H. rewrite Hp in H. simpl in H. destruct H as (H1 & Hl & Hr). split; [exact H1|].
  destruct d; cbn [pchild] in Hn; [rewrite Hn in Hl; simpl in Hl|rewrite Hn in Hr; simpl in Hr]; tauto.
Qed.

(* OBLIGATION *)
Lemma insertCase1_pfix : forall rp T T' h tr n nc nl nk nv nr fuel,
  tree_inv h tr T -> pget T (rev rp) = PT n nc nl nk nv nr -> pfix T rp = Some T' ->
  (3 * length rp + 3 <= fuel)%nat ->
  exists h' tr', G.insertCase1 fuel h tr (Some n) = Some (h', tr') /\ upd_ok h tr T h' tr' T'.
Proof.
  induction rp as [|d|d e rg IH] using list_ind2; intros T T' h tr n nc nl nk nv nr fuel Hinv Hn Hfix Hf.
  - (* the root: it becomes black *)
    cbn [rev pget] in Hn. cbn [pfix] in Hfix. injection Hfix as <-. subst T. cbn [psetcol].
    destruct fuel as [|f]; [lia|]. cbn [G.insertCase1]. destruct Hinv as (Hrep & Hnd & Hroot).
    pose proof (rep_root_deref _ _ _ _ _ _ _ _ Hrep) as Hd. rewrite Hd. cbn [node_of G.Node_Parent is_nil].
    destruct (recolor_at h tr _ [] n nc nl nk nv nr RB.Black (conj Hrep (conj Hnd Hroot)) eq_refl) as (h1 & Hs1 & U1).
    change (colb RB.Black) with G.black in Hs1. rewrite Hs1. cbn [pupd] in U1. exists h1, tr. split; [reflexivity|exact U1].
  - (* the parent is the root *)
    cbn [rev app] in Hn. cbn [pfix rev pget] in Hfix.
    destruct T as [|p pc pl pk pv pr]; [discriminate|]. destruct pc; [discriminate|]. injection Hfix as <-.
    cbn [pget] in Hn. destruct (child_facts h _ [] d p RB.Black pl pk pv pr n nc nl nk nv nr (proj1 Hinv) eq_refl Hn) as (Hp & Hn').
    destruct fuel as [|[|f]]; [cbn [length] in Hf; lia|cbn [length] in Hf; lia|].
    rewrite insertCase1_S. rsim. rewrite insertCase2_S. rsim. unfold G.nodeColor. rsim.
    exists h, tr. split; [reflexivity|apply upd_ok_refl; exact Hinv].
  - (* parent and grandparent *)
    cbn [rev] in Hn. cbn [pfix] in Hfix. cbn [rev] in Hfix.
    set (Q := rev rg) in *.
    destruct (pget T (Q ++ [e])) as [|p pc pl pk pv pr] eqn:Ep; [discriminate|].
    assert (Hnp : pchild d pl pr = PT n nc nl nk nv nr) by (rewrite pget_app, Ep in Hn; exact Hn).
    destruct (child_facts h T (Q ++ [e]) d p pc pl pk pv pr n nc nl nk nv nr (proj1 Hinv) Ep Hnp) as (Hp & Hn').
    destruct fuel as [|[|[|f]]]; try (cbn [length] in Hf; lia).
    destruct pc.
    + (* red parent *)
      destruct (pget T Q) as [|g gc gl gk gv gr] eqn:Eg; [discriminate|].
      assert (Epc : pchild e gl gr = PT p RB.Red pl pk pv pr) by (rewrite pget_app, Eg in Ep; exact Ep).
      destruct (pins_fix_g g gc gl gk gv gr e d) as [[G' st]|] eqn:Efix; [|discriminate].
      assert (Hv : pvalid T Q) by (apply pvalid_of_get; rewrite Eg; discriminate).
      assert (HT : T = pupd T Q (PT g gc gl gk gv gr)) by (rewrite <- Eg; symmetry; apply pupd_pget).
      assert (Hinv' : tree_inv h tr (pupd T Q (PT g gc gl gk gv gr))) by (rewrite <- HT; exact Hinv).
      destruct (insertCase3_step h tr T Q g gc gl gk gv gr e d n nc nl nk nv nr G' st f Hinv' Hv
                  ltac:(rewrite Epc; reflexivity) ltac:(unfold gchild; rewrite Epc; exact Hnp) Efix) as (h1 & tr1 & U1 & Hrun).
      rewrite <- HT in U1.
      rewrite insertCase1_S. rsim. rewrite insertCase2_S. rsim. unfold G.nodeColor. rsim.
      change (Bool.eqb G.red G.black) with false. cbv iota. rewrite Hrun.
      destruct st as [| |dd].
      * injection Hfix as <-. exists h1, tr1. split; [reflexivity|exact U1].
      * destruct (pins_fix_g_check _ _ _ _ _ _ _ _ _ Efix) as (l' & r' & ->).
        destruct (IH (pupd T Q (PT g RB.Red l' gk gv r')) T' h1 tr1 g RB.Red l' gk gv r' f (proj1 U1)
                    ltac:(fold Q; rewrite pget_pupd_valid by exact Hv; reflexivity) Hfix ltac:(cbn [length] in Hf; lia)) as (h2 & tr2 & Hrun2 & U2).
        rewrite Hrun2. exists h2, tr2. split; [rewrite !bind_eta; reflexivity|]. eapply upd_ok_trans; eauto.
      * destruct (pins_fix_g_status _ _ _ _ _ _ _ _ _ _ Efix); discriminate.
    + (* black parent: nothing to do *)
      injection Hfix as <-. rewrite insertCase1_S. rsim. rewrite insertCase2_S. rsim. unfold G.nodeColor. rsim.
      exists h, tr. split; [reflexivity|apply upd_ok_refl; exact Hinv].
Qed.
Print Assumptions insertCase1_pfix.

(* ---------- linking a fresh node below the node at a path ---------- *)
(* like rep_pupd_same_root, but the new subtree may contain addresses that do not occur in T at all *)
Lemma rep_pupd_same_root_fresh : forall h h' s s' p t pp,
  rep h pp t -> NoDup (addrs t) -> psub t p = Some s ->
  root_ptr s' = root_ptr s -> (forall x, In x (addrs s') -> In x (addrs s) \/ ~ In x (addrs t)) -> NoDup (addrs s') ->
  (forall pps, rep h pps s -> rep h' pps s') ->
  (forall y, In y (addrs t) -> ~ In y (addrs s) -> hread h' y = hread h y) ->
  rep h' pp (pupd t p s') /\ NoDup (addrs (pupd t p s')) /\
  (forall x, In x (addrs (pupd t p s')) -> In x (addrs t) \/ In x (addrs s')) /\
  root_ptr (pupd t p s') = root_ptr t.
Proof.
  intros h h' s s'. induction p as [|d p IH]; intros t pp Hrep Hnd Hs Hroot Hsub Hnd' Hs' Hfr.
  - destruct t; [discriminate|]. injection Hs as <-. cbn [pupd]. repeat split; auto.
  - destruct t as [|a c l k v r]; [discriminate|]. cbn [psub] in Hs. simpl in Hrep. destruct Hrep as (Ha & Hl & Hr).
    cbn [addrs] in Hnd. inversion Hnd as [|? ? Hna Hnd2]; subst.
    pose proof (NoDup_app_l _ _ _ Hnd2) as Hndl. pose proof (NoDup_app_r _ _ _ Hnd2) as Hndr.
    assert (Has : ~ In a (addrs s)).
    { intro Hx. apply Hna. apply in_or_app. destruct d; cbn [pchild] in Hs; [left|right]; eapply psub_addrs; eauto. }
    destruct d; cbn [pchild] in Hs; cbn [pupd].
    + destruct (IH l (Some a) Hl Hndl Hs Hroot) as (R1 & R2 & R3 & R4); auto.
      { intros x Hx. destruct (Hsub x Hx) as [H1|H1]; [now left|]. right. intro H2. apply H1. cbn [addrs]. right. apply in_or_app. now left. }
      { intros y Hy Hny. apply Hfr; [|exact Hny]. cbn [addrs]. right. apply in_or_app. now left. }
      split; [|split; [|split; [|reflexivity]]].
      * cbn [rep]. split; [|split; [exact R1|]].
        -- rewrite Hfr; [|cbn [addrs]; now left|exact Has]. unfold node_of. rewrite R4. exact Ha.
        -- eapply rep_frame; [|exact Hr]. intros y Hy. apply Hfr; [cbn [addrs]; right; apply in_or_app; now right|].
           intro Hys. eapply (NoDup_app_disj _ _ _ y Hnd2); [eapply psub_addrs; eauto|exact Hy].
      * cbn [addrs]. constructor.
        -- intro Hx. apply in_app_or in Hx. destruct Hx as [Hx|Hx]; [|apply Hna; apply in_or_app; now right].
           destruct (R3 a Hx) as [H1|H1]; [apply Hna; apply in_or_app; now left|].
           destruct (Hsub a H1) as [H2|H2]; [contradiction|]. apply H2. cbn [addrs]. now left.
        -- apply NoDup_app_intro; [exact R2|exact Hndr|]. intros x Hx1 Hx2.
           destruct (R3 x Hx1) as [H1|H1]; [eapply (NoDup_app_disj _ _ _ x Hnd2); eauto|].
           destruct (Hsub x H1) as [H2|H2]; [eapply (NoDup_app_disj _ _ _ x Hnd2); [eapply psub_addrs; eauto|exact Hx2]|].
           apply H2. cbn [addrs]. right. apply in_or_app. now right.
      * intros x Hx. cbn [addrs] in *. destruct Hx as [->|Hx]; [left; now left|]. apply in_app_or in Hx.
        destruct Hx as [Hx|Hx]; [destruct (R3 x Hx) as [H1|H1]; [left; right; apply in_or_app; now left|now right]|left; right; apply in_or_app; now right].
    + destruct (IH r (Some a) Hr Hndr Hs Hroot) as (R1 & R2 & R3 & R4); auto.
      { intros x Hx. destruct (Hsub x Hx) as [H1|H1]; [now left|]. right. intro H2. apply H1. cbn [addrs]. right. apply in_or_app. now right. }
      { intros y Hy Hny. apply Hfr; [|exact Hny]. cbn [addrs]. right. apply in_or_app. now right. }
      split; [|split; [|split; [|reflexivity]]].
      * cbn [rep]. split; [|split; [|exact R1]].
        -- rewrite Hfr; [|cbn [addrs]; now left|exact Has]. unfold node_of. rewrite R4. exact Ha.
        -- eapply rep_frame; [|exact Hl]. intros y Hy. apply Hfr; [cbn [addrs]; right; apply in_or_app; now left|].
           intro Hys. eapply (NoDup_app_disj _ _ _ y Hnd2); [exact Hy|eapply psub_addrs; eauto].
      * cbn [addrs]. constructor.
        -- intro Hx. apply in_app_or in Hx. destruct Hx as [Hx|Hx]; [apply Hna; apply in_or_app; now left|].
           destruct (R3 a Hx) as [H1|H1]; [apply Hna; apply in_or_app; now right|].
           destruct (Hsub a H1) as [H2|H2]; [contradiction|]. apply H2. cbn [addrs]. now left.
        -- apply NoDup_app_intro; [exact Hndl|exact R2|]. intros x Hx1 Hx2.
           destruct (R3 x Hx2) as [H1|H1]; [eapply (NoDup_app_disj _ _ _ x Hnd2); eauto|].
           destruct (Hsub x H1) as [H2|H2]; [eapply (NoDup_app_disj _ _ _ x Hnd2); [exact Hx1|eapply psub_addrs; eauto]|].
           apply H2. cbn [addrs]. right. apply in_or_app. now left.
      * intros x Hx. cbn [addrs] in *. destruct Hx as [->|Hx]; [left; now left|]. apply in_app_or in Hx.
        destruct Hx as [Hx|Hx]; [left; right; apply in_or_app; now left|destruct (R3 x Hx) as [H1|H1]; [left; right; apply in_or_app; now right|now right]].
Qed.

(* ---------- the descent loop of Put ---------- *)
Definition halloc (h : heap G.Node) (nd : G.Node) : heap G.Node := fst (alloc h nd).
Lemma hread_halloc : forall h nd y, hread (halloc h nd) y = if Nat.eqb y (hnext h) then Some nd else hread h y.
Proof. reflexivity. Qed.

Definition leafnode (key val : Z) : G.Node := G.mkNode key val G.red None None None.
Definition with_child (d : RB.side) (x : ptr) : G.Node -> G.Node :=
  match d with RB.L => G.Node_with_Left x | RB.R => G.Node_with_Right x end.

Lemma Put_loop_spec : forall mag (tr : G.Tree) key val s T q h n fuel ins,
  rep h None T -> pget T q = s -> s <> PE -> (RB.height (erase s) <= fuel)%nat ->
  (forall a, In a (addrs s) -> a <> hnext h) ->
  let cmp := G.Tree_Comparator tr in let p := dpath cmp key s in
  let cost := RB.lookup_cost cmp key (erase s) in
  match pget s p with
  | PT a c l k v r =>
      cmp key k = Eq /\
      exists h', G.Put_loop1 mag fuel n h tr key val ins (root_ptr s) true =
                   Some (Some ((n + cost)%nat, h', tr), ((n + cost)%nat, h', ins, Some a, true)) /\
        hread h' a = Some (node_of (pptr_from None T (q ++ p)) c l key val r) /\
        (forall y, y <> a -> hread h' y = hread h y) /\ hnext h' = hnext h
  | PE =>
      exists h' p' d b bc bl bk bv br,
        G.Put_loop1 mag fuel n h tr key val ins (root_ptr s) true =
                   Some (None, ((n + cost)%nat, h', Some (hnext h), Some b, false)) /\
        p = p' ++ [d] /\ pget s p' = PT b bc bl bk bv br /\ pchild d bl br = PE /\
        hread h' (hnext h) = Some (leafnode key val) /\
        hread h' b = Some (with_child d (Some (hnext h)) (node_of (pptr_from None T (q ++ p')) bc bl bk bv br)) /\
        (forall y, y <> b -> y <> hnext h -> hread h' y = hread h y) /\ hnext h' = S (hnext h)
  end.
Proof.
  intros mag tr key val. induction s as [|a c l IHl k v r IHr]; intros T q h n fuel ins Hrep Hg Hne Hf Hfresh cmp p cost; [congruence|].
  pose proof (rep_sub q h None T Hrep) as Hs. rewrite Hg in Hs. pose proof (rep_root_deref _ _ _ _ _ _ _ _ Hs) as Hd. cbn [deref] in Hd.
  destruct fuel as [|fuel]; [cbn [erase RB.height] in Hf; lia|].
  subst p cost. cbn [dpath erase RB.lookup_cost]. fold cmp. cbn [G.Put_loop1 root_ptr]. change (deref h (Some a)) with (hread h a). rewrite Hd.
  cbn [node_of G.Node_Key G.Node_Left G.Node_Right]. fold cmp.
  assert (Hax : a <> hnext h) by (apply Hfresh; now left).
  destruct (cmp key k) eqn:E.
  - (* found: overwrite key and value *)
    cbn [pget]. split; [exact E|]. rewrite (call_cmp_Eq mag _ _ _ E).
    erewrite (store_hset h a _ _ Hd). erewrite store_hset by (rewrite hread_hset, Nat.eqb_refl; reflexivity).
    eexists. split; [rewrite Nat.add_1_r; reflexivity|]. split.
    + rewrite hread_hset, Nat.eqb_refl, app_nil_r. reflexivity.
    + split; [|reflexivity]. intros y Hy. rewrite !hread_hset. now eqb_simpl.
  - destruct (call_cmp_Lt mag _ _ _ E) as (E0 & E1 & E2). rewrite E0, E1. rewrite ?Hd. cbn [node_of G.Node_Left].
    destruct l as [|la lc ll lk lv lr].
    + (* the left slot is empty: allocate *)
      cbn [root_ptr is_nil pget pchild dpath]. cbn [alloc].
      change (mkheap ((hnext h, G.mkNode key val G.red None None None) :: hcells h) (S (hnext h))) with (halloc h (leafnode key val)).
      erewrite (store_hset (halloc h (leafnode key val)) a) by (rewrite hread_halloc; eqb_simpl; exact Hd).
      change (deref ?hh (Some a)) with (hread hh a). rewrite hread_hset, Nat.eqb_refl. cbn [node_of G.Node_with_Left G.Node_Left].
      exists (hset (halloc h (leafnode key val)) a (G.Node_with_Left (Some (hnext h)) (node_of (pptr_from None T q) c PE k v r))), [], RB.L, a, c, PE, k, v, r.
      split; [destruct fuel; cbn [G.Put_loop1]; rewrite Nat.add_1_r; reflexivity|].
      split; [reflexivity|]. split; [reflexivity|]. split; [reflexivity|]. split; [|split; [|split; [|reflexivity]]].
      * rewrite hread_hset, hread_halloc. assert (hnext h <> a) by congruence. eqb_simpl. reflexivity.
      * rewrite hread_hset, Nat.eqb_refl, app_nil_r. reflexivity.
      * intros y Hy1 Hy2. rewrite hread_hset, hread_halloc. now eqb_simpl.
    + (* descend to the left *)
      cbn [root_ptr is_nil]. rewrite ?Hd. cbn [node_of G.Node_Left root_ptr].
      assert (Hgl : pget T (q ++ [RB.L]) = PT la lc ll lk lv lr) by (rewrite pget_app, Hg; reflexivity).
      pose proof (IHl T (q ++ [RB.L]) h (S n) fuel ins Hrep Hgl ltac:(discriminate) ltac:(cbn [erase RB.height] in *; lia)
                  ltac:(intros y Hy; apply Hfresh; cbn [addrs]; right; apply in_or_app; now left)) as IH.
      cbv zeta in IH. fold cmp in IH. cbn [pget pchild]. cbn [erase] in IH.
      destruct (pget (PT la lc ll lk lv lr) (dpath cmp key (PT la lc ll lk lv lr))) as [|a' c' l' k' v' r'].
      * destruct IH as (h' & p' & d & b & bc & bl & bk & bv & br & Hrun & Hp & Hb & Hc & H1 & H2 & H3 & H4).
        exists h', (RB.L :: p'), d, b, bc, bl, bk, bv, br. cbn [root_ptr] in Hrun. rewrite Hrun, <- Nat.add_succ_comm.
        split; [reflexivity|]. split; [rewrite Hp; reflexivity|]. split; [exact Hb|]. split; [exact Hc|]. split; [exact H1|].
        split; [rewrite <- app_assoc in H2; exact H2|]. split; assumption.
      * destruct IH as (Heq & h' & Hrun & H1 & H2 & H3). split; [exact Heq|].
        exists h'. cbn [root_ptr] in Hrun. rewrite Hrun, <- Nat.add_succ_comm. split; [reflexivity|].
        split; [rewrite <- app_assoc in H1; exact H1|]. split; assumption.
  - destruct (call_cmp_Gt mag _ _ _ E) as (E0 & E1 & E2). rewrite E0, E1, E2. rewrite ?Hd. cbn [node_of G.Node_Right].
    destruct r as [|ra rc rl rk rv rr].
    + cbn [root_ptr is_nil pget pchild dpath]. cbn [alloc].
      change (mkheap ((hnext h, G.mkNode key val G.red None None None) :: hcells h) (S (hnext h))) with (halloc h (leafnode key val)).
      erewrite (store_hset (halloc h (leafnode key val)) a) by (rewrite hread_halloc; eqb_simpl; exact Hd).
      change (deref ?hh (Some a)) with (hread hh a). rewrite hread_hset, Nat.eqb_refl. cbn [node_of G.Node_with_Right G.Node_Right].
      exists (hset (halloc h (leafnode key val)) a (G.Node_with_Right (Some (hnext h)) (node_of (pptr_from None T q) c l k v PE))), [], RB.R, a, c, l, k, v, PE.
      split; [destruct fuel; cbn [G.Put_loop1]; rewrite Nat.add_1_r; reflexivity|].
      split; [reflexivity|]. split; [reflexivity|]. split; [reflexivity|]. split; [|split; [|split; [|reflexivity]]].
      * rewrite hread_hset, hread_halloc. assert (hnext h <> a) by congruence. eqb_simpl. reflexivity.
      * rewrite hread_hset, Nat.eqb_refl, app_nil_r. reflexivity.
      * intros y Hy1 Hy2. rewrite hread_hset, hread_halloc. now eqb_simpl.
    + cbn [root_ptr is_nil]. rewrite ?Hd. cbn [node_of G.Node_Right root_ptr].
      assert (Hgr : pget T (q ++ [RB.R]) = PT ra rc rl rk rv rr) by (rewrite pget_app, Hg; reflexivity).
      pose proof (IHr T (q ++ [RB.R]) h (S n) fuel ins Hrep Hgr ltac:(discriminate) ltac:(cbn [erase RB.height] in *; lia)
                  ltac:(intros y Hy; apply Hfresh; cbn [addrs]; right; apply in_or_app; now right)) as IH.
      cbv zeta in IH. fold cmp in IH. cbn [pget pchild]. cbn [erase] in IH.
      destruct (pget (PT ra rc rl rk rv rr) (dpath cmp key (PT ra rc rl rk rv rr))) as [|a' c' l' k' v' r'].
      * destruct IH as (h' & p' & d & b & bc & bl & bk & bv & br & Hrun & Hp & Hb & Hc & H1 & H2 & H3 & H4).
        exists h', (RB.R :: p'), d, b, bc, bl, bk, bv, br. cbn [root_ptr] in Hrun. rewrite Hrun, <- Nat.add_succ_comm.
        split; [reflexivity|]. split; [rewrite Hp; reflexivity|]. split; [exact Hb|]. split; [exact Hc|]. split; [exact H1|].
        split; [rewrite <- app_assoc in H2; exact H2|]. split; assumption.
      * destruct IH as (Heq & h' & Hrun & H1 & H2 & H3). split; [exact Heq|].
        exists h'. cbn [root_ptr] in Hrun. rewrite Hrun, <- Nat.add_succ_comm. split; [reflexivity|].
        split; [rewrite <- app_assoc in H1; exact H1|]. split; assumption.
Qed.

(* ---------- putting the pieces together ---------- *)
Lemma rep_allocated : forall h t pp a, rep h pp t -> In a (addrs t) -> hread h a <> None.
Proof.
  intros h. induction t as [|b c l IHl k v r IHr]; intros pp a Hrep Hin; [contradiction|].
  simpl in Hrep. destruct Hrep as (Hb & Hl & Hr). cbn [addrs] in Hin. destruct Hin as [->|Hin]; [congruence|].
  apply in_app_or in Hin. destruct Hin; eauto.
Qed.

Lemma dpath_length : forall cmp key t, (length (dpath cmp key t) <= RB.height (erase t))%nat.
Proof.
  intros cmp key. induction t as [|a c l IHl k v r IHr]; [apply Nat.le_refl|]. cbn [dpath erase RB.height].
  destruct (cmp key k); cbn [length]; lia.
Qed.

Lemma link_leaf : forall h h' tr T p' d b bc bl bk bv br x key val,
  tree_inv h tr T -> pget T p' = PT b bc bl bk bv br -> pchild d bl br = PE -> ~ In x (addrs T) ->
  hread h' x = Some (leafnode key val) ->
  hread h' b = Some (with_child d (Some x) (node_of (pptr_from None T p') bc bl bk bv br)) ->
  (forall y, y <> b -> y <> x -> hread h' y = hread h y) ->
  tree_inv (hset h' x (G.Node_with_Parent (Some b) (leafnode key val))) tr (pupd T (p' ++ [d]) (leaf x key val)).
Proof.
  intros h h' tr T p' d b bc bl bk bv br x key val (Hrep & Hnd & Hroot) Hb Hc Hx Hx' Hb' Hfr.
  assert (Hs : psub T p' = Some (PT b bc bl bk bv br)) by (rewrite <- Hb; apply pget_psub; rewrite Hb; discriminate).
  pose proof (psub_nodup _ _ _ Hnd Hs) as Hndb.
  assert (Hbx : b <> x) by (intros ->; apply Hx; eapply psub_addrs; [exact Hs|now left]).
  set (B' := match d with RB.L => PT b bc (leaf x key val) bk bv br | RB.R => PT b bc bl bk bv (leaf x key val) end).
  assert (HB' : pupd T (p' ++ [d]) (leaf x key val) = pupd T p' B').
  { rewrite pupd_app_get, Hb. subst B'. destruct d; reflexivity. }
  rewrite HB'.
  pose proof (rep_sub p' h None T Hrep) as Hrb. rewrite Hb in Hrb.
  destruct (rep_pupd_same_root_fresh h (hset h' x (G.Node_with_Parent (Some b) (leafnode key val))) (PT b bc bl bk bv br) B' p' T None Hrep Hnd Hs)
    as (R1 & R2 & R3 & R4).
  - subst B'. destruct d; reflexivity.
  - subst B'. intros y Hy. destruct d; cbn [pchild] in Hc; subst; cbn [addrs leaf In app] in *; rewrite ?in_app_iff in *; cbn [In] in *;
      intuition (subst; auto).
  - cbn [addrs] in Hndb. inversion Hndb as [|? ? Hnb Hnd2]; subst. subst B'.
    destruct d; cbn [pchild] in Hc; subst; cbn [addrs leaf app] in *.
    + constructor; [cbn [In]; intros [E|Hy]; [congruence|contradiction]|]. constructor; [|exact Hnd2].
      intro Hy. apply Hx. eapply psub_addrs; [exact Hs|]. cbn [addrs app]. now right.
    + rewrite app_nil_r in *. constructor.
      * intro Hy. apply in_app_or in Hy. destruct Hy as [Hy|[E|[]]]; [contradiction|congruence].
      * apply NoDup_app_intro; [exact Hnd2|repeat constructor; intros []|].
        intros y Hy1 [<-|[]]. apply Hx. eapply psub_addrs; [exact Hs|]. cbn [addrs]. right. rewrite app_nil_r. exact Hy1.
  - intros pps Hr0. pose proof (rep_root_deref _ _ _ _ _ _ _ _ Hr0) as Hd0. pose proof (rep_root_deref _ _ _ _ _ _ _ _ Hrb) as Hd1.
    rewrite Hd1 in Hd0. injection Hd0 as E. assert (pps = pptr_from None T p') by (unfold node_of in E; congruence). subst pps.
    simpl in Hr0. destruct Hr0 as (_ & Hl & Hr). destruct (nodup_root_children _ _ _ _ _ _ Hndb) as (Dl & Dr).
    assert (Hfr' : forall z, In z (addrs bl ++ addrs br) -> hread (hset h' x (G.Node_with_Parent (Some b) (leafnode key val))) z = hread h z).
    { intros z Hz. rewrite hread_hset. assert (z <> x) by (intros ->; apply Hx; eapply psub_addrs; [exact Hs|]; cbn [addrs]; now right).
      assert (z <> b) by (apply in_app_or in Hz; destruct Hz; auto). eqb_simpl. now apply Hfr. }
    subst B'. destruct d; cbn [pchild] in Hc; subst; cbn [rep leaf].
    + split; [rewrite hread_hset; eqb_simpl; rewrite Hb'; reflexivity|]. split.
      * split; [rewrite hread_hset, Nat.eqb_refl; reflexivity|split; exact I].
      * eapply rep_frame; [|exact Hr]. intros z Hz. apply Hfr'. apply in_or_app. now right.
    + split; [rewrite hread_hset; eqb_simpl; rewrite Hb'; reflexivity|]. split.
      * eapply rep_frame; [|exact Hl]. intros z Hz. apply Hfr'. apply in_or_app. now left.
      * split; [rewrite hread_hset, Nat.eqb_refl; reflexivity|split; exact I].
  - intros y Hy Hny. rewrite hread_hset. assert (y <> x) by (intros ->; contradiction).
    assert (y <> b) by (intros ->; apply Hny; now left). eqb_simpl. now apply Hfr.
  - split; [exact R1|]. split; [exact R2|]. now rewrite R4.
Qed.

Lemma found_update : forall h h' tr T p a c l k v r key val,
  tree_inv h tr T -> pget T p = PT a c l k v r ->
  hread h' a = Some (node_of (pptr_from None T p) c l key val r) ->
  (forall y, y <> a -> hread h' y = hread h y) ->
  tree_inv h' tr (pupd T p (PT a c l key val r)).
Proof.
  intros h h' tr T p a c l k v r key val (Hrep & Hnd & Hroot) Hg Ha Hfr.
  assert (Hs : psub T p = Some (PT a c l k v r)) by (rewrite <- Hg; apply pget_psub; rewrite Hg; discriminate).
  pose proof (psub_nodup _ _ _ Hnd Hs) as Hnds. destruct (nodup_root_children _ _ _ _ _ _ Hnds) as (Dl & Dr).
  pose proof (rep_sub p h None T Hrep) as Hrs. rewrite Hg in Hrs.
  destruct (rep_pupd_same_root h h' (PT a c l k v r) (PT a c l key val r) p T None Hrep Hnd Hs) as (R1 & R2 & R3 & R4); auto.
  - intros pps Hr0. pose proof (rep_root_deref _ _ _ _ _ _ _ _ Hr0) as Hd0. pose proof (rep_root_deref _ _ _ _ _ _ _ _ Hrs) as Hd1.
    rewrite Hd1 in Hd0. injection Hd0 as E. assert (pps = pptr_from None T p) by (unfold node_of in E; congruence). subst pps.
    simpl in Hr0. destruct Hr0 as (_ & Hl & Hr). cbn [rep]. split; [exact Ha|]. split.
    + eapply rep_frame; [|exact Hl]. intros y Hy. apply Hfr. now apply Dl.
    + eapply rep_frame; [|exact Hr]. intros y Hy. apply Hfr. now apply Dr.
  - intros y Hy Hny. apply Hfr. intros ->. apply Hny. now left.
  - split; [exact R1|]. split; [exact R2|]. now rewrite R4.
Qed.

Lemma heap_ok_upd : forall h tr T h' tr' T', heap_ok h -> upd_ok h tr T h' tr' T' ->
  (forall a, In a (addrs T) -> (a < hnext h)%nat) -> heap_ok h'.
Proof.
  intros h tr T h' tr' T' Hok (_ & _ & _ & Hfr & Hn & _) Hlt y Hy. rewrite Hn.
  destruct (in_dec Nat.eq_dec y (addrs T)) as [Hi|Hi]; [now apply Hlt|]. apply Hok. now rewrite <- (Hfr y Hi).
Qed.

Lemma addrs_pupd_leaf : forall p pt x key val a, In a (addrs (pupd pt p (leaf x key val))) -> a = x \/ In a (addrs pt).
Proof.
  induction p as [|d p IH]; intros pt x key val a Ha.
  - cbn [pupd leaf addrs In app] in Ha. destruct Ha as [E|[]]. now left.
  - destruct pt as [|a1 c1 l1 k1 v1 r1]; [cbn [pupd] in Ha; contradiction|]. cbn [pupd] in Ha.
    destruct d; cbn [addrs In] in *; rewrite in_app_iff in *; destruct Ha as [E|[Ha|Ha]]; auto;
      destruct (IH _ _ _ _ _ Ha); auto.
Qed.

Lemma erase_root_E : forall pt, erase pt = RB.E -> pt = PE.
Proof. destruct pt; [reflexivity|discriminate]. Qed.

(* OBLIGATION *)
Theorem Put_correct : forall mag h tr t key val fuel n t' b,
  tree_repr h tr t -> heap_ok h -> RB.put (G.Tree_Comparator tr) key val t = Some (t', b) ->
  (3 * RB.height t + 3 <= fuel)%nat ->
  exists h' tr', G.Put mag fuel n h tr key val = Some ((n + RB.put_cost (G.Tree_Comparator tr) key t)%nat, h', tr') /\
    tree_repr h' tr' t' /\ heap_ok h' /\
    G.Tree_size tr' = G.Tree_size tr + (if b then 1 else 0) /\ G.Tree_Comparator tr' = G.Tree_Comparator tr /\
    (hnext h <= hnext h')%nat.
Proof.
  intros mag h tr t key val fuel n t' b (pt & <- & Hroot & Hrep & Hnd) Hok Hput Hf.
  set (cmp := G.Tree_Comparator tr) in *. set (x := hnext h).
  assert (Hlt : forall a, In a (addrs pt) -> (a < x)%nat) by (intros a Ha; apply Hok; eapply rep_allocated; eauto).
  assert (Hfresh : forall a, In a (addrs pt) -> a <> x) by (intros a Ha; specialize (Hlt a Ha); lia).
  assert (Hinv : tree_inv h tr pt) by (split; [exact Hrep|split; [exact Hnd|now symmetry]]).
  (* the model's insertion on the address-carrying tree *)
  unfold RB.put in Hput. rewrite <- (erase_pins cmp key val x pt) in Hput.
  destruct (pins cmp key val x pt) as [[[pt' st] b']|] eqn:Epins; [|discriminate]. cbn [omap fst snd] in Hput.
  destruct pt as [|a0 c0 l0 k0 v0 r0].
  - (* empty tree *)
    cbn [pins] in Epins. injection Epins as <- <- <-. injection Hput as <- <-.
    unfold G.Put. rewrite <- Hroot. cbn [root_ptr is_nil alloc]. cbn [G.Tree_set_Root G.Tree_Root].
    change (mkheap ((hnext h, G.mkNode key val G.red None None None) :: hcells h) (S (hnext h))) with (halloc h (leafnode key val)).
    set (tr1 := G.Tree_set_Root tr (Some (hnext h))).
    assert (Hinv1 : tree_inv (halloc h (leafnode key val)) tr1 (leaf x key val)).
    { split; [|split; [repeat constructor; intros []|reflexivity]]. cbn [leaf rep]. split; [|split; exact I].
      rewrite hread_halloc. fold x. rewrite Nat.eqb_refl. reflexivity. }
    destruct (insertCase1_pfix [] (leaf x key val) _ _ tr1 x RB.Red PE key val PE fuel Hinv1 eq_refl eq_refl ltac:(cbn [length]; lia))
      as (h2 & tr2 & Hrun & U2).
    fold x. fold x in Hrun. rewrite Hrun. eexists _, _. split; [cbn [erase RB.put_cost]; rewrite Nat.add_1_r; reflexivity|].
    destruct U2 as ((R1 & R2 & R3) & Hsz & Hcmp & Hfr & Hnx & _). split; [|split; [|split; [|split]]].
    + exists (psetcol RB.Black (leaf x key val)). split; [reflexivity|]. split; [cbn [G.Tree_set_size G.Tree_Root]; now rewrite R3|]. split; assumption.
    + intros y Hy. rewrite Hnx. cbn [halloc alloc fst hnext]. destruct (Nat.eq_dec y x) as [->|Hyx]; [fold x; lia|].
      assert (hread h y <> None); [|specialize (Hok y H); fold x in Hok; lia].
      rewrite (Hfr y) in Hy by (cbn [leaf addrs In app]; intuition). rewrite hread_halloc in Hy. fold x in Hy.
      apply Nat.eqb_neq in Hyx. now rewrite Hyx in Hy.
    + cbn [G.Tree_set_size G.Tree_size]. rewrite Hsz. reflexivity.
    + cbn [G.Tree_set_size G.Tree_Comparator]. rewrite Hcmp. reflexivity.
    + rewrite Hnx. cbn [halloc alloc fst hnext]. lia.
  - (* the descent *)
    set (pt := PT a0 c0 l0 k0 v0 r0) in *.
    pose proof (Put_loop_spec mag tr key val pt pt [] h n fuel None Hrep eq_refl ltac:(discriminate)
                  ltac:(subst pt; cbn [erase RB.height] in *; lia) Hfresh) as Hloop.
    cbv zeta in Hloop. fold cmp in Hloop.
    unfold G.Put. rewrite <- Hroot. subst pt. cbn [root_ptr is_nil]. set (pt := PT a0 c0 l0 k0 v0 r0) in *.
    change (Some a0) with (root_ptr pt). change (RB.put_cost (G.Tree_Comparator tr) key (erase pt)) with (RB.lookup_cost cmp key (erase pt)).
    destruct (pget pt (dpath cmp key pt)) as [|a c l k v r] eqn:Eg.
    + (* a new leaf *)
      destruct Hloop as (h1 & p' & d & bb & bc & bl & bk & bv & br & Hrun & Hp & Hb & Hc & H1 & H2 & H3 & H4).
      rewrite Hrun. cbn [app] in H2.
      assert (Hbb : b' = true).
      { destruct b'; [reflexivity|]. destruct (pins_found _ _ _ _ _ _ _ Epins) as (? & ? & ? & ? & ? & ? & E & _). fold cmp in E. congruence. }
      subst b'.
      assert (Hxf : ~ In x (addrs pt)) by (intro Hx; apply (Hfresh x Hx); reflexivity).
      pose proof (link_leaf h h1 tr pt p' d bb bc bl bk bv br x key val Hinv Hb Hc Hxf H1 H2 H3) as Hinv2.
      rewrite <- Hp in Hinv2.
      assert (Hx1 : hread h1 x = Some (leafnode key val)) by exact H1.
      erewrite (store_hset h1 x _ _ Hx1).
      assert (Hvp : pvalid pt (dpath cmp key pt)).
      { rewrite Hp. apply pvalid_snoc; [apply pvalid_of_get|]; rewrite Hb; discriminate. }
      pose proof (pfix_pins cmp key val x pt pt' st Epins) as Hfix.
      assert (exists T', pfix (pupd pt (dpath cmp key pt) (leaf x key val)) (rev (dpath cmp key pt)) = Some T' /\ erase T' = t' /\ b = true) as (T' & HfixT & HeT & Hbt).
      { rewrite Hfix. destruct st as [| |dd]; [| |discriminate].
        - injection Hput as <- <-. eauto.
        - injection Hput as <- <-. eexists. split; [reflexivity|]. split; [apply erase_psetcol|reflexivity]. }
      subst b.
      destruct (insertCase1_pfix (rev (dpath cmp key pt)) _ T' _ tr x RB.Red PE key val PE fuel Hinv2
                  ltac:(rewrite rev_involutive; apply pget_pupd_valid; exact Hvp) HfixT
                  ltac:(rewrite rev_length; pose proof (dpath_length cmp key pt); subst pt; cbn [erase RB.height] in *; lia))
        as (h3 & tr3 & Hrun3 & U3).
      fold x. rewrite Hrun3. eexists _, _. split; [reflexivity|].
      assert (Hlt2 : forall a, In a (addrs (pupd pt (dpath cmp key pt) (leaf x key val))) -> (a < hnext (hset h1 x (G.Node_with_Parent (Some bb) (leafnode key val))))%nat).
      { intros a Ha. cbn [hset hnext]. rewrite H4. fold x.
        destruct (addrs_pupd_leaf _ _ _ _ _ _ Ha) as [->|Hi]; [lia|]. specialize (Hlt a Hi). lia. }
      assert (Hok2 : heap_ok (hset h1 x (G.Node_with_Parent (Some bb) (leafnode key val)))).
      { intros y Hy. cbn [hset hnext]. rewrite H4. fold x. rewrite hread_hset in Hy. destruct (Nat.eqb y x) eqn:Ey; [apply Nat.eqb_eq in Ey; lia|].
        apply Nat.eqb_neq in Ey. destruct (Nat.eq_dec y bb) as [->|Hyb].
        - assert (Hs : psub pt p' = Some (PT bb bc bl bk bv br)) by (rewrite <- Hb; apply pget_psub; rewrite Hb; discriminate).
          assert (In bb (addrs pt)) by (eapply psub_addrs; [exact Hs|now left]). specialize (Hlt bb H). lia.
        - rewrite H3 in Hy by assumption. specialize (Hok y Hy). fold x in Hok. lia. }
      pose proof (heap_ok_upd _ _ _ _ _ _ Hok2 U3 Hlt2) as Hok3.
      destruct U3 as ((R1 & R2 & R3) & Hsz & Hcmp & Hfr & Hnx & _). split; [|split; [exact Hok3|split; [|split]]].
      * exists T'. split; [exact HeT|]. split; [cbn [G.Tree_set_size G.Tree_Root]; now rewrite R3|]. split; assumption.
      * cbn [G.Tree_set_size G.Tree_size]. rewrite Hsz. reflexivity.
      * cbn [G.Tree_set_size G.Tree_Comparator]. rewrite Hcmp. reflexivity.
      * rewrite Hnx. cbn [hset hnext]. rewrite H4. lia.
    + (* an equal key: overwrite *)
      destruct Hloop as (Heq & h1 & Hrun & H1 & H2 & H3). rewrite Hrun. cbn [app] in H1.
      assert (Hbb : b' = false).
      { destruct b'; [|reflexivity]. exfalso.
        clear - Epins Eg Heq. fold cmp in Heq. revert pt' st Epins a c l k v r Eg Heq. generalize pt as s.
        induction s as [|a1 c1 l1 IHl k1 v1 r1 IHr]; intros pt' st Epins a c l k v r Eg Heq; [discriminate|].
        cbn [pins dpath] in *. destruct (cmp key k1) eqn:E1; [discriminate| |].
        - destruct (pins cmp key val x l1) as [[[l' stl] bl]|] eqn:El; [|discriminate].
          destruct (pins_up a1 c1 l' k1 v1 r1 RB.L stl) as [[s'' st'']|]; [|discriminate]. injection Epins as _ _ ->.
          cbn [pget pchild] in Eg. eapply IHl; eauto.
        - destruct (pins cmp key val x r1) as [[[r' str] br]|] eqn:Er; [|discriminate].
          destruct (pins_up a1 c1 l1 k1 v1 r' RB.R str) as [[s'' st'']|]; [|discriminate]. injection Epins as _ _ ->.
          cbn [pget pchild] in Eg. eapply IHr; eauto. }
      subst b'. destruct (pins_found _ _ _ _ _ _ _ Epins) as (a' & c' & l' & k' & v' & r' & Eg' & _ & -> & ->).
      fold cmp in Eg'. rewrite Eg in Eg'. injection Eg' as <- <- <- <- <- <-. injection Hput as <- <-.
      pose proof (found_update h h1 tr pt _ a c l k v r key val Hinv Eg H1 H2) as (R1 & R2 & R3).
      eexists _, _. split; [reflexivity|]. split; [|split; [|split; [|split]]].
      * eexists. split; [reflexivity|]. split; [now rewrite R3|]. split; assumption.
      * intros y Hy. rewrite H3. destruct (Nat.eq_dec y a) as [->|Hya]; [|rewrite H2 in Hy by exact Hya; now apply Hok].
        assert (Hs : psub pt (dpath cmp key pt) = Some (PT a c l k v r)) by (rewrite <- Eg; apply pget_psub; rewrite Eg; discriminate).
        apply Hlt. eapply psub_addrs; [exact Hs|now left].
      * lia.
      * reflexivity.
      * rewrite H3. lia.
Qed.
Print Assumptions Put_correct.

(* ---------- runs of Put from the generated constructor never fail ---------- *)
From Gods Require Proofs.RBInv.

Lemma ins_fix_g_count : forall gc gl gk gv gr s d t' st, RB.ins_fix_g gc gl gk gv gr s d = Some (t', st) ->
  RB.count t' = S (RB.count gl + RB.count gr).
Proof.
  intros gc gl gk gv gr s d t' st H. unfold RB.ins_fix_g in H. destruct s.
  - destruct (RB.is_red gr).
    + injection H as <- _. destruct gl, gr; cbn; lia.
    + destruct gl as [|pc pl pk pv pr]; [discriminate|]. destruct d; [injection H as <- _; cbn; lia|].
      destruct pr; [discriminate|]. injection H as <- _. cbn. lia.
  - destruct (RB.is_red gl).
    + injection H as <- _. destruct gl, gr; cbn; lia.
    + destruct gr as [|pc pl pk pv pr]; [discriminate|]. destruct d; [|injection H as <- _; cbn; lia].
      destruct pl; [discriminate|]. injection H as <- _. cbn. lia.
Qed.
Lemma ins_count : forall cmp key val t t' st b, RB.ins cmp key val t = Some (t', st, b) ->
  RB.count t' = (RB.count t + if b then 1 else 0)%nat.
Proof.
  intros cmp key val. induction t as [|c l IHl k v r IHr]; intros t' st b H.
  - injection H as <- _ <-. reflexivity.
  - cbn [RB.ins] in H. destruct (cmp key k).
    + injection H as <- _ <-. cbn. lia.
    + destruct (RB.ins cmp key val l) as [[[l' stl] bl]|]; [|discriminate]. specialize (IHl _ _ _ eq_refl).
      destruct (RB.ins_up c l' k v r RB.L stl) as [[t'' st'']|] eqn:E; [|discriminate]. injection H as <- _ <-.
      destruct stl; cbn [RB.ins_up] in E; [injection E as <- _; cbn; lia|destruct c; injection E as <- _; cbn; lia|].
      rewrite (ins_fix_g_count _ _ _ _ _ _ _ _ _ E). cbn. lia.
    + destruct (RB.ins cmp key val r) as [[[r' str] br]|]; [|discriminate]. specialize (IHr _ _ _ eq_refl).
      destruct (RB.ins_up c l k v r' RB.R str) as [[t'' st'']|] eqn:E; [|discriminate]. injection H as <- _ <-.
      destruct str; cbn [RB.ins_up] in E; [injection E as <- _; cbn; lia|destruct c; injection E as <- _; cbn; lia|].
      rewrite (ins_fix_g_count _ _ _ _ _ _ _ _ _ E). cbn. lia.
Qed.
Lemma put_count : forall cmp key val t t' b, RB.put cmp key val t = Some (t', b) ->
  RB.count t' = (RB.count t + if b then 1 else 0)%nat.
Proof.
  intros cmp key val t t' b H. unfold RB.put in H. destruct (RB.ins cmp key val t) as [[[t1 st] b1]|] eqn:E; [|discriminate].
  pose proof (ins_count _ _ _ _ _ _ _ E) as Hc. destruct st; [injection H as <- <-; exact Hc| |discriminate].
  injection H as <- <-. destruct t1; exact Hc.
Qed.
Lemma height_le_count : forall t, (RB.height t <= RB.count t)%nat.
Proof. induction t; cbn; lia. Qed.

Fixpoint gen_puts (mag : Z -> Z -> positive) (fuel : nat) (kvs : list (Z * Z)) (st : nat * heap G.Node * G.Tree)
  : option (nat * heap G.Node * G.Tree) :=
  match kvs with
  | [] => Some st
  | (k, v) :: rest => let '(n, h, tr) := st in
                      match G.Put mag fuel n h tr k v with Some st' => gen_puts mag fuel rest st' | None => None end
  end.
Fixpoint model_puts (cmp : cmpf) (kvs : list (Z * Z)) (t : RB.tree) : RB.tree :=
  match kvs with
  | [] => t
  | (k, v) :: rest => match RB.put cmp k v t with Some (t', _) => model_puts cmp rest t' | None => t end
  end.
Fixpoint model_cost (cmp : cmpf) (kvs : list (Z * Z)) (t : RB.tree) : nat :=
  match kvs with
  | [] => 0%nat
  | (k, v) :: rest => (RB.put_cost cmp k t + match RB.put cmp k v t with Some (t', _) => model_cost cmp rest t' | None => 0 end)%nat
  end.

Lemma gen_puts_from : forall mag kvs fuel n h tr t,
  tree_repr h tr t -> heap_ok h -> RBInv.rbt t -> G.Tree_size tr = Z.of_nat (RB.count t) ->
  (3 * (RB.count t + length kvs) + 3 <= fuel)%nat ->
  let cmp := G.Tree_Comparator tr in
  exists h' tr', gen_puts mag fuel kvs (n, h, tr) = Some ((n + model_cost cmp kvs t)%nat, h', tr') /\
    tree_repr h' tr' (model_puts cmp kvs t) /\ heap_ok h' /\ RBInv.rbt (model_puts cmp kvs t) /\
    G.Tree_size tr' = Z.of_nat (RB.count (model_puts cmp kvs t)) /\ G.Tree_Comparator tr' = cmp.
Proof.
  intros mag. induction kvs as [|[k v] rest IH]; intros fuel n h tr t Hrepr Hok Hrbt Hsz Hf cmp.
  - exists h, tr. cbn [gen_puts model_puts model_cost]. rewrite Nat.add_0_r.
    split; [reflexivity|]. split; [exact Hrepr|]. split; [exact Hok|]. split; [exact Hrbt|]. split; [exact Hsz|reflexivity].
  - cbn [gen_puts model_puts model_cost]. destruct (RBInv.put_rbt cmp k v t Hrbt) as (t' & b & Hput & Hrbt').
    pose proof (height_le_count t) as Hh. cbn [length] in Hf.
    destruct (Put_correct mag h tr t k v fuel n t' b Hrepr Hok Hput ltac:(lia)) as (h1 & tr1 & Hrun & Hrepr1 & Hok1 & Hsz1 & Hcmp1 & _).
    rewrite Hrun, Hput. pose proof (put_count _ _ _ _ _ _ Hput) as Hc.
    destruct (IH fuel (n + RB.put_cost (G.Tree_Comparator tr) k t)%nat h1 tr1 t' Hrepr1 Hok1 Hrbt'
                ltac:(rewrite Hsz1, Hsz, Hc; destruct b; lia) ltac:(rewrite Hc; destruct b; lia)) as (h2 & tr2 & Hrun2 & R).
    rewrite Hcmp1 in Hrun2, R. fold cmp in Hrun2, R. exists h2, tr2. fold cmp. rewrite Hrun2. split; [f_equal; f_equal; f_equal; fold cmp; lia|exact R].
Qed.

(* OBLIGATION *)
Theorem gen_puts_ok : forall mag cmp kvs fuel, (3 * length kvs + 3 <= fuel)%nat ->
  exists tr0 h tr, G.NewWith empty_heap cmp = Some tr0 /\
    gen_puts mag fuel kvs (O, empty_heap, tr0) = Some (model_cost cmp kvs RB.E, h, tr) /\
    tree_repr h tr (model_puts cmp kvs RB.E) /\ RBInv.rbt (model_puts cmp kvs RB.E) /\
    G.Tree_size tr = Z.of_nat (RB.count (model_puts cmp kvs RB.E)) /\ heap_ok h.
Proof.
  intros mag cmp kvs fuel Hf. eexists. 
  destruct (gen_puts_from mag kvs fuel O empty_heap (G.mkTree None 0 cmp) RB.E) as (h & tr & Hrun & R1 & R2 & R3 & R4 & _).
  - exists PE. split; [reflexivity|]. split; [reflexivity|]. split; [exact I|constructor].
  - apply heap_ok_empty.
  - apply RBInv.rbt_E.
  - reflexivity.
  - cbn [RB.count]. lia.
  - exists h, tr. split; [reflexivity|]. cbn [G.Tree_Comparator] in *. split; [exact Hrun|]. split; [exact R1|]. split; [exact R3|]. split; [exact R4|exact R2].
Qed.
Print Assumptions gen_puts_ok.
