(* The REPRESENTATION of a functional B-tree (Model/BTree.v: [N es cs]) by a heap of GENERATED Node records
   (GodsGen.BTreeHeapGen, regenerated from trees/btree/btree.go on every run: Node{Parent; Entries; Children} with the
   two slices as lists of optional entries / optional addresses).

   [pnode] is a functional B-tree node whose nodes carry their ADDRESS; [rep h pp pt] says that every node of pt is stored
   at its address as mkNode (address of its parent, pp for the root) (its entries, none nil) (the addresses of its
   children, none nil).  [brepr h p pp t] is the predicate on plain model trees: some address assignment with DISTINCT
   addresses represents t at pointer p.  No hypothesis on the shape / order / fill of t. *)
From Coq Require Import ZArith List Lia Bool Arith.
From Gods Require Import Common.Cmp Model.BTree.
From Gods Require Model.BTreeIter.
From GodsGenProofs Require Import GoCmp GoTreeHeap GoBTreeHeap.
From GodsGen Require BTreeHeapGen.
Import ListNotations.
Local Open Scope Z_scope.

Module G := BTreeHeapGen.
Module BT := BTree.

Inductive pnode := PN (a : nat) (es : list BT.entry) (cs : list pnode).

Definition paddr (t : pnode) : nat := match t with PN a _ _ => a end.
Definition pentries (t : pnode) : list BT.entry := match t with PN _ es _ => es end.
Definition pchildren (t : pnode) : list pnode := match t with PN _ _ cs => cs end.

Fixpoint erase (t : pnode) : BT.node := match t with PN _ es cs => BT.N es (map erase cs) end.
Fixpoint addrs (t : pnode) : list nat := match t with PN a _ cs => a :: flat_map addrs cs end.

Section Ind.
Variable P : pnode -> Prop.
Hypothesis HN : forall a es cs, Forall P cs -> P (PN a es cs).
Fixpoint pnode_ind2 (t : pnode) : P t :=
  match t with
  | PN a es cs =>
    HN a es cs ((fix go (l : list pnode) : Forall P l :=
                   match l with
                   | [] => Forall_nil P
                   | c :: l' => Forall_cons c (pnode_ind2 c) (go l')
                   end) cs)
  end.
End Ind.

Definition eptrs (es : list BT.entry) : list (option (Z * Z)) := map (@Some (Z * Z)) es.
Definition cptrs (cs : list pnode) : list ptr := map (fun c => Some (paddr c)) cs.
Definition node_of (pp : ptr) (es : list BT.entry) (cs : list pnode) : G.Node := G.mkNode pp (eptrs es) (cptrs cs).

Fixpoint rep (h : heap G.Node) (pp : ptr) (t : pnode) : Prop :=
  match t with
  | PN a es cs =>
    hread h a = Some (node_of pp es cs) /\
    (fix all (l : list pnode) : Prop := match l with [] => True | c :: l' => rep h (Some a) c /\ all l' end) cs
  end.

Lemma rep_unfold : forall h pp a es cs,
  rep h pp (PN a es cs) <-> hread h a = Some (node_of pp es cs) /\ Forall (rep h (Some a)) cs.
Proof.
  intros h pp a es cs. cbn [rep]. generalize (node_of pp es cs) as nd. intros nd.
  split; intros [H1 H2]; (split; [exact H1|]); clear H1.
  - induction cs as [|c cs IH]; [constructor|]. destruct H2 as [Hc Hr]. constructor; [exact Hc|exact (IH Hr)].
  - induction cs as [|c cs IH]; [exact I|]. inversion H2; subst. split; [assumption|apply IH; assumption].
Qed.

Definition brepr (h : heap G.Node) (p pp : ptr) (t : BT.node) : Prop :=
  exists pt, erase pt = t /\ p = Some (paddr pt) /\ rep h pp pt /\ NoDup (addrs pt).

(* the tree header: Root is nil for the empty tree, else points to the represented root (whose Parent is nil) *)
Definition root_repr (h : heap G.Node) (tr : G.Tree) (ot : option BT.node) : Prop :=
  match ot with
  | None => G.Tree_Root tr = None
  | Some t => brepr h (G.Tree_Root tr) None t
  end.
Definition bcount (ot : option BT.node) : nat := match ot with None => O | Some t => BT.count t end.
(* ... and size counts the entries (an invariant of the writers, checked by the run test of Put) *)
Definition tree_repr (h : heap G.Node) (tr : G.Tree) (ot : option BT.node) : Prop :=
  root_repr h tr ot /\ G.Tree_size tr = Z.of_nat (bcount ot).

Lemma rep_deref : forall h pp a es cs, rep h pp (PN a es cs) -> deref h (Some a) = Some (node_of pp es cs).
Proof. intros h pp a es cs H. apply rep_unfold in H. exact (proj1 H). Qed.

Lemma rep_children : forall h pp a es cs, rep h pp (PN a es cs) -> Forall (rep h (Some a)) cs.
Proof. intros h pp a es cs H. apply rep_unfold in H. exact (proj2 H). Qed.

Lemma rep_child : forall h pp a es cs i c, rep h pp (PN a es cs) -> nth_error cs i = Some c -> rep h (Some a) c.
Proof.
  intros h pp a es cs i c H Hc. pose proof (rep_children _ _ _ _ _ H) as Hf. rewrite Forall_forall in Hf.
  apply Hf. eapply nth_error_In; eauto.
Qed.

Lemma erase_children : forall pt, BT.children (erase pt) = map erase (pchildren pt).
Proof. destruct pt; reflexivity. Qed.
Lemma erase_entries : forall pt, BT.entries (erase pt) = pentries pt.
Proof. destruct pt; reflexivity. Qed.

Lemma nth_cptrs : forall cs i, nth_error (cptrs cs) i = option_map (fun c => Some (paddr c)) (nth_error cs i).
Proof. intros cs i. unfold cptrs. now rewrite nth_error_map. Qed.
Lemma nth_eptrs : forall es i, nth_error (eptrs es) i = option_map (@Some (Z * Z)) (nth_error es i).
Proof. intros es i. unfold eptrs. now rewrite nth_error_map. Qed.
Lemma len_cptrs : forall cs, length (cptrs cs) = length cs.
Proof. intros. unfold cptrs. apply map_length. Qed.
Lemma len_eptrs : forall es, length (eptrs es) = length es.
Proof. intros. unfold eptrs. apply map_length. Qed.
Lemma nth_erase : forall cs i, nth_error (map erase cs) i = option_map erase (nth_error cs i).
Proof. intros. now rewrite nth_error_map. Qed.

(* frame: rep only reads the addresses of the tree *)
Lemma rep_frame : forall h h' pt pp, (forall a, In a (addrs pt) -> hread h' a = hread h a) -> rep h pp pt -> rep h' pp pt.
Proof.
  intros h h' pt. induction pt as [a es cs IH] using pnode_ind2. intros pp Hf H.
  apply rep_unfold in H. destruct H as [Ha Hc]. apply rep_unfold. split.
  - rewrite Hf; [exact Ha|]. cbn [addrs]. now left.
  - rewrite Forall_forall in *. intros c Hin. apply IH; [exact Hin| |apply Hc; exact Hin].
    intros x Hx. apply Hf. cbn [addrs]. right. apply in_flat_map. eauto.
Qed.

(* ---------- paths (the model's iterator locates a node by its path of child indices) ---------- *)
Fixpoint psub (t : pnode) (p : list nat) {struct p} : option pnode :=
  match p with
  | [] => Some t
  | i :: p' => match nth_error (pchildren t) i with Some c => psub c p' | None => None end
  end.

Lemma psub_app : forall p q t, psub t (p ++ q) = match psub t p with Some s => psub s q | None => None end.
Proof.
  induction p as [|i p IH]; intros q t; cbn [app psub]; [reflexivity|].
  destruct (nth_error (pchildren t) i); [apply IH|reflexivity].
Qed.

Lemma nth_addrs : forall cs i c x, nth_error cs i = Some c -> In x (addrs c) -> In x (flat_map addrs cs).
Proof. intros cs i c x H Hx. apply in_flat_map. exists c. split; [eapply nth_error_In; eauto|exact Hx]. Qed.

Lemma psub_addrs : forall p t s x, psub t p = Some s -> In x (addrs s) -> In x (addrs t).
Proof.
  induction p as [|i p IH]; intros t s x H Hx; cbn [psub] in H.
  - now injection H as <-.
  - destruct t as [a es cs]. cbn [pchildren] in H. destruct (nth_error cs i) as [c|] eqn:Ec; [|discriminate].
    cbn [addrs]. right. eapply nth_addrs; eauto.
Qed.

Lemma NoDup_app_l : forall (A : Type) (l1 l2 : list A), NoDup (l1 ++ l2) -> NoDup l1.
Proof.
  intros A l1. induction l1 as [|x l1 IH]; intros l2 H; [constructor|].
  inversion H; subst. constructor; [intro Hx; apply H2; apply in_or_app; now left|eapply IH; eauto].
Qed.
Lemma NoDup_app_r : forall (A : Type) (l1 l2 : list A), NoDup (l1 ++ l2) -> NoDup l2.
Proof.
  intros A l1. induction l1 as [|x l1 IH]; intros l2 H; [exact H|]. inversion H; subst. eapply IH; eauto.
Qed.
Lemma NoDup_app_disj : forall (A : Type) (l1 l2 : list A) x, NoDup (l1 ++ l2) -> In x l1 -> In x l2 -> False.
Proof.
  intros A l1. induction l1 as [|y l1 IH]; intros l2 x H H1 H2; [contradiction|].
  inversion H; subst. destruct H1 as [->|H1]; [apply H4; apply in_or_app; now right|eapply IH; eauto].
Qed.

Lemma NoDup_flat_nth : forall cs i c, NoDup (flat_map addrs cs) -> nth_error cs i = Some c -> NoDup (addrs c).
Proof.
  induction cs as [|c0 cs IH]; intros i c Hn H; [destruct i; discriminate|]. cbn [flat_map] in Hn.
  destruct i as [|i]; cbn [nth_error] in H.
  - injection H as <-. eapply NoDup_app_l; eauto.
  - eapply IH; [eapply NoDup_app_r; eauto|exact H].
Qed.

(* two different children have disjoint address sets *)
Lemma NoDup_flat_disj : forall cs i j ci cj x, NoDup (flat_map addrs cs) -> nth_error cs i = Some ci -> nth_error cs j = Some cj ->
  i <> j -> In x (addrs ci) -> In x (addrs cj) -> False.
Proof.
  induction cs as [|c0 cs IH]; intros i j ci cj x Hn Hi Hj Hij Hxi Hxj; [destruct i; discriminate|].
  cbn [flat_map] in Hn. destruct i as [|i], j as [|j]; cbn [nth_error] in Hi, Hj; try congruence.
  - injection Hi as <-. eapply (NoDup_app_disj _ _ _ x Hn); [exact Hxi|eapply nth_addrs; eauto].
  - injection Hj as <-. eapply (NoDup_app_disj _ _ _ x Hn); [exact Hxj|eapply nth_addrs; eauto].
  - eapply (IH i j ci cj x); eauto. eapply NoDup_app_r; eauto.
Qed.

Lemma psub_nodup : forall p t s, NoDup (addrs t) -> psub t p = Some s -> NoDup (addrs s).
Proof.
  induction p as [|i p IH]; intros t s Hn H; cbn [psub] in H.
  - now injection H as <-.
  - destruct t as [a es cs]. cbn [pchildren] in H. destruct (nth_error cs i) as [c|] eqn:Ec; [|discriminate].
    cbn [addrs] in Hn. inversion Hn; subst. eapply IH; [|exact H]. eapply NoDup_flat_nth; eauto.
Qed.

Lemma paddr_in : forall t, In (paddr t) (addrs t).
Proof. destruct t. cbn. now left. Qed.

(* the node at a path and the address of its parent *)
Lemma rep_psub : forall h p t pp s, rep h pp t -> psub t p = Some s -> exists pp', rep h pp' s.
Proof.
  intros h. induction p as [|i p IH]; intros t pp s Hrep H; cbn [psub] in H.
  - injection H as <-. eauto.
  - destruct t as [a es cs]. cbn [pchildren] in H. destruct (nth_error cs i) as [c|] eqn:Ec; [|discriminate].
    eapply IH; [eapply rep_child; eauto|exact H].
Qed.

Lemma psub_erase : forall p t, BTreeIter.node_at (erase t) p = option_map erase (psub t p).
Proof.
  induction p as [|i p IH]; intros t; cbn [BTreeIter.node_at psub option_map]; [reflexivity|].
  rewrite erase_children, nth_erase. destruct (nth_error (pchildren t) i) as [c|]; cbn [option_map]; [apply IH|reflexivity].
Qed.
