(* sets/linkedhashset/serialization.go (in GodsGen.LinkedHashSetGen), encoding/json abstract: FromJSON is atomic on a
   decode error and otherwise Machine.load_array (Clear, then Add(elements...) in document order); ToJSON marshals
   Values(); MarshalJSON / UnmarshalJSON delegate. *)
From Coq Require Import ZArith List Lia Bool Arith.
From Gods Require Import Common.Cmp Common.ListAux Spec.SeqSpec Model.Ops Model.Lists Model.Machine.
From GodsGen Require LinkedHashSetGen.
From GodsGenProofs Require Import GenIterRun WrapCommon GoMap GoJson LinkedHashSetGenProofs.
Import ListNotations.
Local Open Scope Z_scope.

Section Json.
Variable um : bytes -> list Z -> list Z * bool.
Variable ms : list Z -> bytes * bool.
Variable c : config.
Hypothesis Hk : ckind c = LinkedHashSet.

(* OBLIGATION *)
Theorem FromJSON_equiv : forall g tbl ord data, lset_rel g tbl ord ->
  if snd (um data []) then L.FromJSON um I g data = (g, true)
  else exists t o, load_array c (fst (um data [])) = StLSet t o /\
         lset_rel (fst (L.FromJSON um I g data)) t o /\ snd (L.FromJSON um I g data) = false.
Proof.
  intros g tbl ord data Hrel. unfold L.FromJSON. destruct (um data []) as [vs e]. destruct e; cbn [fst snd negb]; [reflexivity|].
  destruct (Clear_equiv c Hk g tbl ord) as [_ HC].
  destruct (Add_equiv c Hk (fst (L.Clear I g)) [] [] vs HC) as (t & o & Hs & Hr).
  exists t, o. unfold load_array. rewrite Hk. unfold init. rewrite Hk.
  unfold step in Hs. rewrite Hk in Hs. injection Hs as Hs.
  destruct (L.Clear I g) as [g1 u1]. cbn [fst] in *. destruct (L.Add I g1 vs) as [g2 u2]. cbn [fst snd] in *. auto.
Qed.

(* OBLIGATION *)
Theorem ToJSON_equiv : forall g,
  L.ToJSON ms I enum g = ms (L.Values I enum g) /\ L.MarshalJSON ms I enum g = L.ToJSON ms I enum g /\
  (forall data, L.UnmarshalJSON um I g data = L.FromJSON um I g data).
Proof.
  intros g. unfold L.ToJSON, L.MarshalJSON, L.UnmarshalJSON. repeat split.
  - now destruct (ms (L.Values I enum g)).
  - unfold L.ToJSON. now destruct (ms (L.Values I enum g)).
  - intros data. now destruct (L.FromJSON um I g data).
Qed.
End Json.

Print Assumptions FromJSON_equiv.
Print Assumptions ToJSON_equiv.
