(* COMPOSITION: trees/binaryheap/binaryheap.go + iterator.go regenerated over an abstract list (GodsGen.BinaryHeapGen, proved against
   Model/Heap.v and the machine in BinaryHeapGenProofs.v / BinaryHeapIterGenProofs.v with the interface instantiated by the sequence
   MODEL of arraylist.List) is here instantiated with the GENERATED capacity-aware ArrayList core (GodsGen.ArrayListCoreGen through
   ArrayListIface.v: Add, Clear, Empty, Get, Remove, Size, Swap and the constructor arraylist.New).  The heap never calls
   list.Values(), so the runtime's allocation policy does not occur.  First the generated heap code is shown to respect the relation
   between the two instantiations (one lemma per generated function / loop); with the theorems of BinaryHeapGenProofs.v this gives
   [binaryheap_over_arraylist_run]: for the framework's comparators and every fuel above the number of pushed values + 2, ANY run of
   generated Push(values...) / Pop / Clear over the generated list code from the generated NewWith(cmp) never returns None, its backing
   slice is well-formed with the list of Machine.run (kind BinaryHeap) as live prefix, and Size / Empty / Peek / Values and the result
   of the next Pop are the machine's -- Values() looping over what the generated ITERATOR (Value() at every index) reads. *)
From Coq Require Import ZArith List Lia Bool Arith Permutation.
From Coq Require Import ZifyBool ZifyNat.
From Gods Require Import Common.Cmp Common.ListAux Spec.SeqSpec Model.Ops Model.Lists Model.Machine.
From Gods Require Model.Heap.
From Gods Require Import Proofs.HeapProofs Proofs.HeapValues Proofs.IterLinear.
From GodsGen Require BinaryHeapGen ArrayListCoreGen.
From GodsGenProofs Require GoCmp GoCmpCall.
From GodsGenProofs Require Import GoSlice GenIterRun WrapCommon ArrayListIface.
From GodsGenProofs Require BinaryHeapGenProofs BinaryHeapIterGenProofs.
Import ListNotations.
Local Open Scope Z_scope.

Module W := BinaryHeapGen.
Module HP := BinaryHeapGenProofs.
Module HI := BinaryHeapIterGenProofs.
Notation LI := HP.LI.

(* the wrapped list: the generated ArrayList core *)
Definition Ia : W.list_iface := W.mk_list_iface A.List c_Add A.Clear A.Empty A.Get A.Remove A.Size A.Swap c_New.

Ltac isimpl := unfold W.set_list; cbn [W.list_ W.Comparator W.list_T W.list_Add W.list_Clear W.list_Empty W.list_Get W.list_Remove W.list_Size W.list_Swap W.list_pkg_New Ia HP.LI].

(* the generated heap over the generated list / over the model list *)
Definition HR (gp : W.Heap Ia) (gm : W.Heap LI) : Prop :=
  al_rel (W.list_ Ia gp) (W.list_ LI gm) /\ W.Comparator Ia gp = W.Comparator LI gm.
Definition orel {X Y} (Q : X -> Y -> Prop) (x : option X) (y : option Y) : Prop :=
  match x, y with Some a, Some b => Q a b | None, None => True | _, _ => False end.
Definition HR1 {B} (x : W.Heap Ia * B) (y : W.Heap LI * B) : Prop := HR (fst x) (fst y) /\ snd x = snd y.

Lemma HR_mk : forall g l c, al_rel g l -> HR (W.mkHeap Ia g c) (W.mkHeap LI l c).
Proof. intros g l c H. split; [exact H|reflexivity]. Qed.

(* ---------- the generated code respects the relation ---------- *)
Lemma bubbleUp_loop_rel : forall fuel gas gp gm i p, HR gp gm ->
  orel HR1 (W.bubbleUp_loop1 Ia fuel gas gp i p) (W.bubbleUp_loop1 LI fuel gas gm i p).
Proof.
  intros fuel gas. induction gas as [|gas IH]; intros [g c1] [l c2] i p [Hl Hc]; cbn [W.list_ W.Comparator] in Hl, Hc; subst c2;
    cbn [W.bubbleUp_loop1]; (destruct (0 <? i); [|split; [apply HR_mk; exact Hl|reflexivity]]); [exact I|].
  isimpl. rewrite !(c_Get_rel g l Hl).
  destruct (opt_pair (al_get i l)) as [t1 t2]. rewrite ?(c_Get_rel g l Hl). destruct (opt_pair (al_get p l)) as [t3 t4].
  destruct (GoCmpCall.le0 c1 t3 t1); [split; [apply HR_mk; exact Hl|reflexivity]|].
  pose proof (c_Swap_rel g l i p Hl) as Hs. destruct (A.Swap g i p) as [g' u]. cbn [fst] in Hs.
  apply IH. apply HR_mk. exact Hs.
Qed.

Lemma bubbleUp_rel : forall fuel gp gm, HR gp gm -> orel HR1 (W.bubbleUp Ia fuel gp) (W.bubbleUp LI fuel gm).
Proof.
  intros fuel gp gm H. unfold W.bubbleUp. pose proof H as [Hl _]. destruct gp as [g c1], gm as [l c2]. isimpl. cbn [W.list_] in Hl.
  rewrite (c_Size_rel g l Hl). cbv zeta.
  pose proof (bubbleUp_loop_rel fuel fuel _ _ (zlen l - 1) (Z.shiftr (zlen l - 1 - 1) 1) H) as HL.
  destruct (W.bubbleUp_loop1 Ia _ _ _ _ _) as [[gp' i1]|], (W.bubbleUp_loop1 LI _ _ _ _ _) as [[gm' i2]|]; unfold HR1 in *; cbn [orel fst snd] in *; try contradiction; [|exact I].
  split; [exact (proj1 HL)|reflexivity].
Qed.

Lemma bubbleDown_loop_rel : forall fuel gas gp gm i sz li, HR gp gm ->
  orel HR1 (W.bubbleDownIndex_loop1 Ia fuel gas gp i sz li) (W.bubbleDownIndex_loop1 LI fuel gas gm i sz li).
Proof.
  intros fuel gas. induction gas as [|gas IH]; intros [g c1] [l c2] i sz li [Hl Hc]; cbn [W.list_ W.Comparator] in Hl, Hc; subst c2;
    cbn [W.bubbleDownIndex_loop1]; (destruct (li <? sz); [|split; [apply HR_mk; exact Hl|reflexivity]]); [exact I|].
  isimpl. cbv zeta. rewrite !(c_Get_rel g l Hl).
  destruct (opt_pair (al_get li l)) as [t1 t2], (opt_pair (al_get (Z.shiftl i 1 + 2) l)) as [t3 t4].
  set (s := if ((Z.shiftl i 1 + 2 <? sz) && GoCmpCall.gt0 c1 t1 t3)%bool then Z.shiftl i 1 + 2 else li).
  rewrite ?(c_Get_rel g l Hl). destruct (opt_pair (al_get i l)) as [t5 t6]. rewrite ?(c_Get_rel g l Hl).
  destruct (opt_pair (al_get s l)) as [t7 t8].
  destruct (GoCmpCall.gt0 c1 t5 t7); [|split; [apply HR_mk; exact Hl|reflexivity]].
  pose proof (c_Swap_rel g l i s Hl) as Hs. destruct (A.Swap g i s) as [g' u]. cbn [fst] in Hs.
  apply IH. apply HR_mk. exact Hs.
Qed.

Lemma bubbleDownIndex_rel : forall fuel gp gm i, HR gp gm -> orel HR1 (W.bubbleDownIndex Ia fuel gp i) (W.bubbleDownIndex LI fuel gm i).
Proof.
  intros fuel gp gm i H. unfold W.bubbleDownIndex. pose proof H as [Hl _]. destruct gp as [g c1], gm as [l c2]. isimpl. cbn [W.list_] in Hl.
  rewrite (c_Size_rel g l Hl). cbv zeta.
  pose proof (bubbleDown_loop_rel fuel fuel _ _ i (zlen l) (Z.shiftl i 1 + 1) H) as HL.
  destruct (W.bubbleDownIndex_loop1 Ia _ _ _ _ _ _) as [[gp' i1]|], (W.bubbleDownIndex_loop1 LI _ _ _ _ _ _) as [[gm' i2]|]; unfold HR1 in *; cbn [orel fst snd] in *; try contradiction; [|exact I].
  split; [exact (proj1 HL)|reflexivity].
Qed.

Lemma bubbleDown_rel : forall fuel gp gm, HR gp gm -> orel HR1 (W.bubbleDown Ia fuel gp) (W.bubbleDown LI fuel gm).
Proof.
  intros fuel gp gm H. unfold W.bubbleDown. pose proof (bubbleDownIndex_rel fuel gp gm 0 H) as HL.
  destruct (W.bubbleDownIndex Ia fuel gp 0) as [[gp' u1]|], (W.bubbleDownIndex LI fuel gm 0) as [[gm' u2]|]; unfold HR1 in *; cbn [orel fst snd] in *; try contradiction; [|exact I].
  split; [exact (proj1 HL)|reflexivity].
Qed.

Lemma Push_loop_rel : forall fuel gas gp gm vs sz i, HR gp gm ->
  orel HR (W.Push_loop2 Ia fuel gas gp vs sz i) (W.Push_loop2 LI fuel gas gm vs sz i).
Proof.
  intros fuel gas. induction gas as [|gas IH]; intros gp gm vs sz i H; cbn [W.Push_loop2]; (destruct (0 <=? i); [|exact H]); [exact I|].
  pose proof (bubbleDownIndex_rel fuel gp gm i H) as HL.
  destruct (W.bubbleDownIndex Ia fuel gp i) as [[gp' u1]|], (W.bubbleDownIndex LI fuel gm i) as [[gm' u2]|]; unfold HR1 in *; cbn [orel fst snd] in *; try contradiction; [|exact I].
  apply IH. exact (proj1 HL).
Qed.

Lemma add_each_rel : forall (vs : list Z) idx gp gm, HR gp gm ->
  HR (fold_left (fun (h : W.Heap Ia) (ri : Z) => W.set_list Ia h (fst (W.list_Add Ia (W.list_ Ia h) [get vs (Z.to_nat ri)]))) idx gp)
     (fold_left (fun (h : W.Heap LI) (ri : Z) => W.set_list LI h (fst (W.list_Add LI (W.list_ LI h) [get vs (Z.to_nat ri)]))) idx gm).
Proof.
  intros vs idx. induction idx as [|i idx IH]; intros gp gm H; cbn [fold_left]; [exact H|]. apply IH.
  destruct gp as [g c1], gm as [l c2], H as [Hl Hc]. cbn [W.list_ W.Comparator] in Hl, Hc. subst c2. isimpl.
  apply HR_mk. exact (c_Add_rel g l _ Hl).
Qed.

Lemma Push_rel : forall fuel gp gm vs, HR gp gm -> orel HR1 (W.Push Ia fuel gp vs) (W.Push LI fuel gm vs).
Proof.
  intros fuel gp gm vs H. unfold W.Push. destruct (Z.of_nat (length vs) =? 1).
  - destruct gp as [g c1], gm as [l c2]. pose proof H as [Hl Hc]. cbn [W.list_ W.Comparator] in Hl, Hc. subst c2. isimpl.
    pose proof (c_Add_rel g l [get vs (Z.to_nat 0)] Hl) as HA. unfold c_Add at 1. unfold c_Add in HA.
    destruct (A.Add g (sl_of_list [get vs (Z.to_nat 0)])) as [g' u]. cbn [fst] in HA.
    pose proof (bubbleUp_rel fuel _ _ (HR_mk g' _ c1 HA)) as HL.
    destruct (W.bubbleUp Ia fuel _) as [[gp' u1]|], (W.bubbleUp LI fuel _) as [[gm' u2]|]; unfold HR1 in *; cbn [orel fst snd] in *; try contradiction; [|exact I].
    split; [exact (proj1 HL)|reflexivity].
  - cbv zeta.
    match goal with |- orel _ (match W.Push_loop2 Ia _ _ ?a _ _ _ with _ => _ end) (match W.Push_loop2 LI _ _ ?b _ _ _ with _ => _ end) =>
      assert (HF : HR a b) end.
    { pose proof (add_each_rel vs (map Z.of_nat (seq 0 (Z.to_nat (Z.of_nat (length vs))))) gp gm H) as HF.
      match goal with |- HR ?a ?b => match type of HF with HR ?a' ?b' => replace a with a'; [replace b with b'; [exact HF|]|] end end.
      - apply fold_left_ext_in. intros h i _. destruct (W.list_Add LI (W.list_ LI h) _). reflexivity.
      - apply fold_left_ext_in. intros h i _. destruct (W.list_Add Ia (W.list_ Ia h) _). reflexivity. }
    match type of HF with HR ?a ?b => set (hp := a) in *; set (hm := b) in * end.
    assert (Hsz : W.list_Size Ia (W.list_ Ia hp) = W.list_Size LI (W.list_ LI hm)).
    { destruct hp as [g c1], hm as [l c2], HF as [Hl _]. exact (c_Size_rel g l Hl). }
    rewrite Hsz.
    pose proof (Push_loop_rel fuel fuel hp hm vs (Z.quot (W.list_Size LI (W.list_ LI hm)) 2 + 1) (Z.quot (W.list_Size LI (W.list_ LI hm)) 2 + 1) HF) as HL.
    destruct (W.Push_loop2 Ia _ _ _ _ _ _) as [gp'|], (W.Push_loop2 LI _ _ _ _ _ _) as [gm'|]; unfold HR1; cbn [orel fst snd] in *; try contradiction; [|exact I].
    split; [exact HL|reflexivity].
Qed.

Lemma Pop_rel : forall fuel gp gm, HR gp gm -> orel HR1 (W.Pop Ia fuel gp) (W.Pop LI fuel gm).
Proof.
  intros fuel [g c1] [l c2] [Hl Hc]. cbn [W.list_ W.Comparator] in Hl, Hc. subst c2. unfold W.Pop. isimpl. cbv zeta.
  rewrite (c_Get_rel g l Hl), (c_Size_rel g l Hl). destruct (opt_pair (al_get 0 l)) as [v ok].
  destruct (negb ok); [split; [apply HR_mk; exact Hl|reflexivity]|].
  pose proof (c_Swap_rel g l 0 (zlen l - 1) Hl) as Hs. destruct (A.Swap g 0 (zlen l - 1)) as [g1 u]. cbn [fst] in Hs.
  pose proof (c_Remove_rel g1 _ (zlen l - 1) Hs) as Hr. destruct (A.Remove g1 (zlen l - 1)) as [g2 u']. cbn [fst] in Hr.
  pose proof (bubbleDown_rel fuel _ _ (HR_mk g2 _ c1 Hr)) as HL.
  destruct (W.bubbleDown Ia fuel _) as [[gp' u1]|], (W.bubbleDown LI fuel _) as [[gm' u2]|]; unfold HR1 in *; cbn [orel fst snd] in *; try contradiction; [|exact I].
  split; [exact (proj1 HL)|reflexivity].
Qed.

Lemma observers_rel : forall gp gm i, HR gp gm ->
  W.Peek Ia gp = W.Peek LI gm /\ W.Size Ia gp = W.Size LI gm /\ W.Empty Ia gp = W.Empty LI gm /\
  W.withinRange Ia gp i = W.withinRange LI gm i /\ HR (fst (W.Clear Ia gp)) (fst (W.Clear LI gm)).
Proof.
  intros [g c1] [l c2] i [Hl Hc]. cbn [W.list_ W.Comparator] in Hl, Hc. subst c2.
  unfold W.Peek, W.Size, W.Empty, W.withinRange, W.Clear. isimpl.
  rewrite (c_Get_rel g l Hl), (c_Size_rel g l Hl), (c_Empty_rel g l Hl).
  split; [now destruct (opt_pair (al_get 0 l))|]. split; [reflexivity|]. split; [reflexivity|]. split; [reflexivity|].
  pose proof (c_Clear_rel g l Hl) as Hc. destruct (A.Clear g) as [g' u]. cbn [fst] in *. apply HR_mk. exact Hc.
Qed.

Lemma NewWith_rel : forall cmp, HR (W.NewWith Ia cmp) (W.NewWith LI cmp).
Proof. intros cmp. apply HR_mk. exact (c_New_rel []). Qed.

(* the iterator's Value(): the temporary heap is built by the generated NewWith / Push / Pop over the generated list as well *)
Lemma Value_loop1_rel : forall fuel gas it gp gm st en tp tm n, HR gp gm -> HR tp tm ->
  orel HR (W.Value_loop1 Ia fuel gas it gp st en tp n) (W.Value_loop1 LI fuel gas it gm st en tm n).
Proof.
  intros fuel gas. induction gas as [|gas IH]; intros it gp gm st en tp tm n H Ht; cbn [W.Value_loop1]; (destruct (n <? en); [|exact Ht]); [exact I|].
  destruct gp as [g c1], gm as [l c2]. pose proof H as [Hl Hc]. cbn [W.list_ W.Comparator] in Hl, Hc. subst c2. isimpl.
  rewrite (c_Get_rel g l Hl). destruct (opt_pair (al_get n l)) as [v ok].
  pose proof (Push_rel fuel tp tm [v] Ht) as HL.
  destruct (W.Push Ia fuel tp [v]) as [[tp' u1]|], (W.Push LI fuel tm [v]) as [[tm' u2]|]; unfold HR1 in *; cbn [orel fst snd] in *; try contradiction; [|exact I].
  apply IH; [exact H|exact (proj1 HL)].
Qed.

Lemma Value_loop2_rel : forall fuel gas it gp gm st en tp tm n, HR tp tm ->
  orel HR (W.Value_loop2 Ia fuel gas it gp st en tp n) (W.Value_loop2 LI fuel gas it gm st en tm n).
Proof.
  intros fuel gas. induction gas as [|gas IH]; intros it gp gm st en tp tm n Ht; cbn [W.Value_loop2]; (destruct (n <? W.index it - st); [|exact Ht]); [exact I|].
  pose proof (Pop_rel fuel tp tm Ht) as HL.
  destruct (W.Pop Ia fuel tp) as [[tp' [a1 b1]]|], (W.Pop LI fuel tm) as [[tm' [a2 b2]]|]; unfold HR1 in *; cbn [orel fst snd] in *; try contradiction; [|exact I].
  apply IH. exact (proj1 HL).
Qed.

Lemma Value_rel : forall fuel it gp gm, HR gp gm -> W.Value Ia fuel it gp = W.Value LI fuel it gm.
Proof.
  intros fuel it gp gm H. unfold W.Value. destruct (W.evaluateRange fuel (W.index it)) as [[st en]|]; [|reflexivity]. cbv zeta.
  destruct (observers_rel gp gm 0 H) as (_ & Hs & _). rewrite Hs. destruct H as [Hl Hc]. rewrite Hc.
  set (en' := if W.Size LI gm <? en then W.Size LI gm else en).
  pose proof (Value_loop1_rel fuel fuel it gp gm st en' _ _ st (conj Hl Hc) (NewWith_rel (W.Comparator LI gm))) as H1.
  destruct (W.Value_loop1 Ia _ _ _ _ _ _ _ _) as [tp|], (W.Value_loop1 LI _ _ _ _ _ _ _ _) as [tm|]; cbn [orel] in H1; try contradiction; [|reflexivity].
  pose proof (Value_loop2_rel fuel fuel it gp gm st en' tp tm 0 H1) as H2.
  destruct (W.Value_loop2 Ia _ _ _ _ _ _ _ _) as [tp2|], (W.Value_loop2 LI _ _ _ _ _ _ _ _) as [tm2|]; cbn [orel] in H2; try contradiction; [|reflexivity].
  pose proof (Pop_rel fuel tp2 tm2 H2) as H3.
  destruct (W.Pop Ia fuel tp2) as [[tp3 [a1 b1]]|], (W.Pop LI fuel tm2) as [[tm3 [a2 b2]]|]; unfold HR1 in *; cbn [orel fst snd] in *; try contradiction; [|reflexivity].
  destruct H3 as [_ E]. now injection E as -> _.
Qed.

(* what the generated iterator reads at every index: the enumeration Values() loops over *)
Definition iter_enum (fuel : nat) (I0 : W.list_iface) (g : W.Heap I0) : list (Z * Z) :=
  map (fun i => (Z.of_nat i, match W.Value I0 fuel (W.mkIterator (Z.of_nat i)) g with Some v => v | None => 0 end))
      (seq 0 (Z.to_nat (W.Size I0 g))).

Lemma Values_rel : forall fuel gp gm, HR gp gm -> W.Values Ia (iter_enum fuel Ia) gp = W.Values LI (iter_enum fuel LI) gm.
Proof.
  intros fuel gp gm H. unfold W.Values. destruct (observers_rel gp gm 0 H) as (_ & Hs & _).
  change (W.list_Size Ia (W.list_ Ia gp)) with (W.Size Ia gp). change (W.list_Size LI (W.list_ LI gm)) with (W.Size LI gm). rewrite Hs.
  replace (iter_enum fuel Ia gp) with (iter_enum fuel LI gm); [reflexivity|].
  unfold iter_enum. rewrite Hs. apply map_ext. intros i. now rewrite (Value_rel fuel _ gp gm H).
Qed.

(* on the model list that enumeration is the one of BinaryHeapGenProofs *)
Lemma iter_enum_model : forall fuel cmp (h : list Z), (length h + 2 <= fuel)%nat -> zlen h < 2 ^ 62 ->
  iter_enum fuel LI (W.mkHeap LI h cmp) = HP.enum (W.mkHeap LI h cmp).
Proof.
  intros fuel cmp h Hf Hn. unfold iter_enum, HP.enum, indexed, Heap.values. cbn [W.Comparator W.list_]. change (W.Size LI (W.mkHeap LI h cmp)) with (zlen h).
  unfold zlen. rewrite Nat2Z.id. rewrite map_length, seq_length.
  assert (G : forall k lo, (lo + k <= length h)%nat ->
            map (fun i => (Z.of_nat i, match W.Value LI fuel (W.mkIterator (Z.of_nat i)) (W.mkHeap LI h cmp) with Some v => v | None => 0 end)) (seq lo k)
            = combine (zrange (Z.of_nat lo) k) (map (Heap.iter_value cmp h) (seq lo k))).
  { induction k as [|k IH]; intros lo Hlo; cbn [seq map zrange combine]; [reflexivity|].
    rewrite (proj1 (HI.Value_equiv cmp h fuel lo ltac:(lia) Hf Hn)). f_equal.
    replace (Z.of_nat lo + 1) with (Z.of_nat (S lo)) by lia. apply IH. lia. }
  exact (G (length h) 0%nat ltac:(lia)).
Qed.

(* ---------- runs ---------- *)
Definition gen_step_p (fuel : nat) (s : option (W.Heap Ia)) (o : HP.gop) : option (W.Heap Ia) :=
  match s with
  | None => None
  | Some g =>
    match o with
    | HP.GPush vs => match W.Push Ia fuel g vs with Some (g', _) => Some g' | None => None end
    | HP.GPop => match W.Pop Ia fuel g with Some (g', _) => Some g' | None => None end
    | HP.GClear => Some (fst (W.Clear Ia g))
    end
  end.
Definition gen_run_p (fuel : nat) (cmp : cmpf) (ops : list HP.gop) : option (W.Heap Ia) :=
  fold_left (gen_step_p fuel) ops (Some (W.NewWith Ia cmp)).

Lemma gen_run_rel : forall fuel cmp ops, orel HR (gen_run_p fuel cmp ops) (HP.gen_run fuel cmp ops).
Proof.
  intros fuel cmp ops. induction ops as [|o ops IH] using rev_ind; [exact (NewWith_rel cmp)|].
  unfold gen_run_p, HP.gen_run. rewrite !fold_left_app. cbn [fold_left]. fold (gen_run_p fuel cmp ops) (HP.gen_run fuel cmp ops).
  destruct (gen_run_p fuel cmp ops) as [gp|], (HP.gen_run fuel cmp ops) as [gm|]; cbn [orel] in IH; try contradiction; [|exact I].
  destruct o as [vs| |]; cbn [gen_step_p HP.gen_step].
  - pose proof (Push_rel fuel gp gm vs IH) as HL.
    destruct (W.Push Ia fuel gp vs) as [[gp' u1]|], (W.Push LI fuel gm vs) as [[gm' u2]|]; unfold HR1 in *; cbn [orel fst snd] in *; try contradiction; [exact (proj1 HL)|exact I].
  - pose proof (Pop_rel fuel gp gm IH) as HL.
    destruct (W.Pop Ia fuel gp) as [[gp' u1]|], (W.Pop LI fuel gm) as [[gm' u2]|]; unfold HR1 in *; cbn [orel fst snd] in *; try contradiction; [exact (proj1 HL)|exact I].
  - exact (proj2 (proj2 (proj2 (proj2 (observers_rel gp gm 0 IH))))).
Qed.

(* OBLIGATION *)
Theorem binaryheap_over_arraylist_run : forall c ops fuel, ckind c = BinaryHeap -> (HP.pushed ops + 2 <= fuel)%nat ->
  let s := run c (map HP.to_op ops) in
  exists gp l, gen_run_p fuel (kc c) ops = Some gp /\ s = StHeap l /\ al_rel (W.list_ Ia gp) l /\ W.Comparator Ia gp = kc c /\
    W.Size Ia gp = size_of c s /\ W.Empty Ia gp = (size_of c s =? 0) /\ obs_pair (W.Peek Ia gp) = peek_of c s /\
    (Z.of_nat (HP.pushed ops) < 2 ^ 62 -> W.Values Ia (iter_enum fuel Ia) gp = values_of c s) /\
    exists gp' r, W.Pop Ia fuel gp = Some (gp', r) /\ obs_pair r = snd (fst (step c s Pop)).
Proof.
  intros c ops fuel Hk Hf s.
  destruct (HP.gen_run_fuel_irrelevant_aux c ops fuel Hk Hf) as (l & Hg & Hrun & Hlen). fold s in Hrun.
  pose proof (gen_run_rel fuel (kc c) ops) as HR0. rewrite Hg in HR0.
  destruct (gen_run_p fuel (kc c) ops) as [gp|]; cbn [orel] in HR0; [|contradiction].
  exists gp, l. split; [reflexivity|]. split; [exact Hrun|]. pose proof HR0 as [Hl Hc]. split; [exact Hl|]. split; [exact Hc|].
  destruct (observers_rel gp _ 0 HR0) as (OP & OS & OE & _). rewrite OP, OS, OE, Hrun.
  split; [reflexivity|]. split; [reflexivity|].
  split; [rewrite HP.Peek_equiv, obs_pair_opt; reflexivity|]. split.
  - intros Hb. rewrite (Values_rel fuel gp _ HR0). unfold W.Values.
    rewrite (iter_enum_model fuel (kc c) l) by (unfold zlen; lia).
    exact (HP.Values_equiv (kc c) l).
  - pose proof (Pop_rel fuel gp _ HR0) as HL. rewrite HP.Pop_equiv in HL by lia.
    destruct (W.Pop Ia fuel gp) as [[gp' r]|]; cbn [orel] in HL; [|contradiction]. exists gp', r. split; [reflexivity|].
    destruct HL as [_ HL]. cbn [snd] in HL. subst r. unfold step. rewrite Hk. destruct (Heap.pop (kc c) l) as [l' r']. cbn [fst snd]. apply obs_pair_opt.
Qed.
Print Assumptions binaryheap_over_arraylist_run.
