(* maps/linkedhashmap/linkedhashmap.go regenerated (GodsGen.LinkedHashMapGen): table = Go map (GoMap.v), ordering =
   ABSTRACT doubly linked list instantiated with Model/Lists.v, Iterator() = the abstract enumeration
   lmap_entries table ordering.  Against Model/Machine.v on StLMap tbl ord: Put = lmap_put, Remove = lmap_remove,
   Clear = init (BOTH components emptied), Get = get_of, Keys = keys_of, Values = values_of, Size = size_of
   (stated under the machine's invariant lmI, which every reachable state has: so a Size() that reads the
   table instead of the ordering list still verifies). *)
From Coq Require Import ZArith List Lia Bool Arith Permutation.
From Gods Require Import Common.Cmp Common.ListAux Spec.SeqSpec Spec.MapSpec Model.Ops Model.Lists Model.Machine.
From Gods Require Import Proofs.C05Proofs Proofs.MachineMaps.
From GodsGen Require LinkedHashMapGen.
From GodsGenProofs Require Import GenIterRun WrapCommon GoMap.
From GodsGenProofs Require HashMapGenProofs LinkedHashSetGenProofs.
Import ListNotations.
Local Open Scope Z_scope.

Module M := LinkedHashMapGen.

Definition I : M.ordering_iface := M.mk_ordering_iface (list Z)
  (fun l vs => (dll_add vs l, tt))       (* Add(values...) *)
  (fun l vs => (dll_add vs l, tt))       (* Append(values...) = Add *)
  (fun _ => ([], tt))                    (* Clear() *)
  (fun l i => opt_pair (dll_get i l))    (* Get(index) *)
  (fun l v => dll_index_of v l)          (* IndexOf(value) *)
  (fun l vs => (dll_prepend vs l, tt))   (* Prepend(values...) *)
  (fun l i => (dll_remove i l, tt))      (* Remove(index) *)
  (fun l => zlen l)                      (* Size() *)
  (fun l => l)                           (* Values() *)
  (fun vs => dll_add vs []).             (* doublylinkedlist.New(values...) *)

(* m.Iterator(): the keys in insertion order with their values *)
Definition enum (g : M.Map I) : list (Z * Z) := lmap_entries (M.table I g) (M.ordering I g).

Notation st g := (StLMap (M.table I g) (M.ordering I g)).

Module Names.
Import Coq.Strings.String.
(* OBLIGATION *)
Theorem translated_functions :
  M.translated = ["All"; "Any"; "Clear"; "Empty"; "Find"; "Get"; "Keys"; "Map_Map"; "MarshalJSON"; "New"; "Put"; "Remove"; "Select"; "Size"; "ToJSON"; "Values"]%string
  /\ M.skipped = ["Each"; "FromJSON"; "String"; "UnmarshalJSON"]%string /\ M.not_selected = [].
Proof. repeat split. Qed.
Print Assumptions translated_functions.
End Names.

Section Equiv.
Variable c : config.

(* OBLIGATION *)
Theorem New_equiv : ckind c = LinkedHashMap -> init c = st (M.New I).
Proof. intros Hk. unfold init. now rewrite Hk. Qed.

(* OBLIGATION *)
Theorem Put_equiv : forall g k v, step c (st g) (Put k v) = (st (fst (M.Put I g k v)), ounit, onone).
Proof.
  intros [t o] k v. unfold step, lmap_put, M.Put. cbn [M.table M.ordering M.set_table M.set_ordering M.ordering_Append I].
  pose proof (LinkedHashSetGenProofs.lookup_hmem t k) as H. destruct (gm_lookup t k) as [x b]. cbn [snd] in H. subst b.
  destruct (hmem k t); reflexivity.
Qed.

(* OBLIGATION *)
Theorem Remove_equiv : forall g k, step c (st g) (Remove k) = (st (fst (M.Remove I g k)), ounit, onone).
Proof.
  intros [t o] k. unfold step, lmap_remove, M.Remove.
  cbn [M.table M.ordering M.set_table M.set_ordering M.ordering_IndexOf M.ordering_Remove I].
  pose proof (LinkedHashSetGenProofs.lookup_hmem t k) as H. destruct (gm_lookup t k) as [x b]. cbn [snd] in H. subst b.
  destruct (hmem k t); reflexivity.
Qed.

(* OBLIGATION: Clear() empties BOTH the table and the ordering list *)
Theorem Clear_equiv : ckind c = LinkedHashMap -> forall g,
  step c (st g) Clear = (st (fst (M.Clear I g)), ounit, onone).
Proof. intros Hk [t o]. unfold step, init. now rewrite Hk. Qed.

(* OBLIGATION *)
Theorem Get_equiv : forall g k, get_of c (st g) k = obs_pair (M.Get I g k).
Proof.
  intros [t o] k. unfold get_of, M.Get, gm_lookup. cbn [M.table]. destruct (hget k t) as [v|]; reflexivity.
Qed.

(* OBLIGATION: under the invariant of the reachable states (table and ordering list have the same keys) *)
Theorem Size_equiv : forall g, lmI (M.table I g, M.ordering I g) -> M.Size I g = size_of c (st g).
Proof.
  intros [t o] Hinv.
  first [ reflexivity     (* Size() reads the ordering list *)
        | (* Size() reads the table: same length under the invariant *)
          unfold M.Size; cbn [M.table M.ordering size_of] in *;
          pose proof (Permutation_length (lmap_entries_perm t o Hinv)) as HL; unfold lmap_entries in HL;
          rewrite map_length in HL; unfold gm_len, zlen; now rewrite <- HL ].
Qed.

(* OBLIGATION *)
Theorem Empty_equiv : forall g, lmI (M.table I g, M.ordering I g) -> M.Empty I g = (size_of c (st g) =? 0).
Proof. intros g Hinv. unfold M.Empty. now rewrite (Size_equiv g Hinv). Qed.

(* OBLIGATION *)
Theorem Keys_equiv : forall g, M.Keys I g = keys_of c (st g).
Proof. intros [t o]. now rewrite Generic.keys_linked. Qed.

(* OBLIGATION *)
Theorem Values_equiv : forall g, lmI (M.table I g, M.ordering I g) -> M.Values I enum g = values_of c (st g).
Proof.
  intros g Hinv. unfold M.Values. rewrite (Size_equiv g Hinv). destruct g as [t o]. unfold enum, size_of, zlen, values_of.
  cbn [M.table M.ordering]. rewrite Nat2Z.id. cbv zeta.
  match goal with |- (let '(a, _) := ?X in a) = _ => transitivity (fst X); [destruct X; reflexivity|] end.
  rewrite (HashMapGenProofs.collect_all snd (lmap_entries t o) (length o)) by (unfold lmap_entries; now rewrite map_length).
  unfold lmap_entries. now rewrite map_map.
Qed.
End Equiv.

Print Assumptions New_equiv.
Print Assumptions Put_equiv.
Print Assumptions Remove_equiv.
Print Assumptions Clear_equiv.
Print Assumptions Get_equiv.
Print Assumptions Size_equiv.
Print Assumptions Empty_equiv.
Print Assumptions Keys_equiv.
Print Assumptions Values_equiv.

(* ---------- runs ---------- *)
Inductive gop := GPut (k v : Z) | GRemove (k : Z) | GClear.
Definition gen_step (g : M.Map I) (o : gop) : M.Map I :=
  match o with GPut k v => fst (M.Put I g k v) | GRemove k => fst (M.Remove I g k) | GClear => fst (M.Clear I g) end.
Definition gen_run (ops : list gop) : M.Map I := fold_left gen_step ops (M.New I).
Definition to_op (o : gop) : op := match o with GPut k v => Put k v | GRemove k => Remove k | GClear => Clear end.

(* OBLIGATION: lock-step with the machine; every reached state has the invariant, so Size / Values hold of it *)
Theorem gen_run_simulates : forall c, ckind c = LinkedHashMap -> forall ops,
  let g := gen_run ops in
  run c (map to_op ops) = st g /\ lmI (M.table I g, M.ordering I g) /\
  M.Size I g = size_of c (st g) /\ M.Values I enum g = values_of c (st g) /\ M.Keys I g = keys_of c (st g).
Proof.
  intros c Hk ops g.
  assert (Hrun : run c (map to_op ops) = st g).
  { subst g. induction ops as [|o ops IH] using rev_ind.
    - unfold run, run_from. cbn [map fold_left]. exact (New_equiv c Hk).
    - rewrite map_app. cbn [map]. rewrite run_snoc, IH. unfold gen_run. rewrite fold_left_app. cbn [fold_left].
      fold (gen_run ops). destruct o as [k v|k|]; cbn [to_op gen_step].
      + now rewrite Put_equiv.
      + now rewrite Remove_equiv.
      + now rewrite (Clear_equiv c Hk). }
  assert (Hv : valid c) by (split; [now rewrite Hk|intros E; rewrite Hk in E; discriminate]).
  assert (Hinv : lmI (M.table I g, M.ordering I g)).
  { destruct (run_sim c (map to_op ops) Hv) as [Hi _]. rewrite Hrun in Hi. unfold minv, Generic.inv in Hi. now rewrite Hk in Hi. }
  refine (conj Hrun (conj Hinv (conj _ (conj _ _)))).
  - exact (Size_equiv c g Hinv).
  - exact (Values_equiv c g Hinv).
  - exact (Keys_equiv c g).
Qed.
Print Assumptions gen_run_simulates.
