(* Shared by the *WrapProofs.v files: Go's (value, ok) as the machine's observation, and the list
   lemmas behind ArrayStack.Values() (a counted loop storing list.Get(i-1) at position size-i). *)
From Coq Require Import ZArith List Lia Bool Arith.
From Gods Require Import Common.ListAux Spec.SeqSpec Model.Ops Model.Lists.
From GodsGenProofs Require Import GenIterRun.
Import ListNotations.
Local Open Scope Z_scope.

(* what the harness records for a (value, ok) result *)
Definition obs_pair (p : Z * bool) : obs := oopt (if snd p then Some (fst p) else None).

Lemma obs_pair_opt : forall o, obs_pair (opt_pair o) = oopt o.
Proof. intros [v|]; reflexivity. Qed.

Lemma set_at_length' : forall (a : list Z) x b v, set (a ++ x :: b) (length a) v = a ++ v :: b.
Proof.
  induction a as [|y a IH]; intros x b v; cbn [app length set]; [reflexivity|]. now rewrite IH.
Qed.

Lemma firstn_S_nth : forall (l : list Z) j, (j < length l)%nat -> firstn (S j) l = firstn j l ++ [nth j l 0].
Proof.
  induction l as [|x l IH]; intros j Hj; cbn [length] in Hj; [lia|].
  destruct j as [|j]; cbn [firstn nth app]; [reflexivity|]. f_equal. apply IH. lia.
Qed.

(* storing l[k] at position n-1-k for k = 0 .. j-1 fills the tail of the array with the reversed prefix *)
Lemma reverse_fill : forall (l : list Z) j, (j <= length l)%nat ->
  fold_left (fun acc k => set acc (length l - 1 - k) (nth k l 0)) (seq 0 j) (repeat 0 (length l)) =
  repeat 0 (length l - j) ++ rev (firstn j l).
Proof.
  intros l j. induction j as [|j IH]; intros Hj.
  - cbn [seq fold_left firstn rev]. rewrite Nat.sub_0_r, app_nil_r. reflexivity.
  - rewrite seq_S, fold_left_app. cbn [fold_left Nat.add]. rewrite IH by lia.
    rewrite firstn_S_nth by lia. rewrite rev_app_distr. cbn [rev app].
    replace (length l - j)%nat with (S (length l - S j)) by lia.
    cbn [repeat]. rewrite repeat_cons. rewrite <- app_assoc. cbn [app].
    replace (length l - 1 - j)%nat with (length (repeat 0 (length l - S j))) at 1 by (rewrite repeat_length; lia).
    apply set_at_length'.
Qed.

Lemma reverse_fill_all : forall (l : list Z),
  fold_left (fun acc k => set acc (length l - 1 - k) (nth k l 0)) (seq 0 (length l)) (repeat 0 (length l)) = rev l.
Proof.
  intros l. rewrite reverse_fill by lia. rewrite Nat.sub_diag, firstn_all. reflexivity.
Qed.

Lemma fold_left_ext_in : forall (A B : Type) (f g : A -> B -> A) (l : list B) (a : A),
  (forall a x, In x l -> f a x = g a x) -> fold_left f l a = fold_left g l a.
Proof.
  intros A B f g l. induction l as [|x l IH]; intros a H; cbn [fold_left]; [reflexivity|].
  rewrite H by (left; reflexivity). apply IH. intros a' y Hy. apply H. now right.
Qed.

Lemma fold_left_map' : forall (A B C : Type) (f : A -> B -> A) (g : C -> B) (l : list C) (a : A),
  fold_left f (map g l) a = fold_left (fun a x => f a (g x)) l a.
Proof. intros A B C f g l. induction l as [|x l IH]; intros a; cbn [map fold_left]; auto. Qed.

Lemma map_nth_seq_ : forall (l : list Z), map (fun i => nth i l 0) (seq 0 (length l)) = l.
Proof.
  intros l. apply (nth_ext _ _ 0 0); [now rewrite map_length, seq_length|].
  intros i Hi. rewrite map_length, seq_length in Hi.
  rewrite (nth_indep _ 0 (nth 0 l 0)) by (now rewrite map_length, seq_length).
  rewrite (map_nth (fun i => nth i l 0) (seq 0 (length l)) 0%nat i). now rewrite seq_nth.
Qed.

(* `for _, x := range xs { g = F g x }` as generated (a fold over the indices) is the fold over the elements *)
Lemma range_fold : forall (G : Type) (F : G -> Z -> G) (vs : list Z) (g : G),
  fold_left (fun g (i : Z) => F g (get vs (Z.to_nat i))) (map Z.of_nat (seq 0 (Z.to_nat (Z.of_nat (length vs))))) g
  = fold_left F vs g.
Proof.
  intros G F vs g. rewrite Nat2Z.id, fold_left_map'.
  rewrite (fold_left_ext_in _ _ _ (fun g i => F g (nth i vs 0))) by (intros a i _; now rewrite Nat2Z.id).
  rewrite <- (map_nth_seq_ vs) at 2. now rewrite fold_left_map'.
Qed.

Lemma filter_true_pairs : forall (l : list (Z * Z)), filter (fun _ => true) l = l.
Proof. induction l as [|x l IH]; cbn [filter]; [reflexivity|now rewrite IH]. Qed.
