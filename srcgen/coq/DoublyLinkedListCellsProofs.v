(* lists/doublylinkedlist/doublylinkedlist.go regenerated in POINTER MODE (GodsGen.DoublyLinkedListCellsGen: heap of cells, addresses,
   option monad, loops on explicit fuel -- see README.md) equals, method by method and AS FUNCTIONS (for every heap,
   well-formed or not), the hand-written cell-level model Model/LinkedCells.v (the cdll_ functions) (the direction choice `size-index < index`, the
   backward walks along prev and every prev / next store included); Values / IndexOf
   under the side condition size <= allocated cells.  The model's refinement of the sequence model is
   Proofs/LinkedCellsProofs.v / Properties/C03_cells.v; corollaries: gen_cells_run_ok (runs of the GENERATED methods from
   the generated empty list never fail -- no nil dereference, no fuel exhaustion -- and represent seq_run), gen_observers_ok;
   gen_prev_mirrors_next: walk_bwd (from last along prev) reads the reverse of what walk_fwd reads. *)
From Coq Require Import ZArith List Lia Bool Arith.
From Gods Require Import Common.Cmp Common.ListAux Spec.SeqSpec Model.Ops Model.Lists Model.LinkedCells.
From Gods Require Import Model.Machine Proofs.C03Proofs Proofs.LinkedCellsProofs.
From GodsGenProofs Require GoHeap.
From GodsGen Require DoublyLinkedListCellsGen.
Import ListNotations.
Local Open Scope Z_scope.

Module S := DoublyLinkedListCellsGen.

(* a generated mutator result against the model's *)
Definition lift (o : option llist) : option (llist * unit) := match o with Some d => Some (d, tt) | None => None end.
Definition lift_get (o : option (option Z)) : option (Z * bool) :=
  match o with Some (Some v) => Some (v, true) | Some None => Some (0, false) | None => None end.

Module Names.
Import Coq.Strings.String.
(* OBLIGATION *)
Theorem translated_functions :
  S.translated = ["Add"; "Append"; "Clear"; "Contains"; "Empty"; "Get"; "IndexOf"; "Insert"; "New"; "Prepend"; "Remove"; "Set_"; "Size"; "Swap"; "Values"; "withinRange"]%string
  /\ S.skipped = ["Sort"; "String"]%string.
Proof. repeat split. Qed.
Print Assumptions translated_functions.
End Names.

(* OBLIGATION *)
Theorem header_equiv : forall d i,
  S.withinRange d i = Some (c_within d i) /\ S.Size d = Some (lsize d) /\ S.Empty d = Some (lsize d =? 0) /\
  S.Clear d = lift (cdll_clear d).
Proof. intros d i. repeat split. Qed.
Print Assumptions header_equiv.

(* ---------- Add ---------- *)
Lemma Add_loop_foldM : forall xs idx d vs0, S.Add_loop1 xs idx d vs0 = foldM cdll_add1 xs d.
Proof.
  induction xs as [|x xs IH]; intros idx d vs0; cbn [S.Add_loop1 foldM]; [reflexivity|].
  unfold cdll_add1, alloc. cbv zeta. cbn [fst snd lsize set_first set_last set_heap lheap llast].
  destruct (lsize d =? 0).
  - cbn [lsize set_size]. apply IH.
  - destruct (store _ _ _) as [h|]; [|reflexivity]. cbn [lsize set_size]. apply IH.
Qed.

(* OBLIGATION *)
Theorem Add_equiv : forall d vs, S.Add d vs = lift (cdll_add d vs) /\ S.Append d vs = lift (cdll_append d vs).
Proof.
  intros d vs. assert (H : S.Add d vs = lift (cdll_add d vs)).
  { unfold S.Add, cdll_add. rewrite Add_loop_foldM. now destruct (foldM cdll_add1 vs d). }
  split; [exact H|]. unfold S.Append, cdll_append. rewrite H. now destruct (cdll_add d vs).
Qed.
Print Assumptions Add_equiv.

(* OBLIGATION *)
Theorem New_equiv : forall vs, S.New vs = (if 0 <? zlen vs then cdll_add empty_llist vs else Some empty_llist).
Proof.
  intros vs. unfold S.New. destruct (0 <? zlen vs); [|reflexivity].
  rewrite (proj1 (Add_equiv empty_llist vs)). now destruct (cdll_add empty_llist vs).
Qed.
Print Assumptions New_equiv.

(* ---------- Prepend ---------- *)
Lemma Prepend_loop_foldM : forall idxs d vs, Forall (fun i => 0 <= i < zlen vs) idxs ->
  S.Prepend_loop1 idxs d vs = foldM cdll_prepend1 (map (fun i => nth (Z.to_nat i) vs 0) idxs) d.
Proof.
  induction idxs as [|i idxs IH]; intros d vs Hin; cbn [S.Prepend_loop1 map foldM]; [reflexivity|].
  inversion Hin as [|? ? Hi Hin']; subst. rewrite (GoHeap.hs_get_in vs i Hi). specialize (IH) with (vs := vs).
  unfold cdll_prepend1, alloc. cbv zeta. cbn [fst snd lsize set_first set_last set_heap lheap lfirst].
  destruct (lsize d =? 0).
  - cbn [lsize set_size]. apply IH; exact Hin'.
  - destruct (store _ _ _) as [h|]; [|reflexivity]. cbn [lsize set_size]. apply IH; exact Hin'.
Qed.

Lemma rev_indices : forall (vs : list Z),
  map (fun i => nth (Z.to_nat i) vs 0) (map (fun k : nat => zlen vs - 1 - Z.of_nat k) (seq 0 (length vs))) = rev vs.
Proof.
  intros vs. rewrite map_map. apply (nth_ext _ _ 0 0); [now rewrite map_length, seq_length, rev_length|].
  intros k Hk. rewrite map_length, seq_length in Hk.
  rewrite (nth_indep _ 0 ((fun k0 : nat => nth (Z.to_nat (zlen vs - 1 - Z.of_nat k0)) vs 0) 0%nat)) by (now rewrite map_length, seq_length).
  rewrite (map_nth (fun k0 : nat => nth (Z.to_nat (zlen vs - 1 - Z.of_nat k0)) vs 0)), seq_nth by assumption. cbn [Nat.add].
  rewrite rev_nth by assumption. f_equal. unfold zlen. lia.
Qed.

(* OBLIGATION *)
Theorem Prepend_equiv : forall d vs, S.Prepend d vs = lift (cdll_prepend d vs).
Proof.
  intros d vs. unfold S.Prepend, cdll_prepend. rewrite Prepend_loop_foldM
    by (apply Forall_forall; intros x Hx; apply in_map_iff in Hx; destruct Hx as (k & <- & Hk); apply in_seq in Hk; unfold zlen in *; lia).
  replace (Z.to_nat (zlen vs - 1 + 1 - 0)) with (length vs) by (unfold zlen; lia).
  rewrite rev_indices. now destruct (foldM cdll_prepend1 (rev vs) d).
Qed.
Print Assumptions Prepend_equiv.

(* ---------- the index walks (forward along next, backward along prev): fuel size + 1 is enough inside the range ---------- *)
Ltac fwd_walk L W :=
  intros fuel; induction fuel as [|fuel IH]; intros; [lia|]; cbn [L];
  match goal with |- context [negb (?e =? ?index)] => destruct (Z.eqb_spec e index) as [->|N]; cbn [negb] end;
  [now rewrite Z.sub_diag|];
  match goal with |- _ = _ _ _ _ (Z.to_nat (?index - ?e)) =>
    replace (Z.to_nat (index - e)) with (S (Z.to_nat (index - (e + 1)))) by lia end; cbn [W].
Ltac bwd_walk L W :=
  intros fuel; induction fuel as [|fuel IH]; intros; [lia|]; cbn [L];
  match goal with |- context [negb (?e =? ?index)] => destruct (Z.eqb_spec e index) as [->|N]; cbn [negb] end;
  [now rewrite Z.sub_diag|];
  match goal with |- _ = _ _ _ _ (Z.to_nat (?e - ?index)) =>
    replace (Z.to_nat (e - index)) with (S (Z.to_nat (e - 1 - index))) by lia end; cbn [W].

Lemma Get_back : forall fuel d index p e, index <= e -> (Z.to_nat (e - index) < fuel)%nat ->
  S.Get_loop1 fuel d index p e = walk cprev (lheap d) p (Z.to_nat (e - index)).
Proof. bwd_walk S.Get_loop1 walk. destruct (deref (lheap d) p) as [c|]; [|reflexivity]. apply IH; lia. Qed.
Lemma Get_fwd : forall fuel d index p e, 0 <= e <= index -> (Z.to_nat (index - e) < fuel)%nat ->
  S.Get_loop2 fuel d index p e = walk cnext (lheap d) p (Z.to_nat (index - e)).
Proof. fwd_walk S.Get_loop2 walk. destruct (deref (lheap d) p) as [c|]; [|reflexivity]. apply IH; lia. Qed.
Lemma Remove_back : forall fuel d index p e, index <= e -> (Z.to_nat (e - index) < fuel)%nat ->
  S.Remove_loop1 fuel d index p e = walk cprev (lheap d) p (Z.to_nat (e - index)).
Proof. bwd_walk S.Remove_loop1 walk. destruct (deref (lheap d) p) as [c|]; [|reflexivity]. apply IH; lia. Qed.
Lemma Remove_fwd : forall fuel d index p e, 0 <= e <= index -> (Z.to_nat (index - e) < fuel)%nat ->
  S.Remove_loop2 fuel d index p e = walk cnext (lheap d) p (Z.to_nat (index - e)).
Proof. fwd_walk S.Remove_loop2 walk. destruct (deref (lheap d) p) as [c|]; [|reflexivity]. apply IH; lia. Qed.
Lemma Set_back : forall fuel d index v p e, index <= e -> (Z.to_nat (e - index) < fuel)%nat ->
  S.Set__loop1 fuel d index v p e = walk cprev (lheap d) p (Z.to_nat (e - index)).
Proof. bwd_walk S.Set__loop1 walk. destruct (deref (lheap d) p) as [c|]; [|reflexivity]. apply IH; lia. Qed.
Lemma Set_fwd : forall fuel d index v p e, 0 <= e <= index -> (Z.to_nat (index - e) < fuel)%nat ->
  S.Set__loop2 fuel d index v p e = walk cnext (lheap d) p (Z.to_nat (index - e)).
Proof. fwd_walk S.Set__loop2 walk. destruct (deref (lheap d) p) as [c|]; [|reflexivity]. apply IH; lia. Qed.
Lemma Insert_back : forall fuel d index vs b p e, index <= e -> (Z.to_nat (e - index) < fuel)%nat ->
  S.Insert_loop1 fuel d index vs b p e = walk_back2 (lheap d) b p (Z.to_nat (e - index)).
Proof.
  induction fuel as [|fuel IH]; intros d index vs b p e He Hf; [lia|]. cbn [S.Insert_loop1].
  destruct (Z.eqb_spec e index) as [->|N]; cbn [negb]; [now rewrite Z.sub_diag|].
  replace (Z.to_nat (e - index)) with (S (Z.to_nat (e - 1 - index))) by lia. cbn [walk_back2].
  destruct (deref (lheap d) b) as [cb|]; [|reflexivity]. destruct (deref (lheap d) p) as [cf|]; [|reflexivity]. apply IH; lia.
Qed.
Lemma Insert_fwd : forall fuel d index vs b p e, 0 <= e <= index -> (Z.to_nat (index - e) < fuel)%nat ->
  S.Insert_loop2 fuel d index vs b p e = walk_track (lheap d) b p (Z.to_nat (index - e)).
Proof.
  induction fuel as [|fuel IH]; intros d index vs b p e He Hf; [lia|]. cbn [S.Insert_loop2].
  destruct (Z.eqb_spec e index) as [->|N]; cbn [negb]; [now rewrite Z.sub_diag|].
  replace (Z.to_nat (index - e)) with (S (Z.to_nat (index - (e + 1)))) by lia. cbn [walk_track].
  destruct (deref (lheap d) p) as [c|]; [|reflexivity]. apply IH; lia.
Qed.

Lemma within_bounds : forall d i, c_within d i = true -> 0 <= i < lsize d.
Proof. intros d i H. unfold c_within in H. apply andb_true_iff in H. destruct H as [H0 H1]. apply Z.leb_le in H0. apply Z.ltb_lt in H1. lia. Qed.

(* the element at a valid index, from the nearer end: exactly the model's cdll_locate *)
Ltac locate d i E :=
  unfold cdll_locate; destruct (lsize d - i <? i);
  [ first [rewrite Get_back by lia | rewrite Remove_back by lia | rewrite Set_back by lia];
    replace (lsize d - 1 - i) with (lsize d - 1 - i) by lia
  | first [rewrite Get_fwd by lia | rewrite Remove_fwd by lia | rewrite Set_fwd by lia]; rewrite Z.sub_0_r ].

(* OBLIGATION *)
Theorem Get_equiv : forall d i, S.Get d i = lift_get (cdll_get d i).
Proof.
  intros d i. unfold S.Get, S.withinRange, cdll_get. fold (c_within d i). cbv zeta.
  destruct (c_within d i) eqn:E; cbn [negb]; [|reflexivity]. apply within_bounds in E.
  locate d i E.
  - destruct (walk cprev (lheap d) (llast d) (Z.to_nat (lsize d - 1 - i))) as [p|]; [|reflexivity].
    destruct (deref (lheap d) p); reflexivity.
  - destruct (walk cnext (lheap d) (lfirst d) (Z.to_nat i)) as [p|]; [|reflexivity].
    destruct (deref (lheap d) p); reflexivity.
Qed.
Print Assumptions Get_equiv.

(* OBLIGATION *)
Theorem Set_equiv : forall d i v, S.Set_ d i v = lift (cdll_set d i v).
Proof.
  intros d i v. unfold S.Set_, S.withinRange, cdll_set. fold (c_within d i). cbv zeta.
  destruct (c_within d i) eqn:E; cbn [negb].
  - apply within_bounds in E. locate d i E.
    + destruct (walk cprev (lheap d) (llast d) (Z.to_nat (lsize d - 1 - i))) as [p|]; [|reflexivity].
      destruct (store (lheap d) p (with_val v)); reflexivity.
    + destruct (walk cnext (lheap d) (lfirst d) (Z.to_nat i)) as [p|]; [|reflexivity].
      destruct (store (lheap d) p (with_val v)); reflexivity.
  - destruct (i =? lsize d); [|reflexivity]. rewrite (proj1 (Add_equiv d [v])). now destruct (cdll_add d [v]).
Qed.
Print Assumptions Set_equiv.

Ltac crunch :=
  repeat (match goal with
          | |- context [deref ?h ?p] => destruct (deref h p)
          | |- context [store ?h ?p ?f] => destruct (store h p f)
          | |- context [ptr_eqb ?a ?b] => destruct (ptr_eqb a b)
          | |- context [is_nil ?a] => destruct (is_nil a)
          end; cbn [negb lheap lfirst llast lsize set_heap set_first set_last set_size]; try reflexivity).

(* OBLIGATION *)
Theorem Remove_equiv : forall d i, S.Remove d i = lift (cdll_remove d i).
Proof.
  intros d i. unfold S.Remove, S.withinRange, cdll_remove. fold (c_within d i). cbv zeta.
  destruct (c_within d i) eqn:E; cbn [negb]; [|reflexivity]. apply within_bounds in E.
  destruct (lsize d =? 1); [reflexivity|].
  locate d i E.
  - destruct (walk cprev (lheap d) (llast d) (Z.to_nat (lsize d - 1 - i))) as [e|]; [|reflexivity]. crunch.
  - destruct (walk cnext (lheap d) (lfirst d) (Z.to_nat i)) as [e|]; [|reflexivity]. crunch.
Qed.
Print Assumptions Remove_equiv.

(* ---------- Insert ---------- *)
Lemma Insert_head_loop : forall xs i d index vs0 before found old,
  S.Insert_loop3 xs (Z.of_nat i) d index vs0 before found old = cdll_ins_head_loop xs i d before.
Proof.
  induction xs as [|x xs IH]; intros i d index vs0 before found old; cbn [S.Insert_loop3 cdll_ins_head_loop]; [reflexivity|].
  unfold alloc. cbv zeta. cbn [fst snd lheap set_first set_heap].
  replace (Z.of_nat i + 1) with (Z.of_nat (S i)) by lia.
  destruct i as [|i].
  - change (Z.of_nat 0 =? 0) with true. cbv iota. apply IH.
  - replace (Z.of_nat (S i) =? 0) with false by (symmetry; apply Z.eqb_neq; lia).
    destruct (store _ (Some (lnext_addr d)) _) as [h1|]; [|reflexivity]. cbn [lheap set_heap].
    destruct (store h1 before _) as [h2|]; [|reflexivity]. apply IH.
Qed.
Lemma Insert_head_loop0 : forall xs d index vs0 before found old,
  S.Insert_loop3 xs 0 d index vs0 before found old = cdll_ins_head_loop xs 0 d before.
Proof. intros. exact (Insert_head_loop xs 0 d index vs0 before found old). Qed.
Lemma Insert_mid_loop : forall xs idx d index vs0 before found old,
  S.Insert_loop4 xs idx d index vs0 before found old = cdll_ins_mid_loop xs d before.
Proof.
  induction xs as [|x xs IH]; intros idx d index vs0 before found old; cbn [S.Insert_loop4 cdll_ins_mid_loop]; [reflexivity|].
  unfold alloc. cbv zeta. cbn [fst snd lheap set_heap].
  destruct (store _ (Some (lnext_addr d)) _) as [h1|]; [|reflexivity]. cbn [lheap set_heap].
  destruct (store h1 before _) as [h2|]; [|reflexivity]. apply IH.
Qed.

(* OBLIGATION *)
Theorem Insert_equiv : forall d i vs, S.Insert d i vs = lift (cdll_insert d i vs).
Proof.
  intros d i vs. unfold S.Insert, S.withinRange, cdll_insert. fold (c_within d i). cbv zeta.
  destruct (c_within d i) eqn:E; cbn [negb].
  - apply within_bounds in E. destruct vs as [|v vs]; [reflexivity|].
    replace (zlen (v :: vs) =? 0) with false by (unfold zlen; cbn [length]; symmetry; apply Z.eqb_neq; lia).
    assert (HW : (if lsize d - i <? i
                  then do c2 <- deref (lheap d) (llast d);
                       do (b, f) <- S.Insert_loop1 (S (Z.to_nat (lsize d))) d i (v :: vs) (cprev c2) (llast d) (lsize d - 1); Some (b, f)
                  else do (b, f) <- S.Insert_loop2 (S (Z.to_nat (lsize d))) d i (v :: vs) None (lfirst d) 0; Some (b, f))
                 = (if lsize d - i <? i
                    then do cl <- deref (lheap d) (llast d); walk_back2 (lheap d) (cprev cl) (llast d) (Z.to_nat (lsize d - 1 - i))
                    else walk_track (lheap d) None (lfirst d) (Z.to_nat i))).
    { destruct (lsize d - i <? i).
      - destruct (deref (lheap d) (llast d)) as [cl|]; [|reflexivity]. rewrite Insert_back by lia.
        now destruct (walk_back2 (lheap d) (cprev cl) (llast d) (Z.to_nat (lsize d - 1 - i))) as [[? ?]|].
      - rewrite Insert_fwd by lia. rewrite Z.sub_0_r.
        now destruct (walk_track (lheap d) None (lfirst d) (Z.to_nat i)) as [[? ?]|]. }
    rewrite HW. clear HW.
    destruct (if lsize d - i <? i then _ else _) as [[before found]|]; [|reflexivity].
    destruct (ptr_eqb found (lfirst d)).
    + rewrite Insert_head_loop0.
      destruct (cdll_ins_head_loop (v :: vs) 0 d before) as [[d1 b1]|]; [|reflexivity].
      destruct (store (lheap d1) (lfirst d) (with_prev b1)) as [h1|]; [|reflexivity]. cbn [lheap set_heap].
      destruct (store h1 b1 (with_next (lfirst d))); reflexivity.
    + destruct (deref (lheap d) before) as [cb|]; [|reflexivity].
      rewrite Insert_mid_loop.
      destruct (cdll_ins_mid_loop (v :: vs) d before) as [[d1 b1]|]; [|reflexivity].
      destruct (store (lheap d1) (cnext cb) (with_prev b1)) as [h1|]; [|reflexivity]. cbn [lheap set_heap].
      destruct (store h1 b1 (with_next (cnext cb))); reflexivity.
  - destruct (i =? lsize d); [|reflexivity]. rewrite (proj1 (Add_equiv d vs)). now destruct (cdll_add d vs).
Qed.
Print Assumptions Insert_equiv.

(* ---------- Values / IndexOf / Contains / Swap (the same Go text in both lists) ---------- *)
Lemma Values_loop_from : forall fuel d A n p, (n < fuel)%nat ->
  S.Values_loop1 fuel d (A ++ repeat 0 n) (Z.of_nat (length A)) p = do r <- values_from (lheap d) p n; Some (A ++ r).
Proof.
  induction fuel as [|fuel IH]; intros d A n p Hf; [lia|]. cbn [S.Values_loop1].
  destruct p as [a|]; cbn [is_nil negb deref]; [|destruct n; reflexivity].
  destruct n as [|n]; cbn [values_from repeat].
  - destruct (hread (lheap d) a) as [c|]; [|reflexivity].
    unfold GoHeap.hs_set, GoHeap.hs_in, GoHeap.hs_len. rewrite app_nil_r, Z.ltb_irrefl, andb_false_r. reflexivity.
  - destruct (hread (lheap d) a) as [c|]; [|reflexivity].
    unfold GoHeap.hs_set, GoHeap.hs_in, GoHeap.hs_len.
    replace (0 <=? Z.of_nat (length A)) with true by (symmetry; apply Z.leb_le; lia).
    replace (Z.of_nat (length A) <? Z.of_nat (length (A ++ 0 :: repeat 0 n))) with true
      by (symmetry; apply Z.ltb_lt; rewrite app_length; cbn [length]; lia).
    cbn [andb]. rewrite Nat2Z.id. replace (Z.to_nat (Z.of_nat (length A) + 1)) with (S (length A)) by lia.
    rewrite firstn_exact, skipn_S_exact by reflexivity. cbv zeta.
    replace (A ++ cval c :: repeat 0 n) with ((A ++ [cval c]) ++ repeat 0 n) by (now rewrite <- app_assoc).
    replace (Z.of_nat (length A) + 1) with (Z.of_nat (length (A ++ [cval c]))) by (rewrite app_length; cbn [length]; lia).
    rewrite IH by lia. destruct (values_from (lheap d) (cnext c) n) as [r|]; [|reflexivity].
    now rewrite <- app_assoc.
Qed.

(* OBLIGATION *)
Theorem Values_equiv : forall d, (Z.to_nat (lsize d) <= lnext_addr d)%nat -> S.Values d = c_values d.
Proof.
  intros d Hw. unfold S.Values, c_values, GoHeap.hs_make. rewrite Z.ltb_irrefl, orb_false_r.
  destruct (lsize d <? 0); [reflexivity|]. cbv zeta.
  pose proof (Values_loop_from (S (lnext_addr d)) d [] (Z.to_nat (lsize d)) (lfirst d) ltac:(lia)) as E.
  cbn [app length Z.of_nat] in E. rewrite E.
  now destruct (values_from (lheap d) (lfirst d) (Z.to_nat (lsize d))).
Qed.
Print Assumptions Values_equiv.

Lemma IndexOf_loop_from : forall xs idx d v,
  (do er <- S.IndexOf_loop1 xs idx d v; match er with Some r => Some r | None => Some (- 1) end) = Some (index_from v xs idx).
Proof.
  induction xs as [|x xs IH]; intros idx d v; cbn [S.IndexOf_loop1 index_from]; [reflexivity|]. cbv zeta.
  destruct (x =? v); [reflexivity|apply IH].
Qed.

(* OBLIGATION *)
Theorem IndexOf_equiv : forall d v, (Z.to_nat (lsize d) <= lnext_addr d)%nat -> S.IndexOf d v = c_index_of d v.
Proof.
  intros d v Hw. unfold S.IndexOf, c_index_of. destruct (lsize d =? 0); [reflexivity|].
  rewrite (Values_equiv d Hw). destruct (c_values d) as [vals|]; [|reflexivity]. apply IndexOf_loop_from.
Qed.
Print Assumptions IndexOf_equiv.

Lemma Contains_find : forall fuel d vs v p, S.Contains_loop2 fuel d vs v false p = find_from (lheap d) p v fuel.
Proof.
  induction fuel as [|fuel IH]; intros d vs v p; destruct p as [a|]; cbn [S.Contains_loop2 find_from is_nil negb deref]; try reflexivity.
  destruct (hread (lheap d) a) as [c|]; [|reflexivity]. destruct (cval c =? v); [reflexivity|apply IH].
Qed.
Lemma Contains_outer : forall xs idx d vs0,
  S.Contains_loop1 xs idx d vs0 =
  do b <- contains_loop (lheap d) (lfirst d) xs (S (lnext_addr d)); Some (if b then None else Some false).
Proof.
  induction xs as [|x xs IH]; intros idx d vs0; [reflexivity|].
  cbn [S.Contains_loop1 contains_loop]. cbv zeta. rewrite Contains_find.
  destruct (find_from (lheap d) (lfirst d) x (S (lnext_addr d))) as [[|]|]; cbn [negb]; [apply IH|reflexivity|reflexivity].
Qed.

(* OBLIGATION *)
Theorem Contains_equiv : forall d vs, S.Contains d vs = c_contains d vs.
Proof.
  intros d vs. unfold S.Contains, c_contains. destruct vs as [|v vs]; [reflexivity|].
  replace (zlen (v :: vs) =? 0) with false by (unfold zlen; cbn [length]; symmetry; apply Z.eqb_neq; lia).
  destruct (lsize d =? 0); [reflexivity|]. rewrite Contains_outer.
  now destruct (contains_loop (lheap d) (lfirst d) (v :: vs) (S (lnext_addr d))) as [[|]|].
Qed.
Print Assumptions Contains_equiv.

Lemma Swap_loop_eq : forall fuel d i j e1 e2 e cur,
  S.Swap_loop1 fuel d i j e1 e2 e cur = swap_loop (lheap d) i j e cur e1 e2 fuel.
Proof.
  induction fuel as [|fuel IH]; intros d i j e1 e2 e cur; cbn [S.Swap_loop1 swap_loop];
    destruct (is_nil e1 || is_nil e2); try reflexivity.
  destruct (e =? i); destruct (e =? j); cbv zeta; destruct (deref (lheap d) cur) as [c|]; try reflexivity; apply IH.
Qed.

(* OBLIGATION *)
Theorem Swap_equiv : forall d i j, S.Swap d i j = lift (c_swap d i j).
Proof.
  intros d i j. unfold S.Swap, c_swap. change (S.withinRange d i) with (Some (c_within d i)).
  change (S.withinRange d j) with (Some (c_within d j)). cbv zeta.
  destruct (c_within d i); destruct (c_within d j); destruct (i =? j); cbn [andb negb]; try reflexivity.
  rewrite Swap_loop_eq.
  destruct (swap_loop (lheap d) i j 0 (lfirst d) None None (S (Z.to_nat (lsize d)))) as [[e1 e2]|]; [|reflexivity].
  destruct (deref (lheap d) e1) as [c1|]; destruct (deref (lheap d) e2) as [c2|]; try reflexivity.
Qed.
Print Assumptions Swap_equiv.

(* ====================== runs of the generated methods ====================== *)
Inductive gop := GAdd (vs : list Z) | GAppend (vs : list Z) | GPrepend (vs : list Z) | GInsert (i : Z) (vs : list Z)
               | GSet (i v : Z) | GRemove (i : Z) | GSwap (i j : Z) | GClear.
Definition st {A} (o : option (llist * A)) : option llist := match o with Some (d, _) => Some d | None => None end.
Definition gen_step (d : llist) (o : gop) : option llist :=
  match o with
  | GAdd vs => st (S.Add d vs) | GAppend vs => st (S.Append d vs) | GPrepend vs => st (S.Prepend d vs)
  | GInsert i vs => st (S.Insert d i vs) | GSet i v => st (S.Set_ d i v) | GRemove i => st (S.Remove d i)
  | GSwap i j => st (S.Swap d i j) | GClear => st (S.Clear d)
  end.
Definition gen_run (ops : list gop) : option llist := match S.New [] with Some d0 => foldM gen_step ops d0 | None => None end.
Definition to_op (o : gop) : op :=
  match o with
  | GAdd vs => Add vs | GAppend vs => Append vs | GPrepend vs => Prepend vs | GInsert i vs => Insert i vs
  | GSet i v => SetAt i v | GRemove i => RemoveAt i | GSwap i j => Swap i j | GClear => Clear
  end.

Lemma st_lift : forall o, st (lift o) = o.
Proof. intros [d|]; reflexivity. Qed.

Lemma gen_step_cells : forall d o, gen_step d o = cells_step DoublyLinkedList d (to_op o).
Proof.
  intros d [vs|vs|vs|i vs|i v|i|i j|]; cbn [gen_step to_op cells_step dll_cells_step].
  - now rewrite (proj1 (Add_equiv d vs)), st_lift.
  - now rewrite (proj2 (Add_equiv d vs)), st_lift.
  - now rewrite Prepend_equiv, st_lift.
  - now rewrite Insert_equiv, st_lift.
  - now rewrite Set_equiv, st_lift.
  - now rewrite Remove_equiv, st_lift.
  - now rewrite Swap_equiv, st_lift.
  - reflexivity.
Qed.

(* OBLIGATION: runs of the GENERATED operations from the generated empty list never fail (no nil dereference, no
   fuel exhaustion) and the heap represents the sequence-level run *)
Theorem gen_cells_run_ok : forall ops,
  gen_run ops = cells_run DoublyLinkedList (map to_op ops) /\
  exists d, gen_run ops = Some d /\ repr_dll d (seq_run (map to_op ops)).
Proof.
  intros ops.
  assert (H : gen_run ops = cells_run DoublyLinkedList (map to_op ops)).
  { unfold gen_run, cells_run, cells_run_from. replace (S.New []) with (Some empty_llist) by reflexivity. generalize empty_llist as d.
    induction ops as [|o ops IH]; intros d; cbn [foldM map]; [reflexivity|].
    rewrite gen_step_cells. destruct (cells_step DoublyLinkedList d (to_op o)); [apply IH|reflexivity]. }
  split; [exact H|]. rewrite H. exact (cells_run_ok DoublyLinkedList (map to_op ops)).
Qed.
Print Assumptions gen_cells_run_ok.

(* the side condition of Values / IndexOf holds in every represented list: its cells are distinct allocated addresses *)
Lemma repr_size_le_cells : forall dbl d l, repr dbl d l -> (Z.to_nat (lsize d) <= lnext_addr d)%nat.
Proof.
  intros dbl d l (al & Hnd & Hlt & Hch & _ & _ & Hs). rewrite Hs, to_nat_zlen.
  rewrite <- (chain_length _ _ _ _ _ _ _ _ Hch). exact (NoDup_lt_length _ _ Hnd Hlt).
Qed.

(* OBLIGATION: the GENERATED observers after any run of the generated operations answer as the sequence model does *)
Theorem gen_observers_ok : forall ops, exists d, gen_run ops = Some d /\
  let l := seq_run (map to_op ops) in
  S.Size d = Some (zlen l) /\ S.Empty d = Some (zlen l =? 0) /\ S.Values d = Some l /\
  (forall vs, S.Contains d vs = Some (seq_contains vs l)) /\
  (forall v, S.IndexOf d v = Some (seq_index_of v l)) /\
  (forall i, S.Get d i = lift_get (Some (seq_get i l))).
Proof.
  intros ops. destruct (gen_cells_run_ok ops) as [H (d & Hd & Hr)]. exists d. split; [exact Hd|].
  destruct (cells_run_observers DoublyLinkedList (map to_op ops)) as (d' & Hd' & Hs & Hv & _ & Hc & Hi & Hg & _).
  rewrite <- H, Hd in Hd'. injection Hd' as <-. pose proof (repr_size_le_cells _ _ _ Hr) as Hw. cbv zeta.
  unfold S.Size, S.Empty. rewrite Hs. repeat (refine (conj _ _)); try reflexivity.
  - rewrite (Values_equiv d Hw). exact Hv.
  - intros vs. rewrite Contains_equiv. apply Hc.
  - intros v. rewrite (IndexOf_equiv d v Hw). apply Hi.
  - intros i. rewrite Get_equiv. exact (f_equal lift_get (Hg i)).
Qed.
Print Assumptions gen_observers_ok.

(* OBLIGATION: prev mirrors next in every list the generated operations build: the backward walk from last along prev
   visits exactly size cells, ends in first, and reads the reverse of the sequence *)
Theorem gen_prev_mirrors_next : forall ops, exists d,
  gen_run ops = Some d /\ walk_fwd d = Some (seq_run (map to_op ops)) /\ walk_bwd d = Some (rev (seq_run (map to_op ops))).
Proof.
  intros ops. destruct (gen_cells_run_ok ops) as [_ (d & Hd & Hr)]. exists d. split; [exact Hd|]. split.
  - exact (walk_fwd_ok true d _ Hr).
  - exact (walk_bwd_ok d _ Hr).
Qed.
Print Assumptions gen_prev_mirrors_next.
