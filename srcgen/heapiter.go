package main

// POINTER MODE, the ITERATORS of the two linked lists (lists/*/iterator.go): an extension of heap.go.
//
//	type Iterator[T] struct { list *List[T]; index int; element *element[T] }
//
// becomes the record Iterator { index : Z; element : option nat } (an address, nil = None); the list it walks
// (field `list`: a pointer to the container) is NOT a field but a PARAMETER `v_list : llist` of the methods that
// read it -- the iterator properties are about lists that are not modified meanwhile, and the translator refuses
// every write through the list or through a cell in these files.  A method that assigns a field of the iterator
// returns option (Iterator * result), a reader option result (None = nil dereference / out of fuel), exactly as the
// list methods do with the llist.  `iterator.list.M(..)` calls the GENERATED method M of the list's cells module
// (read-only methods only); `for iterator.Next() { ... return ... }` is a fuelled Fixpoint (fuel: size + 1 of the
// list) whose condition rebinds the iterator; `f(index, value)` calls the function-typed parameter.

import (
	"go/ast"
	"go/token"
	"strings"
)

const (
	hIter hty = 100 + iota // the iterator record
	hPred                  // func(index int, value T) bool
)

type hiterInfo struct {
	cells     string            // Coq module of the list's cells unit
	cellFuncs map[string]*hfunc // its functions
	needs     map[string]bool   // iterator methods that take the list as a parameter
	fields    []string          // the fields of the record (index, element), in declaration order
	pos       token.Pos
}

var heapIterOf = map[*unit]*hiterInfo{}
var heapFuncsOf = map[string]map[string]*hfunc{}

// the Coq variable holding the llist whose heap pointers are dereferenced through
func (h *hfx) lv() string {
	if h.iter != nil && h.fn != nil {
		if _, isList := h.fn.recvIsList(); !isList {
			return "v_list"
		}
	}
	return vname(h.fn.recv)
}

// whether the receiver of fn is the list (true for every function of a list unit)
func (fn *hfunc) recvIsList() (string, bool) {
	if fn.decl != nil && fn.decl.Recv != nil {
		if _, rt, _, ok := recvInfo(fn.decl); ok && rt == "Iterator" {
			return rt, false
		}
	}
	return "List", true
}

func (t *translator) heapIterSetup(u *unit) {
	cells := u.Spec.HeapIter
	if cells == "" {
		return
	}
	fs, ok := heapFuncsOf[cells]
	if !ok {
		t.errs = append(t.errs, u.Spec.GoFile+": the cells unit "+cells+" must be listed (and translated) before its iterator")
		return
	}
	info := &hiterInfo{cells: cells, cellFuncs: fs, needs: map[string]bool{}}
	heapIterOf[u] = info
	// which iterator methods read the list: those that mention <recv>.list, dereference <recv>.element, or call one that does
	type meth struct {
		name string
		fd   *ast.FuncDecl
		recv string
	}
	var ms []meth
	for _, d := range u.allDecls() {
		if fd, ok := d.(*ast.FuncDecl); ok && fd.Recv != nil && fd.Body != nil {
			if rn, rt, _, ok := recvInfo(fd); ok && rt == "Iterator" {
				ms = append(ms, meth{fd.Name.Name, fd, rn})
			}
		}
	}
	for changed := true; changed; {
		changed = false
		for _, m := range ms {
			if info.needs[m.name] {
				continue
			}
			ast.Inspect(m.fd.Body, func(x ast.Node) bool {
				if sel, ok := x.(*ast.SelectorExpr); ok {
					if id, ok := sel.X.(*ast.Ident); ok && id.Name == m.recv {
						if sel.Sel.Name == "list" || info.needs[sel.Sel.Name] {
							info.needs[m.name] = true
							changed = true
						}
					}
					if inner, ok := sel.X.(*ast.SelectorExpr); ok { // <recv>.element.f: a read through the list's heap
						if id, ok := inner.X.(*ast.Ident); ok && id.Name == m.recv && inner.Sel.Name == "element" {
							info.needs[m.name] = true
							changed = true
						}
					}
				}
				return true
			})
		}
	}
}

// type Iterator[T] struct { list *List[T]; index int; element *element[T] } exactly
func (t *translator) heapIterType(u *unit, ts *ast.TypeSpec) {
	info := heapIterOf[u]
	st, ok := ts.Type.(*ast.StructType)
	if !ok {
		t.unsupported(ts.Pos(), "type Iterator that is not a struct")
	}
	want := map[string]string{"list": "*List", "index": "int", "element": "*element"}
	seen := map[string]bool{}
	for _, f := range fieldList(st.Fields) {
		ty := ""
		switch x := f.typ.(type) {
		case *ast.Ident:
			ty = x.Name
		case *ast.StarExpr:
			if ix, ok := x.X.(*ast.IndexExpr); ok {
				if id, ok := ix.X.(*ast.Ident); ok {
					ty = "*" + id.Name
				}
			}
		}
		if want[f.name] == "" || want[f.name] != ty {
			t.unsupported(ts.Pos(), "field %s of the struct Iterator (the iterator model has Iterator{list *List[T]; index int; element *element[T]})", f.name)
		}
		seen[f.name] = true
		if f.name != "list" {
			info.fields = append(info.fields, f.name)
		}
	}
	for n := range want {
		if !seen[n] {
			t.unsupported(ts.Pos(), "the struct Iterator has no field %s", n)
		}
	}
	info.pos = ts.Pos()
}

func (t *translator) heapIterPrelude(u *unit) string {
	info := heapIterOf[u]
	if info == nil {
		return ""
	}
	var b strings.Builder
	b.WriteString("From GodsGen Require " + info.cells + ". (* the generated methods of the list itself *)\n\n")
	b.WriteString("(* type Iterator: the field list (pointer to the container List) is a PARAMETER v_list of the methods, not a field;\n   element is an address (nil = None) *)\n")
	ty := map[string]string{"index": "Z", "element": "option nat"}
	var fs []string
	for _, f := range info.fields {
		fs = append(fs, f+" : "+ty[f])
	}
	b.WriteString("Record Iterator := mkIterator { " + strings.Join(fs, "; ") + " }.\n")
	for i, f := range info.fields {
		var args []string
		for j, g := range info.fields {
			if i == j {
				args = append(args, "x")
			} else {
				args = append(args, "("+g+" s)")
			}
		}
		b.WriteString("Definition set_" + f + " (s : Iterator) (x : " + ty[f] + ") : Iterator := mkIterator " + strings.Join(args, " ") + ".\n")
	}
	b.WriteString("\n")
	return b.String()
}

func (h *hfx) iterTypeOf(x ast.Expr) (hty, bool) {
	if h.iter == nil {
		return 0, false
	}
	if s, ok := x.(*ast.StarExpr); ok {
		x = s.X
	}
	switch n := x.(type) {
	case *ast.IndexExpr:
		if id, ok := n.X.(*ast.Ident); ok && id.Name == "Iterator" {
			return hIter, true
		}
	case *ast.FuncType: // func(index int, value T) bool
		ps, rs := fieldList(n.Params), fieldList(n.Results)
		if len(ps) == 2 && len(rs) == 1 {
			if h.typeOf(ps[0].typ, false) == hInt && h.typeOf(ps[1].typ, false) == hElem && h.typeOf(rs[0].typ, false) == hBool {
				return hPred, true
			}
		}
	}
	return 0, false
}

// is x the expression <iterator receiver>.list ?
func (h *hfx) isIterList(x ast.Expr) bool {
	if h.iter == nil {
		return false
	}
	sel, ok := x.(*ast.SelectorExpr)
	if !ok || sel.Sel.Name != "list" {
		return false
	}
	id, ok := sel.X.(*ast.Ident)
	if !ok || id.Name != h.fn.recv {
		return false
	}
	_, isList := h.fn.recvIsList()
	return !isList
}

// iterator.index / iterator.element / iterator.list
func (h *hfx) iterSelect(n *ast.SelectorExpr, e henv) (string, hty, bool) {
	if h.iter == nil {
		return "", 0, false
	}
	id, ok := n.X.(*ast.Ident)
	if !ok {
		return "", 0, false
	}
	vi, ok := e.vars[id.Name]
	if !ok || vi.ty != hIter {
		return "", 0, false
	}
	if id.Name != h.fn.recv {
		h.bad(n.Pos(), "field of an iterator that is not the receiver")
	}
	switch n.Sel.Name {
	case "index":
		return "(index " + vname(id.Name) + ")", hInt, true
	case "element":
		return "(element " + vname(id.Name) + ")", hPtr, true
	case "list":
		if _, ok := e.vars["list"]; !ok {
			h.bad(n.Pos(), "internal: the iterator method %s reads the list but does not take it as a parameter", h.fn.name)
		}
		return "v_list", hList, true
	}
	h.bad(n.Pos(), "field %s of the iterator", n.Sel.Name)
	return "", 0, false
}

// iterator.index = v / iterator.element = p
func (h *hfx) iterAssign(l *ast.SelectorExpr, val string, tv hty, e henv) (string, henv, bool) {
	if h.iter == nil {
		return "", e, false
	}
	id, ok := l.X.(*ast.Ident)
	if !ok {
		return "", e, false
	}
	vi, ok := e.vars[id.Name]
	if !ok || vi.ty != hIter {
		return "", e, false
	}
	if id.Name != h.fn.recv {
		h.bad(l.Pos(), "assignment to a field of an iterator that is not the receiver")
	}
	want := map[string]hty{"index": hInt, "element": hPtr}
	wt, known := want[l.Sel.Name]
	if !known || wt != tv {
		h.bad(l.Pos(), "assignment to the iterator field %s", l.Sel.Name)
	}
	h.rebind(id.Name, e)
	return "let " + vname(id.Name) + " := set_" + l.Sel.Name + " " + vname(id.Name) + " " + val + " in\n", e, true
}

// &Iterator[T]{list: list, index: i, element: p} / Iterator[T]{...}
func (h *hfx) iterLit(cl *ast.CompositeLit, e henv) (string, bool) {
	if h.iter == nil {
		return "", false
	}
	ix, ok := cl.Type.(*ast.IndexExpr)
	if !ok {
		return "", false
	}
	if id, ok := ix.X.(*ast.Ident); !ok || id.Name != "Iterator" {
		return "", false
	}
	given := map[string]string{}
	for _, el := range cl.Elts {
		kv, ok := el.(*ast.KeyValueExpr)
		if !ok {
			h.bad(el.Pos(), "positional Iterator literal")
		}
		key := kv.Key.(*ast.Ident).Name
		if key == "list" { // must be the list the method was called on
			id, ok := kv.Value.(*ast.Ident)
			if _, isList := h.fn.recvIsList(); !ok || !isList || id.Name != h.fn.recv {
				h.bad(el.Pos(), "the list of a new iterator must be the receiver list")
			}
			given[key] = ""
			continue
		}
		b, v, tv := h.expr(kv.Value, e)
		want := map[string]hty{"index": hInt, "element": hPtr}
		if b != "" || want[key] != tv || (key != "index" && key != "element") {
			h.bad(el.Pos(), "field %s of the Iterator literal", key)
		}
		given[key] = v
	}
	if _, ok := given["list"]; !ok {
		h.bad(cl.Pos(), "Iterator literal without its list")
	}
	var args []string
	for _, f := range h.iter.fields {
		v, ok := given[f]
		if !ok {
			v = map[string]string{"index": "0", "element": "(@None nat)"}[f]
		}
		args = append(args, v)
	}
	return "(mkIterator " + strings.Join(args, " ") + ")", true
}

// f(index, value) on a function-typed parameter
func (h *hfx) predCall(c *ast.CallExpr, e henv) ([2]string, bool) {
	id, ok := c.Fun.(*ast.Ident)
	if !ok {
		return [2]string{}, false
	}
	vi, ok := e.vars[id.Name]
	if !ok || vi.ty != hPred {
		return [2]string{}, false
	}
	if len(c.Args) != 2 {
		h.bad(c.Pos(), "call of %s with %d arguments", id.Name, len(c.Args))
	}
	b1, a1, t1 := h.expr(c.Args[0], e)
	b2, a2, t2 := h.expr(c.Args[1], e)
	if t1 != hInt || t2 != hElem {
		h.bad(c.Pos(), "arguments of %s", id.Name)
	}
	return [2]string{b1 + b2, "(" + vname(id.Name) + " " + a1 + " " + a2 + ")"}, true
}

// iterator.M(args) on the receiver iterator, iterator.list.M(args) on the list it walks
func (h *hfx) iterCall(c *ast.CallExpr, e henv) (string, string, *hfunc, bool) {
	if h.iter == nil {
		return "", "", nil, false
	}
	sel, ok := c.Fun.(*ast.SelectorExpr)
	if !ok {
		return "", "", nil, false
	}
	if _, isList := h.fn.recvIsList(); isList {
		return "", "", nil, false // a List method in the iterator file (Iterator()): the ordinary rules
	}
	var fn *hfunc
	var head string
	switch {
	case h.isIterList(sel.X):
		fn = h.iter.cellFuncs[sel.Sel.Name]
		if fn == nil || fn.text == "" || fn.text == "(* refused *)" {
			h.bad(c.Pos(), "call of %s on the list: not a translated method of %s", sel.Sel.Name, h.iter.cells)
		}
		if fn.writes {
			h.bad(c.Pos(), "call of the list's mutating method %s from an iterator", fn.name)
		}
		head = "(" + h.iter.cells + "." + fn.coq + " v_list"
	default:
		id, ok := sel.X.(*ast.Ident)
		if !ok || id.Name != h.fn.recv {
			h.bad(c.Pos(), "method call on something that is neither the iterator nor its list")
		}
		fn = h.funcs[sel.Sel.Name]
		if fn == nil || fn.text == "" || fn.text == "(* refused *)" {
			h.bad(c.Pos(), "call of %s, which is not a (previously) translated method of this file", sel.Sel.Name)
		}
		if _, isList := fn.recvIsList(); isList {
			h.bad(c.Pos(), "call of the list method %s on the iterator", fn.name)
		}
		head = "(" + fn.coq + " " + vname(h.fn.recv)
		if h.iter.needs[fn.name] {
			if _, ok := e.vars["list"]; !ok {
				h.bad(c.Pos(), "internal: %s needs the list, %s does not have it", fn.name, h.fn.name)
			}
			head += " v_list"
		}
	}
	if len(c.Args) != len(fn.params) || c.Ellipsis != token.NoPos {
		h.bad(c.Pos(), "call of %s with a wrong number of arguments", fn.name)
	}
	binds := ""
	for i, a := range c.Args {
		b, as, ta := h.expr(a, e)
		if ta != fn.params[i].ty {
			h.bad(a.Pos(), "argument of unexpected type")
		}
		binds += b
		head += " " + as
	}
	return binds, head + ")", fn, true
}

// return iterator.M(...) where M assigns the iterator
func (h *hfx) retWritingCall(n *ast.ReturnStmt, e henv) (string, bool) {
	if h.iter == nil || len(n.Results) != 1 {
		return "", false
	}
	c, ok := n.Results[0].(*ast.CallExpr)
	if !ok {
		return "", false
	}
	sel, ok := c.Fun.(*ast.SelectorExpr)
	if !ok {
		return "", false
	}
	id, ok := sel.X.(*ast.Ident)
	if !ok || id.Name != h.fn.recv {
		return "", false
	}
	if _, isList := h.fn.recvIsList(); isList {
		return "", false
	}
	b, call, fn := h.methodCall(c, e)
	if !fn.writes {
		return "", false
	}
	if len(fn.results) != len(h.fn.results) || len(fn.results) != 1 || fn.results[0] != h.fn.results[0] {
		h.bad(n.Pos(), "return of a call whose results do not match")
	}
	r := h.fresh("r")
	h.rebind(h.fn.recv, e)
	return b + "do (" + vname(h.fn.recv) + ", " + r + ") <- " + call + ";\n" + h.ret([]string{r}), true
}

// for iterator.M() { ... }: the condition assigns the iterator
func (h *hfx) iterCond(n *ast.ForStmt, e henv) (string, string, bool) {
	if h.iter == nil || n.Init != nil || n.Post != nil {
		return "", "", false
	}
	c, ok := n.Cond.(*ast.CallExpr)
	if !ok {
		return "", "", false
	}
	sel, ok := c.Fun.(*ast.SelectorExpr)
	if !ok {
		return "", "", false
	}
	id, ok := sel.X.(*ast.Ident)
	if !ok || id.Name != h.fn.recv {
		return "", "", false
	}
	if _, isList := h.fn.recvIsList(); isList {
		return "", "", false
	}
	b, call, fn := h.methodCall(c, e)
	if !fn.writes {
		return "", "", false
	}
	if len(fn.results) != 1 || fn.results[0] != hBool {
		h.bad(n.Cond.Pos(), "loop condition")
	}
	r := h.fresh("r")
	h.rebind(h.fn.recv, e)
	return b + "do (" + vname(h.fn.recv) + ", " + r + ") <- " + call + ";\n", r, true
}
