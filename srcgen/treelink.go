package main

// TREE POINTER MODE, pointers to pointers (the AVL tree's write path): `qp **Node` is the ADDRESS OF A LINK -- of the
// root slot of the tree header (`&tree.Root`) or of a child slot of a node (`&q.Children[a]`):
//
//	GoTreeLink.link := LRoot | LChild (address of the node) (index 0 / 1)
//
//   - `&tree.Root` (tree = the receiver, Root = its *Node field) is LRoot; `&q.Children[a]` is `link_child`: None (panic)
//     when q is nil / unallocated or a is outside 0..1, else `LChild q a`;
//   - `*qp` (read) is `link_get`: the root slot, or the child slot read through the heap;
//   - `*qp = x` is `link_set`: it yields the new heap AND the new content of the root slot.
//
// The root slot is the receiver's field in a method of the tree header (`Tree_Root v_tree` / `Tree_set_Root`); a plain
// FUNCTION that reads or writes through a link (putFix, removeFix, removeMin) has no receiver: it takes the content of the
// root slot as a parameter `root` (after `h`) and, when it (or a callee) assigns through a link, returns it (after `h`);
// a method that calls it passes `Tree_Root v_tree` and stores the returned value back.
//
//   - `minKey *K` / `minVal *V` (a pointer to a type parameter) can only be `&q.Key` / `&q.Value`: the unique field of the
//     heap struct with that type; it is the node's ADDRESS (a nat; `field_addr`: None for nil / unallocated), `*minKey = e`
//     stores the field, `*minKey` reads it.
//   - `a / k` with a positive literal k is `Z.quot` (Go truncates toward zero); `int8(e)` is `to_int8` (wrap-around to
//     -128..127), `int(e)` the identity.  As for `int`, the ARITHMETIC on int8 is not wrapped.
//
// Everything else about `**T` / `*K` (address of a local variable, nil links, comparisons of links, links in struct
// fields) is refused.

import (
	"go/ast"
	"go/token"
	"strconv"
)

const (
	tkLink tkind = 100 + iota // **Node
	tkFPtr                    // *K / *V: the address of the node whose field tty.s it points to
)

const tvRoot = "#r"

type tlinkInfo struct {
	rootStruct string  // the struct that holds the root slot (Tree); "" = no `&recv.F` in the unit
	rootField  *tfield // its *Node field
	childField *tfield // the [2]*Node field of the heap struct
	used       bool
}

func (tu *tunit) linkInfo() *tlinkInfo {
	if tu.link != nil {
		return tu.link
	}
	li := &tlinkInfo{}
	tu.link = li
	if tu.cell != nil {
		for _, f := range tu.cell.fields {
			if f.ty.k == tkArr2 {
				if li.childField != nil {
					li.childField = nil
					break
				}
				li.childField = f
			}
		}
	}
	// the root slot: every `&recv.F` (recv the receiver of a method, F a *Node field of its struct) must name the same field
	for _, d := range tu.u.allDecls() {
		fd, ok := d.(*ast.FuncDecl)
		if !ok || fd.Recv == nil || fd.Body == nil {
			continue
		}
		rn, rt, _, ok := recvInfo(fd)
		st := tu.structs[rt]
		if !ok || st == nil || st.cell || rn == "" {
			continue
		}
		ast.Inspect(fd.Body, func(x ast.Node) bool {
			u, ok := x.(*ast.UnaryExpr)
			if !ok || u.Op != token.AND {
				return true
			}
			sel, ok := u.X.(*ast.SelectorExpr)
			if !ok {
				return true
			}
			id, ok := sel.X.(*ast.Ident)
			if !ok || id.Name != rn {
				return true
			}
			f := st.field(sel.Sel.Name)
			if f == nil || f.ty.k != tkPtr {
				return true
			}
			if li.rootField != nil && (li.rootField != f || li.rootStruct != st.name) {
				tu.t.unsupported(u.Pos(), "address of a second link field (%s.%s and %s.%s): only one root slot is modelled", li.rootStruct, li.rootField.name, st.name, f.name)
			}
			li.rootStruct, li.rootField = st.name, f
			return true
		})
	}
	return li
}

// the unique field of the heap struct whose declared type is the type parameter `name` ("" = none / ambiguous)
func (tu *tunit) cellFieldOfTParam(name string) string {
	found := ""
	for _, d := range tu.u.allDecls() {
		gd, ok := d.(*ast.GenDecl)
		if !ok || gd.Tok != token.TYPE {
			continue
		}
		for _, sp := range gd.Specs {
			ts := sp.(*ast.TypeSpec)
			st, ok := ts.Type.(*ast.StructType)
			if !ok || ts.Name.Name != tu.u.Spec.Cell {
				continue
			}
			for _, f := range fieldList(st.Fields) {
				if id, ok := f.typ.(*ast.Ident); ok && id.Name == name {
					if found != "" {
						return ""
					}
					found = f.name
				}
			}
		}
	}
	return found
}

// **Node / *K
func (tu *tunit) linkTypeOf(n *ast.StarExpr) (tty, bool) {
	switch x := n.X.(type) {
	case *ast.StarExpr:
		if s := tu.structOf(x.X); s != nil && s.cell {
			return tty{k: tkLink}, true
		}
	case *ast.Ident:
		if tu.tparams[x.Name] {
			if f := tu.cellFieldOfTParam(x.Name); f != "" {
				return tty{k: tkFPtr, s: f}, true
			}
		}
	}
	return tty{}, false
}

func linkCoqType(x tty) (string, bool) {
	switch x.k {
	case tkLink:
		return "GoTreeLink.link", true
	case tkFPtr:
		return "nat", true
	}
	return "", false
}

// a link / field pointer may be a parameter, a local or a result -- not a struct field
func (tu *tunit) linkFieldCheck(p token.Pos, ft tty, st, f string) {
	if ft.k == tkLink || ft.k == tkFPtr {
		tu.t.unsupported(p, "field %s.%s: a pointer to a pointer / to a type parameter stored in a struct", st, f)
	}
}

// the term for the content of the root slot
func (h *tfx) rootTerm(p token.Pos) string {
	li := h.tu.linkInfo()
	li.used = true
	if h.fn.recvSt == nil {
		h.used.root = true
		return tv(tvRoot)
	}
	if li.rootField == nil || h.fn.recvSt.cell || h.fn.recvSt.name != li.rootStruct {
		h.bad(p, "a link (**%s) used in a method of %s, which does not hold the root slot", h.tu.cell.name, h.fn.recvSt.name)
	}
	return "(" + li.rootField.coq + " " + vname(h.fn.recv) + ")"
}

// the root slot gets the value `val`
func (h *tfx) setRoot(val string, e tenv) string {
	li := h.tu.linkInfo()
	if h.fn.recvSt == nil {
		h.rebind(tvRoot, e)
		return "let " + tv(tvRoot) + " := " + val + " in\n"
	}
	rv := vname(h.fn.recv)
	h.rebind(h.fn.recv, e)
	return "let " + rv + " := " + li.rootStruct + "_set_" + li.rootField.name + " " + rv + " " + val + " in\n"
}

func (h *tfx) childAccess(p token.Pos) string {
	li := h.tu.linkInfo()
	if li.childField == nil {
		h.bad(p, "a link into a heap struct that does not have exactly one [2]*%s field", h.tu.cell.name)
	}
	return li.childField.coq
}

// &tree.Root, &q.Children[a], &q.Key; ok = false: not one of these forms (a composite literal)
func (h *tfx) addrExpr(u *ast.UnaryExpr, e tenv) (string, string, tty, bool) {
	tu := h.tu
	li := tu.linkInfo()
	switch x := u.X.(type) {
	case *ast.CompositeLit:
		return "", "", tty{}, false
	case *ast.SelectorExpr:
		id, ok := x.X.(*ast.Ident)
		if !ok {
			h.bad(u.Pos(), "address of a field reached through something that is not a plain variable")
		}
		vi, ok := e.vars[id.Name]
		if !ok {
			h.bad(u.Pos(), "address of a field of %s", id.Name)
		}
		switch vi.ty.k {
		case tkRec:
			f := tu.structs[vi.ty.s].field(x.Sel.Name)
			if id.Name != h.fn.recv || f == nil || f != li.rootField || vi.ty.s != li.rootStruct {
				h.bad(u.Pos(), "address of %s.%s (only the receiver's *%s field can be the root slot of a link)", id.Name, x.Sel.Name, tu.cell.name)
			}
			li.used = true
			return "", "GoTreeLink.LRoot", tty{k: tkLink}, true
		case tkPtr:
			f := tu.cell.field(x.Sel.Name)
			if f == nil {
				h.bad(u.Pos(), "field %s of %s", x.Sel.Name, tu.cell.name)
			}
			// the field must be the one its pointer type stands for
			var tp string
			for n := range tu.tparams {
				if tu.cellFieldOfTParam(n) == f.name {
					tp = n
				}
			}
			if tp == "" {
				h.bad(u.Pos(), "address of the node field %s (only the unique field of a type-parameter type: *K, *V)", f.name)
			}
			li.used = true
			a := h.fresh("a")
			return "do " + a + " <- GoTreeLink.field_addr h " + tv(id.Name) + ";\n", a, tty{k: tkFPtr, s: f.name}, true
		}
		h.bad(u.Pos(), "address of a field of %s", id.Name)
	case *ast.IndexExpr:
		sel, ok := x.X.(*ast.SelectorExpr)
		if !ok {
			h.bad(u.Pos(), "address of an indexed expression")
		}
		b, p, tp := h.expr(sel.X, e)
		f := tu.cell.field(sel.Sel.Name)
		bi, i, ti := h.expr(x.Index, e)
		if tp.k != tkPtr || f == nil || f != li.childField || ti.k != tkInt {
			h.bad(u.Pos(), "address of an indexed expression (only &p.%s[i])", h.childAccess(u.Pos()))
		}
		li.used = true
		l := h.fresh("l")
		return b + bi + "do " + l + " <- GoTreeLink.link_child " + f.coq + " h " + p + " " + i + ";\n", l, tty{k: tkLink}, true
	}
	h.bad(u.Pos(), "address of this expression (only &Node{...}, &tree.Root, &p.Children[i], &p.Key)")
	return "", "", tty{}, true
}

// *qp / *minKey (read)
func (h *tfx) starExpr(n *ast.StarExpr, e tenv) (string, string, tty) {
	tu := h.tu
	b, s, t := h.expr(n.X, e)
	switch t.k {
	case tkLink:
		x := h.fresh("x")
		return b + "do " + x + " <- GoTreeLink.link_get " + h.childAccess(n.Pos()) + " h " + h.rootTerm(n.Pos()) + " " + s + ";\n", x, tty{k: tkPtr}
	case tkFPtr:
		f := tu.cell.field(t.s)
		c := h.fresh("c")
		return b + "do " + c + " <- deref h (Some " + s + ");\n", "(" + f.coq + " " + c + ")", f.ty
	}
	h.bad(n.Pos(), "dereference of something that is not a link (**%s) / a pointer to a node field", tu.cell.name)
	return "", "", tty{}
}

// *qp = val / *minKey = val
func (h *tfx) starAssign(l *ast.StarExpr, val string, tvl tty, e tenv) (string, tenv) {
	tu := h.tu
	id, ok := l.X.(*ast.Ident)
	if !ok {
		h.bad(l.Pos(), "assignment through a pointer that is not a plain variable")
	}
	vi, ok := e.vars[id.Name]
	if !ok {
		h.bad(l.Pos(), "assignment through %s", id.Name)
	}
	switch vi.ty.k {
	case tkLink:
		if tvl.k != tkPtr {
			h.bad(l.Pos(), "value assigned through a link")
		}
		ch := h.childAccess(l.Pos())
		root := h.rootTerm(l.Pos())
		r := h.fresh("r")
		h.rebind(tvHeap, e)
		return "do (h, " + r + ") <- GoTreeLink.link_set " + ch + " " + tu.cell.name + "_with_" + tu.linkInfo().childField.name + " h " + root + " " + tv(id.Name) + " " + val + ";\n" + h.setRoot(r, e), e
	case tkFPtr:
		f := tu.cell.field(vi.ty.s)
		if !f.ty.eq(tvl) {
			h.bad(l.Pos(), "value assigned through a pointer to the node field %s", f.name)
		}
		h.rebind(tvHeap, e)
		return "do h <- store h (Some " + tv(id.Name) + ") (" + tu.cell.name + "_with_" + f.name + " " + val + ");\n", e
	}
	h.bad(l.Pos(), "assignment through %s", id.Name)
	return "", e
}

// a / k: Z.quot for a positive literal divisor (division by zero panics in Go and is not modelled)
func (h *tfx) quoExpr(n *ast.BinaryExpr, a, c string) string {
	lit, ok := n.Y.(*ast.BasicLit)
	if ok && lit.Kind == token.INT {
		if v, err := strconv.ParseInt(lit.Value, 0, 64); err == nil && v > 0 {
			return "(Z.quot " + a + " " + c + ")"
		}
	}
	h.bad(n.Pos(), "division by something that is not a positive integer literal")
	return ""
}

// int8(e) / int(e)
func (h *tfx) conversion(c *ast.CallExpr, e tenv) (string, string, tty, bool) {
	id, ok := c.Fun.(*ast.Ident)
	if !ok || (id.Name != "int8" && id.Name != "int") || len(c.Args) != 1 || c.Ellipsis != token.NoPos {
		return "", "", tty{}, false
	}
	if _, sh := e.vars[id.Name]; sh || h.tu.byKey["."+id.Name] != nil {
		return "", "", tty{}, false
	}
	if _, named := h.tu.named[id.Name]; named {
		return "", "", tty{}, false
	}
	b, s, t := h.expr(c.Args[0], e)
	if t.k != tkInt {
		h.bad(c.Pos(), "conversion %s(..) of a non-integer", id.Name)
	}
	if id.Name == "int" {
		return b, s, t, true
	}
	h.tu.linkInfo().used = true
	return b, "(GoTreeLink.to_int8 " + s + ")", t, true
}

// the root slot handed to a callee that is a plain function working on links, and what comes back
func (h *tfx) callRoot(c *ast.CallExpr, fn *tfunc, e tenv) (arg string, pat string, post string) {
	if !fn.fl.root && !fn.fl.wroot {
		return "", "", ""
	}
	arg = " " + h.rootTerm(c.Pos())
	if fn.fl.wroot {
		pat = h.fresh("r")
		post = h.setRoot(pat, e)
	}
	return
}
